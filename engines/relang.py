"""relang - regular languages over Unicode code points (DESIGN.md §2.4).

  pattern --re._parser.parse--> regex AST --> Thompson NFA --> DFA over an ALPHABET PARTITION
  (equivalence classes of the code points 0..0x10FFFF induced by the character predicates that occur).

Provided:
  * CharSet                 sorted range lists, set algebra, tabulated platform predicates (`pred`)
  * combinators             lit / chars / seq / alt / star / plus / opt / rep / anychar  (specification side, no `re` involved)
  * from_regex(p, flags, mode)   Python matching mode is part of the language:
                                 fullmatch | match (any suffix may follow) | search (any prefix and suffix);
                                 `^` `\\A` only at position 0, `\\Z` only at the end, `$` at the end or before one final '\\n';
                                 with MULTILINE `^` also after every '\\n' and `$` also before every '\\n'
  * Lang algebra            a & b, a | b, ~a, a - b
  * decisions               compare / included / shortest / accepts / prefix_free / enumerate_shortest, each failure with a
                            SHORTEST witness string
  * as_re(L)                 any Lang as a regex node (an embedded automaton), so that concatenation / star / split-and-join
                            constructions over arbitrary boolean combinations become expressible
  * preimage / strip_preimage   { s : h(s) in L } for per-code-point string maps (lower, upper, replace of one character)
                            and for str.strip-like trimming
  * IGNORECASE              every one-character item of the pattern is tabulated by asking the platform `re` about each code point
Unsupported regex constructs (back-references, look-around, \\b, possessive/atomic groups, LOCALE, scoped inline
flags, bytes patterns) raise AnalysisError - never guessed.  (MULTILINE is supported.)

Platform definitions: the Unicode predicates (`str.isdigit`, ... and the regex categories \\w \\d \\s) are tabulated by asking the
running interpreter about every single code point; that is the definition the analysed code will meet, not repository code.
Nothing here imports or runs repository code.
"""
from __future__ import annotations

import bisect
import re
from collections import deque
from typing import Dict, FrozenSet, Iterable, Iterator, List, Optional, Sequence, Tuple

from .common import AnalysisError

try:  # Python >= 3.11
    import re._constants as _sc
    import re._parser as _sp
except ImportError:  # pragma: no cover
    import sre_constants as _sc  # type: ignore
    import sre_parse as _sp  # type: ignore

MAXCP = 0x10FFFF
NL = 0x0A

# --------------------------------------------------------------------------------------
# character sets
# --------------------------------------------------------------------------------------


class CharSet:
    """Immutable set of code points as a sorted tuple of disjoint, non-adjacent inclusive ranges."""

    __slots__ = ('ranges', '_h', '_los')

    def __init__(self, ranges: Iterable[Tuple[int, int]] = ()):
        rs = sorted((lo, hi) for lo, hi in ranges if lo <= hi)
        out: List[Tuple[int, int]] = []
        for lo, hi in rs:
            if lo < 0 or hi > MAXCP:
                raise AnalysisError(f'CharSet: range {lo:#x}-{hi:#x} outside Unicode')
            if out and lo <= out[-1][1] + 1:
                if hi > out[-1][1]:
                    out[-1] = (out[-1][0], hi)
            else:
                out.append((lo, hi))
        self.ranges: Tuple[Tuple[int, int], ...] = tuple(out)
        self._h = hash(self.ranges)
        self._los = [lo for lo, _ in self.ranges]

    # constructors
    @staticmethod
    def of(chars: Iterable[str]) -> 'CharSet':
        return CharSet((ord(c), ord(c)) for c in chars)

    @staticmethod
    def span(lo: str, hi: str) -> 'CharSet':
        return CharSet([(ord(lo), ord(hi))])

    @staticmethod
    def full() -> 'CharSet':
        return _FULL

    @staticmethod
    def empty() -> 'CharSet':
        return _EMPTY

    # algebra
    def __or__(self, o: 'CharSet') -> 'CharSet':
        return CharSet(self.ranges + o.ranges)

    def __invert__(self) -> 'CharSet':
        out = []
        prev = 0
        for lo, hi in self.ranges:
            if lo > prev:
                out.append((prev, lo - 1))
            prev = hi + 1
        if prev <= MAXCP:
            out.append((prev, MAXCP))
        return CharSet(out)

    def __and__(self, o: 'CharSet') -> 'CharSet':
        out = []
        i = j = 0
        a, b = self.ranges, o.ranges
        while i < len(a) and j < len(b):
            lo = max(a[i][0], b[j][0])
            hi = min(a[i][1], b[j][1])
            if lo <= hi:
                out.append((lo, hi))
            if a[i][1] < b[j][1]:
                i += 1
            else:
                j += 1
        return CharSet(out)

    def __sub__(self, o: 'CharSet') -> 'CharSet':
        return self & ~o

    def __contains__(self, cp) -> bool:
        if isinstance(cp, str):
            cp = ord(cp)
        i = bisect.bisect_right(self._los, cp) - 1
        return i >= 0 and self.ranges[i][1] >= cp

    def __bool__(self) -> bool:
        return bool(self.ranges)

    def __eq__(self, o: object) -> bool:
        return isinstance(o, CharSet) and self.ranges == o.ranges

    def __hash__(self) -> int:
        return self._h

    def __len__(self) -> int:
        return sum(hi - lo + 1 for lo, hi in self.ranges)

    def min(self) -> int:
        if not self.ranges:
            raise AnalysisError('CharSet.min of the empty set')
        return self.ranges[0][0]

    def issubset(self, o: 'CharSet') -> bool:
        return not (self - o)

    def sample(self) -> int:
        """A representative code point: a printable ASCII one when the set has any, else the smallest."""
        for lo, hi in self.ranges:
            a, b = max(lo, 0x21), min(hi, 0x7E)
            if a <= b:
                return a
        return self.min()

    def describe(self, limit: int = 6) -> str:
        def c(x: int) -> str:
            return repr(chr(x))[1:-1] if 0x20 < x < 0x7F else f'U+{x:04X}'
        parts = [c(lo) if lo == hi else f'{c(lo)}-{c(hi)}' for lo, hi in self.ranges[:limit]]
        more = '' if len(self.ranges) <= limit else f',... ({len(self.ranges)} ranges, {len(self)} code points)'
        return '[' + ','.join(parts) + more + ']'

    __repr__ = describe


_FULL = CharSet([(0, MAXCP)])
_EMPTY = CharSet([])
ANY = _FULL
NEWLINE = CharSet([(NL, NL)])

# ---- tabulated platform predicates -----------------------------------------------------

_all_chars_cache: Optional[str] = None
_pred_cache: Dict[str, CharSet] = {}

_STR_PREDICATES = ('isascii', 'isdigit', 'islower', 'isupper', 'isalpha', 'isalnum', 'isdecimal', 'isnumeric', 'isspace',
                   'isidentifier', 'isprintable', 'istitle')
_RE_CATEGORIES = {'re.word': r'\w+', 're.digit': r'\d+', 're.space': r'\s+'}
_ASCII_CATEGORIES = {
    're.word.ascii': CharSet([(0x30, 0x39), (0x41, 0x5A), (0x5F, 0x5F), (0x61, 0x7A)]),
    're.digit.ascii': CharSet([(0x30, 0x39)]),
    're.space.ascii': CharSet([(0x09, 0x0D), (0x20, 0x20)]),
}


def _all_chars() -> str:
    global _all_chars_cache
    if _all_chars_cache is None:
        # chr(0) .. chr(MAXCP) in order; built from the UTF-32 code units (same string as ''.join(map(chr, range(MAXCP + 1))), much faster)
        import sys
        from array import array
        units = array('I', range(MAXCP + 1))
        if units.itemsize == 4:
            _all_chars_cache = units.tobytes().decode('utf-32-le' if sys.byteorder == 'little' else 'utf-32-be', 'surrogatepass')
        if _all_chars_cache is None or len(_all_chars_cache) != MAXCP + 1 or _all_chars_cache[0x1F600] != chr(0x1F600) or _all_chars_cache[0xD800] != chr(0xD800):
            _all_chars_cache = ''.join(map(chr, range(MAXCP + 1)))
    return _all_chars_cache


def _runs(flags: bytes) -> CharSet:
    return CharSet((m.start(), m.end() - 1) for m in re.finditer(b'\x01+', flags))


def pred(name: str) -> CharSet:
    """The set of code points satisfying a platform predicate, tabulated over all 1,114,112 code points.
    name: 'str.<method>' for a str predicate method applied to a one-character string, or 're.word' / 're.digit' /
    're.space' (+ '.ascii') for the regex categories of str patterns."""
    cs = _pred_cache.get(name)
    if cs is not None:
        return cs
    if name in _ASCII_CATEGORIES:
        cs = _ASCII_CATEGORIES[name]
    elif name in _RE_CATEGORIES:
        cs = CharSet((m.start(), m.end() - 1) for m in re.finditer(_RE_CATEGORIES[name], _all_chars()))
    elif name.startswith('str.') and name[4:] in _STR_PREDICATES:
        cs = _runs(bytes(map(getattr(str, name[4:]), _all_chars())))
    else:
        raise AnalysisError(f'relang.pred: unknown character predicate {name!r}')
    _pred_cache[name] = cs
    return cs


def from_table(name: str, table: Sequence[bool]) -> CharSet:
    """A predicate given as an explicit table indexed by code point (e.g. dumped from another platform); cached by name."""
    cs = _pred_cache.get(name)
    if cs is None:
        cs = _runs(bytes(1 if x else 0 for x in table))
        _pred_cache[name] = cs
    return cs


def tabulate(name: str, fn) -> CharSet:
    """The set of code points c with fn(chr(c)) truthy, asked of the running interpreter for every code point; cached by name
    (the name must identify fn)."""
    cs = _pred_cache.get(name)
    if cs is None:
        cs = _runs(bytes(1 if fn(c) else 0 for c in _all_chars()))
        _pred_cache[name] = cs
    return cs


_map_cache: Dict[str, Dict[int, str]] = {}


def char_map(name: str, fn) -> Dict[int, str]:
    """The code points whose image under the per-character string function fn differs from the character itself
    (code point -> image), asked of the running interpreter for every code point; cached by name."""
    d = _map_cache.get(name)
    if d is None:
        d = {}
        for i, c in enumerate(_all_chars()):
            img = fn(c)
            if img != c:
                d[i] = img
        _map_cache[name] = d
    return d


# --------------------------------------------------------------------------------------
# regular expressions (our own AST) and combinators
# --------------------------------------------------------------------------------------
# node forms:  ('eps',)  ('set', CharSet)  ('cat', [nodes])  ('alt', [nodes])  ('rep', node, lo, hi|None)  ('at', 'bos'|'eos'|'eos_nl')
#              ('aut', n_states, accepting: frozenset, edges: ((p, CharSet, q), ...))   an embedded automaton, state 0 initial (see as_re)

Re = tuple

EPS: Re = ('eps',)


def chars(cs: CharSet) -> Re:
    return ('set', cs)


def anychar() -> Re:
    return ('set', ANY)


def lit(s: str) -> Re:
    if not s:
        return EPS
    return ('cat', [('set', CharSet([(ord(c), ord(c))])) for c in s])


def seq(*rs: Re) -> Re:
    return ('cat', list(rs))


def alt(*rs: Re) -> Re:
    if not rs:
        raise AnalysisError('relang.alt of nothing')
    return ('alt', list(rs))


def rep(r: Re, lo: int, hi: Optional[int]) -> Re:
    return ('rep', r, lo, hi)


def star(r: Re) -> Re:
    return ('rep', r, 0, None)


def plus(r: Re) -> Re:
    return ('rep', r, 1, None)


def opt(r: Re) -> Re:
    return ('rep', r, 0, 1)


def _re_sets(r: Re, out: set) -> bool:
    """Collect the CharSets of r into out; returns True when r uses an assertion that looks at newlines (`$`, multiline `^` `$`)."""
    k = r[0]
    if k == 'set':
        out.add(r[1])
        return False
    if k in ('cat', 'alt'):
        d = False
        for x in r[1]:
            d = _re_sets(x, out) or d
        return d
    if k == 'rep':
        return _re_sets(r[1], out)
    if k == 'at':
        return r[1] in ('eos_nl', 'bol', 'eol')
    if k == 'aut':
        for _p, cs, _q in r[3]:
            out.add(cs)
    return False


def _has_assertion(r: Re) -> bool:
    k = r[0]
    if k == 'at':
        return True
    if k in ('cat', 'alt'):
        return any(_has_assertion(x) for x in r[1])
    if k == 'rep':
        return _has_assertion(r[1])
    return False


# ---- Python regex -> Re ------------------------------------------------------------------

_UNSUPPORTED_FLAGS = {'LOCALE': _sc.SRE_FLAG_LOCALE}
_REPEAT_LIMIT = 512

# ---- IGNORECASE: one-character items are tabulated with the platform regex engine ----------------------------------------
# Case-insensitive matching of str patterns is decided per character (LITERAL / NOT_LITERAL / IN each look at one character of the
# subject), but the rule is intricate (simple lower-casing plus the extra-cases table, character classes lower-case the subject
# character first, classes without cased members are compared as they are, ...).  Instead of re-implementing it, the item is written
# back as a one-character pattern and the platform `re` is asked about every code point - the same trust base as \\w \\d \\s.

_CATEGORY_ESCAPES = {
    _sc.CATEGORY_DIGIT: r'\d', _sc.CATEGORY_NOT_DIGIT: r'\D', _sc.CATEGORY_SPACE: r'\s', _sc.CATEGORY_NOT_SPACE: r'\S',
    _sc.CATEGORY_WORD: r'\w', _sc.CATEGORY_NOT_WORD: r'\W',
}
_ci_cache: Dict[Tuple[str, int], CharSet] = {}


def _cp_escape(cp: int) -> str:
    return '\\U%08x' % cp


def _item_pattern(op, av) -> str:
    """A one-character item of a parsed pattern written back as pattern text (code points as \\UXXXXXXXX escapes)."""
    if op is _sc.LITERAL:
        return _cp_escape(av)
    if op is _sc.NOT_LITERAL:
        return '[^' + _cp_escape(av) + ']'
    if op is _sc.IN:
        parts = []
        neg = ''
        for iop, iav in av:
            if iop is _sc.NEGATE:
                neg = '^'
            elif iop is _sc.LITERAL:
                parts.append(_cp_escape(iav))
            elif iop is _sc.RANGE:
                parts.append(_cp_escape(iav[0]) + '-' + _cp_escape(iav[1]))
            elif iop is _sc.CATEGORY and iav in _CATEGORY_ESCAPES:
                parts.append(_CATEGORY_ESCAPES[iav])
            else:
                raise AnalysisError(f'relang: unsupported item {iop} in a character class')
        return '[' + neg + ''.join(parts) + ']'
    raise AnalysisError(f'relang: not a one-character item: {op}')


def _tabulate_item(op, av, flags: int) -> CharSet:
    """The code points a one-character item matches under `flags` (IGNORECASE and/or ASCII), by asking the platform regex engine."""
    keep = flags & (_sc.SRE_FLAG_IGNORECASE | _sc.SRE_FLAG_ASCII)
    text = _item_pattern(op, av)
    key = (text, keep)
    cs = _ci_cache.get(key)
    if cs is None:
        try:
            rx = re.compile('(?:' + text + ')+', keep)
        except re.error as e:  # pragma: no cover
            raise AnalysisError(f'relang: cannot tabulate {text!r}: {e}') from e
        cs = CharSet((m.start(), m.end() - 1) for m in rx.finditer(_all_chars()))
        _ci_cache[key] = cs
    return cs


def _category(cat, ascii_only: bool) -> CharSet:
    sfx = '.ascii' if ascii_only else ''
    table = {
        _sc.CATEGORY_DIGIT: ('re.digit', False), _sc.CATEGORY_NOT_DIGIT: ('re.digit', True),
        _sc.CATEGORY_SPACE: ('re.space', False), _sc.CATEGORY_NOT_SPACE: ('re.space', True),
        _sc.CATEGORY_WORD: ('re.word', False), _sc.CATEGORY_NOT_WORD: ('re.word', True),
    }
    if cat not in table:
        raise AnalysisError(f'relang: unsupported regex category {cat}')
    name, neg = table[cat]
    cs = pred(name + sfx)
    return ~cs if neg else cs


def _conv(items, flags: int) -> Re:
    ascii_only = bool(flags & _sc.SRE_FLAG_ASCII)
    out: List[Re] = []
    for op, av in items:
        if flags & _sc.SRE_FLAG_IGNORECASE and op in (_sc.LITERAL, _sc.NOT_LITERAL, _sc.IN):
            out.append(('set', _tabulate_item(op, av, flags)))
        elif op is _sc.LITERAL:
            out.append(('set', CharSet([(av, av)])))
        elif op is _sc.NOT_LITERAL:
            out.append(('set', ~CharSet([(av, av)])))
        elif op is _sc.ANY:
            out.append(('set', ANY if flags & _sc.SRE_FLAG_DOTALL else ~NEWLINE))
        elif op is _sc.IN:
            neg = False
            cs = _EMPTY
            for iop, iav in av:
                if iop is _sc.NEGATE:
                    neg = True
                elif iop is _sc.LITERAL:
                    cs = cs | CharSet([(iav, iav)])
                elif iop is _sc.RANGE:
                    cs = cs | CharSet([(iav[0], iav[1])])
                elif iop is _sc.CATEGORY:
                    cs = cs | _category(iav, ascii_only)
                else:
                    raise AnalysisError(f'relang: unsupported item {iop} in a character class')
            out.append(('set', ~cs if neg else cs))
        elif op is _sc.BRANCH:
            out.append(('alt', [_conv(b, flags) for b in av[1]]))
        elif op is _sc.SUBPATTERN:
            _group, add_flags, del_flags, sub = av
            if add_flags or del_flags:
                raise AnalysisError('relang: scoped inline flags (?x:...) are not supported')
            out.append(_conv(sub, flags))
        elif op in (_sc.MAX_REPEAT, _sc.MIN_REPEAT):
            # greedy vs lazy does not change WHETHER a match exists, hence not the language
            lo, hi, sub = av
            hi2: Optional[int] = None if hi == _sc.MAXREPEAT else hi
            if lo > _REPEAT_LIMIT or (hi2 is not None and hi2 > _REPEAT_LIMIT):
                raise AnalysisError(f'relang: repeat bound {{{lo},{hi}}} above the supported limit {_REPEAT_LIMIT}')
            out.append(('rep', _conv(sub, flags), lo, hi2))
        elif op is _sc.AT:
            multiline = bool(flags & _sc.SRE_FLAG_MULTILINE)
            if av is _sc.AT_BEGINNING and multiline:
                out.append(('at', 'bol'))
            elif av is _sc.AT_END and multiline:
                out.append(('at', 'eol'))
            elif av in (_sc.AT_BEGINNING, _sc.AT_BEGINNING_STRING):
                out.append(('at', 'bos'))
            elif av is _sc.AT_END:
                out.append(('at', 'eos_nl'))
            elif av is _sc.AT_END_STRING:
                out.append(('at', 'eos'))
            else:
                raise AnalysisError(f'relang: unsupported position assertion {av}')
        else:
            # GROUPREF, GROUPREF_EXISTS, ASSERT, ASSERT_NOT, ATOMIC_GROUP, POSSESSIVE_REPEAT, ...
            raise AnalysisError(f'relang: unsupported regex construct {op}')
    if len(out) == 1:
        return out[0]
    return ('cat', out)


def regex_to_re(pattern: str, flags: int = 0) -> Re:
    if not isinstance(pattern, str):
        raise AnalysisError('relang: only str patterns are supported')
    try:
        parsed = _sp.parse(pattern, flags)
    except (re.error, RecursionError, OverflowError) as e:
        raise AnalysisError(f'relang: pattern {pattern!r} does not parse: {e}') from e
    eff = parsed.state.flags
    for name, bit in _UNSUPPORTED_FLAGS.items():
        if eff & bit:
            raise AnalysisError(f'relang: regex flag {name} is not supported (pattern {pattern!r})')
    return _conv(parsed, eff)


def parse_pattern(pattern: str, flags: int = 0):
    """(items of the platform regex parser, effective flags) of a str pattern, for analyses that need the ORDER of alternatives and
    repeats (leftmost-first matching), which the language view above abstracts away.  The op codes are those of `sre_ops()`."""
    if not isinstance(pattern, str):
        raise AnalysisError('relang: only str patterns are supported')
    try:
        parsed = _sp.parse(pattern, flags)
    except (re.error, RecursionError, OverflowError) as e:
        raise AnalysisError(f'relang: pattern {pattern!r} does not parse: {e}') from e
    eff = parsed.state.flags
    for name, bit in _UNSUPPORTED_FLAGS.items():
        if eff & bit:
            raise AnalysisError(f'relang: regex flag {name} is not supported (pattern {pattern!r})')
    return parsed, eff


def sre_ops():
    """The constants module of the platform regex parser (LITERAL, IN, BRANCH, SUBPATTERN, MAX_REPEAT, MAXREPEAT ...)."""
    return _sc


def item_charset(op, av, flags: int = 0) -> CharSet:
    """The code points matched by a ONE-CHARACTER item (LITERAL / NOT_LITERAL / IN / ANY) of a parsed pattern under `flags`."""
    if op is _sc.ANY:
        return ANY if flags & _sc.SRE_FLAG_DOTALL else ~NEWLINE
    if op not in (_sc.LITERAL, _sc.NOT_LITERAL, _sc.IN):
        raise AnalysisError(f'relang: not a one-character item: {op}')
    r = _conv([(op, av)], flags)
    if r[0] != 'set':
        raise AnalysisError(f'relang: not a one-character item: {op}')
    return r[1]


def regex_groups(pattern: str, flags: int = 0) -> Dict[int, Re]:
    """The sub-expression of every capturing group (group number -> Re).  The text captured by group n of any successful match
    belongs to the language of that sub-expression."""
    try:
        parsed = _sp.parse(pattern, flags)
    except (re.error, RecursionError, OverflowError) as e:
        raise AnalysisError(f'relang: pattern {pattern!r} does not parse: {e}') from e
    eff = parsed.state.flags
    for name, bit in _UNSUPPORTED_FLAGS.items():
        if eff & bit:
            raise AnalysisError(f'relang: regex flag {name} is not supported (pattern {pattern!r})')
    out: Dict[int, Re] = {}

    def walk(items) -> None:
        for op, av in items:
            if op is _sc.SUBPATTERN:
                group, _a, _d, sub = av
                if group is not None:
                    out[group] = _conv(sub, eff)
                walk(sub)
            elif op is _sc.BRANCH:
                for b in av[1]:
                    walk(b)
            elif op in (_sc.MAX_REPEAT, _sc.MIN_REPEAT):
                walk(av[2])
            elif op in (_sc.IN, _sc.LITERAL, _sc.NOT_LITERAL, _sc.ANY, _sc.AT):
                pass
            else:
                raise AnalysisError(f'relang: unsupported regex construct {op}')

    walk(parsed)
    return out


# --------------------------------------------------------------------------------------
# languages (boolean combinations of regular expressions)
# --------------------------------------------------------------------------------------


class Lang:
    """kind 're' (a regex AST, whole-string acceptance) | 'and' | 'or' | 'not'."""

    __slots__ = ('kind', 'args', 'label')

    def __init__(self, kind: str, args: tuple, label: str = ''):
        self.kind = kind
        self.args = args
        self.label = label

    def __and__(self, o: 'Lang') -> 'Lang':
        return Lang('and', (self, o), f'({self.label} & {o.label})')

    def __or__(self, o: 'Lang') -> 'Lang':
        return Lang('or', (self, o), f'({self.label} | {o.label})')

    def __invert__(self) -> 'Lang':
        return Lang('not', (self,), f'~{self.label}')

    def __sub__(self, o: 'Lang') -> 'Lang':
        return self & ~o

    def leaves(self) -> Iterator[Re]:
        if self.kind == 're':
            yield self.args[0]
        else:
            for a in self.args:
                yield from a.leaves()

    def __repr__(self) -> str:
        return f'<Lang {self.label}>'


def lang(r: Re, label: str = '') -> Lang:
    """The language of strings matched by r IN FULL."""
    return Lang('re', (r,), label or 're')


def everything() -> Lang:
    return lang(star(anychar()), 'ANY*')


def nothing() -> Lang:
    return lang(chars(_EMPTY), 'EMPTY')


MODES = ('fullmatch', 'match', 'search')


def from_regex(pattern: str, flags: int = 0, mode: str = 'fullmatch') -> Lang:
    """{ s : re.<mode>(pattern, s, flags) succeeds }."""
    if mode not in MODES:
        raise AnalysisError(f'relang: unknown matching mode {mode!r}')
    r = regex_to_re(pattern, flags)
    if mode == 'match':
        r = seq(r, star(anychar()))
    elif mode == 'search':
        r = seq(star(anychar()), r, star(anychar()))
    return lang(r, f'{mode}({pattern!r})')


# --------------------------------------------------------------------------------------
# alphabet partition
# --------------------------------------------------------------------------------------


class Alphabet:
    """Coarsest partition of 0..0x10FFFF such that every generating CharSet is a union of classes."""

    def __init__(self, sets: FrozenSet[CharSet]):
        self.sets = sets
        ordered = sorted(sets, key=lambda s: s.ranges)
        bounds = {0, MAXCP + 1}
        for s in ordered:
            for lo, hi in s.ranges:
                bounds.add(lo)
                bounds.add(hi + 1)
        bl = sorted(bounds)
        by_sig: Dict[Tuple[bool, ...], List[Tuple[int, int]]] = {}
        for i in range(len(bl) - 1):
            lo, hi = bl[i], bl[i + 1] - 1
            sig = tuple(lo in s for s in ordered)
            by_sig.setdefault(sig, []).append((lo, hi))
        self.classes: List[CharSet] = sorted((CharSet(rs) for rs in by_sig.values()), key=lambda c: c.min())
        self.reps: List[int] = [c.sample() for c in self.classes]
        self.n = len(self.classes)
        self._members: Dict[CharSet, FrozenSet[int]] = {}
        for s in sets:
            self._members[s] = frozenset(k for k, r in enumerate(self.reps) if r in s)
        self._starts: List[Tuple[int, int, int]] = sorted((lo, hi, k) for k, c in enumerate(self.classes) for lo, hi in c.ranges)
        self._start_los = [x[0] for x in self._starts]

    def members(self, s: CharSet) -> FrozenSet[int]:
        m = self._members.get(s)
        if m is None:
            raise AnalysisError('relang: CharSet is not part of this alphabet')
        return m

    def class_of(self, cp: int) -> int:
        i = bisect.bisect_right(self._start_los, cp) - 1
        return self._starts[i][2]

    def text(self, word: Sequence[int]) -> str:
        return ''.join(chr(self.reps[k]) for k in word)


_alpha_cache: Dict[FrozenSet[CharSet], Alphabet] = {}


def alphabet_for(langs: Sequence[Lang], extra: Iterable[CharSet] = ()) -> Alphabet:
    sets: set = set(extra)
    dollar = False
    for L in langs:
        for r in L.leaves():
            dollar = _re_sets(r, sets) or dollar
    if dollar:
        sets.add(NEWLINE)
    sets.discard(_EMPTY)
    key = frozenset(sets)
    a = _alpha_cache.get(key)
    if a is None:
        a = Alphabet(key)
        _alpha_cache[key] = a
    return a


# --------------------------------------------------------------------------------------
# NFA / DFA
# --------------------------------------------------------------------------------------

_NFA_LIMIT = 40000
_DFA_LIMIT = 60000


class _NFA:
    def __init__(self) -> None:
        self.eps: List[List[int]] = []
        self.chr: List[List[Tuple[CharSet, int]]] = []
        self.asr: List[List[Tuple[str, int]]] = []

    def new(self) -> int:
        if len(self.eps) >= _NFA_LIMIT:
            raise AnalysisError('relang: NFA too large')
        self.eps.append([])
        self.chr.append([])
        self.asr.append([])
        return len(self.eps) - 1

    def build(self, r: Re) -> Tuple[int, int]:
        k = r[0]
        s, e = self.new(), self.new()
        if k == 'eps':
            self.eps[s].append(e)
        elif k == 'set':
            if r[1]:
                self.chr[s].append((r[1], e))
        elif k == 'at':
            self.asr[s].append((r[1], e))
        elif k == 'cat':
            cur = s
            for x in r[1]:
                a, b = self.build(x)
                self.eps[cur].append(a)
                cur = b
            self.eps[cur].append(e)
        elif k == 'alt':
            for x in r[1]:
                a, b = self.build(x)
                self.eps[s].append(a)
                self.eps[b].append(e)
        elif k == 'rep':
            _, sub, lo, hi = r
            cur = s
            for _i in range(lo):
                a, b = self.build(sub)
                self.eps[cur].append(a)
                cur = b
            if hi is None:
                a, b = self.build(sub)
                self.eps[cur].append(a)
                self.eps[b].append(cur)
                self.eps[cur].append(e)
            else:
                self.eps[cur].append(e)
                for _i in range(hi - lo):
                    a, b = self.build(sub)
                    self.eps[cur].append(a)
                    cur = b
                    self.eps[cur].append(e)
        elif k == 'aut':
            _, n, accepting, edges = r
            st = [self.new() for _i in range(n)]
            if n:
                self.eps[s].append(st[0])
            for p, cs, q in edges:
                if cs:
                    self.chr[st[p]].append((cs, st[q]))
            for a in accepting:
                self.eps[st[a]].append(e)
        else:
            raise AnalysisError(f'relang: bad regex node {k}')
        return s, e


class DFA:
    """Complete deterministic automaton over an Alphabet; state 0 is initial."""

    def __init__(self, alphabet: Alphabet, trans: List[List[int]], accept: List[bool]):
        self.alphabet = alphabet
        self.trans = trans
        self.accept = accept

    @property
    def n_states(self) -> int:
        return len(self.trans)

    def complement(self) -> 'DFA':
        return DFA(self.alphabet, self.trans, [not a for a in self.accept])

    def product(self, o: 'DFA', op: str) -> 'DFA':
        if o.alphabet is not self.alphabet:
            raise AnalysisError('relang: product of automata over different alphabets')
        f = {'and': lambda a, b: a and b, 'or': lambda a, b: a or b, 'diff': lambda a, b: a and not b, 'xor': lambda a, b: a != b}[op]
        idx: Dict[Tuple[int, int], int] = {(0, 0): 0}
        order = [(0, 0)]
        trans: List[List[int]] = []
        i = 0
        n = self.alphabet.n
        while i < len(order):
            p, q = order[i]
            row = []
            tp, tq = self.trans[p], o.trans[q]
            for k in range(n):
                t = (tp[k], tq[k])
                j = idx.get(t)
                if j is None:
                    j = len(order)
                    if j >= _DFA_LIMIT:
                        raise AnalysisError('relang: product automaton too large')
                    idx[t] = j
                    order.append(t)
                row.append(j)
            trans.append(row)
            i += 1
        return DFA(self.alphabet, trans, [f(self.accept[p], o.accept[q]) for p, q in order])

    def run(self, s: str) -> int:
        st = 0
        a = self.alphabet
        for ch in s:
            st = self.trans[st][a.class_of(ord(ch))]
        return st

    def accepts(self, s: str) -> bool:
        return self.accept[self.run(s)]

    def shortest(self) -> Optional[str]:
        """A shortest accepted string (ties broken by class order), or None when the language is empty."""
        for w in self.enumerate_shortest(1):
            return w
        return None

    def _alive(self) -> List[bool]:
        """States from which an accepting state is reachable."""
        n = len(self.trans)
        rev: List[List[int]] = [[] for _ in range(n)]
        for p, row in enumerate(self.trans):
            for q in set(row):
                rev[q].append(p)
        alive = [False] * n
        stack = [i for i, a in enumerate(self.accept) if a]
        for i in stack:
            alive[i] = True
        while stack:
            q = stack.pop()
            for p in rev[q]:
                if not alive[p]:
                    alive[p] = True
                    stack.append(p)
        return alive

    def enumerate_shortest(self, limit: int) -> Iterator[str]:
        """Accepted strings in order of length (one representative character per alphabet class), at most `limit`."""
        alive = self._alive()
        if not alive[0]:
            return
        produced = 0
        # first string: plain BFS over states (fast path)
        if limit == 1:
            prev: Dict[int, Tuple[int, int]] = {}
            seen = {0}
            dq = deque([0])
            goal = 0 if self.accept[0] else None
            while dq and goal is None:
                p = dq.popleft()
                for k, q in enumerate(self.trans[p]):
                    if q in seen or not alive[q]:
                        continue
                    seen.add(q)
                    prev[q] = (p, k)
                    if self.accept[q]:
                        goal = q
                        break
                    dq.append(q)
            if goal is None:
                return
            word: List[int] = []
            cur = goal
            while cur != 0:
                p, k = prev[cur]
                word.append(k)
                cur = p
            yield self.alphabet.text(list(reversed(word)))
            return
        # general: BFS over words (bounded by limit and by a work budget)
        dq2: deque = deque([(0, ())])
        budget = 200000
        while dq2 and produced < limit and budget > 0:
            st, word2 = dq2.popleft()
            budget -= 1
            if self.accept[st]:
                produced += 1
                yield self.alphabet.text(word2)
            for k, q in enumerate(self.trans[st]):
                if alive[q]:
                    dq2.append((q, word2 + (k,)))

    def is_empty(self) -> bool:
        return not self._alive()[0]

    def minimal_size(self) -> int:
        """Number of states of the minimal complete DFA (Moore refinement over reachable states) - evidence only."""
        n = len(self.trans)
        part = [1 if a else 0 for a in self.accept]
        while True:
            sig: Dict[Tuple, int] = {}
            new = []
            for s in range(n):
                key = (part[s],) + tuple(part[t] for t in self.trans[s])
                new.append(sig.setdefault(key, len(sig)))
            if len(sig) == len(set(part)):
                return len(sig)
            part = new


def _determinize(r: Re, alpha: Alphabet) -> DFA:
    nfa = _NFA()
    start, final = nfa.build(r)
    eps, chr_, asr = nfa.eps, nfa.chr, nfa.asr
    members = {cs: alpha.members(cs) for edges in chr_ for cs, _ in edges}
    uses_dollar = any(kind in ('eos_nl', 'bol', 'eol') for edges in asr for kind, _ in edges)
    nl_class = alpha.class_of(NL) if uses_dollar else -1
    if uses_dollar and alpha.classes[nl_class] != NEWLINE:
        raise AnalysisError('relang internal: newline is not a singleton class although `$` / multiline anchors are used')

    # pairs (state, layer): layer 0 = anywhere, 1 = committed "exactly one final newline remains", 2 = committed "at the end",
    # 3 = committed "the next character is a newline" (multiline `$`)
    def closure(pairs: Iterable[Tuple[int, int]], pos0: bool, line_start: bool) -> FrozenSet[Tuple[int, int]]:
        seen = set(pairs)
        stack = list(seen)

        def add(x: Tuple[int, int]) -> None:
            if x not in seen:
                seen.add(x)
                stack.append(x)

        while stack:
            q, L = stack.pop()
            for t in eps[q]:
                add((t, L))
            for kind, t in asr[q]:
                if kind == 'bos':
                    if pos0:
                        add((t, L))
                elif kind == 'bol':
                    if line_start:
                        add((t, L))
                elif kind == 'eos':
                    if L in (0, 2):
                        add((t, 2))
                elif kind == 'eos_nl':
                    if L == 0:
                        add((t, 1))
                        add((t, 2))
                    elif L == 3:
                        add((t, 1))
                    else:
                        add((t, L))
                elif kind == 'eol':
                    if L == 0:
                        add((t, 2))
                        add((t, 3))
                    else:
                        add((t, L))
        return frozenset(seen)

    init = closure([(start, 0)], True, True)
    idx: Dict[FrozenSet[Tuple[int, int]], int] = {init: 0}
    order = [init]
    trans: List[List[int]] = []
    i = 0
    n = alpha.n
    while i < len(order):
        S = order[i]
        # group targets per class
        per_class: List[set] = [set() for _ in range(n)]
        for q, L in S:
            if L == 0:
                for cs, t in chr_[q]:
                    for k in members[cs]:
                        per_class[k].add((t, 0))
            elif L == 1:
                for cs, t in chr_[q]:
                    if nl_class in members[cs]:
                        per_class[nl_class].add((t, 2))
            elif L == 3:
                for cs, t in chr_[q]:
                    if nl_class in members[cs]:
                        per_class[nl_class].add((t, 0))
        row = []
        cache: Dict[Tuple[FrozenSet[Tuple[int, int]], bool], int] = {}
        for k in range(n):
            tgt = frozenset(per_class[k])
            after_nl = k == nl_class
            j = cache.get((tgt, after_nl))
            if j is None:
                T = closure(tgt, False, after_nl) if tgt else frozenset()
                j = idx.get(T)
                if j is None:
                    j = len(order)
                    if j >= _DFA_LIMIT:
                        raise AnalysisError('relang: DFA too large')
                    idx[T] = j
                    order.append(T)
                cache[(tgt, after_nl)] = j
            row.append(j)
        trans.append(row)
        i += 1
    accept = [((final, 0) in S or (final, 2) in S) for S in order]
    return DFA(alpha, trans, accept)


def to_dfa(L: Lang, alpha: Alphabet) -> DFA:
    if L.kind == 're':
        return _determinize(L.args[0], alpha)
    if L.kind == 'not':
        return to_dfa(L.args[0], alpha).complement()
    a = to_dfa(L.args[0], alpha)
    b = to_dfa(L.args[1], alpha)
    return a.product(b, L.kind)


# --------------------------------------------------------------------------------------
# languages as regex nodes; preimages
# --------------------------------------------------------------------------------------


def _aut_node(d: DFA, edge_sets: Dict[Tuple[int, int], CharSet]) -> Re:
    """('aut', ...) node from the transitions {(p, q): CharSet} of (a relabelling of) the DFA d, restricted to the states that
    are reachable from state 0 and can still reach an accepting state."""
    alive = d._alive()
    if not alive[0]:
        return chars(_EMPTY)
    succ: Dict[int, List[int]] = {}
    for (p, q), cs in edge_sets.items():
        if cs and alive[p] and alive[q]:
            succ.setdefault(p, []).append(q)
    order = [0]
    index = {0: 0}
    i = 0
    while i < len(order):
        for q in succ.get(order[i], ()):
            if q not in index:
                index[q] = len(order)
                order.append(q)
        i += 1
    edges = tuple((index[p], cs, index[q]) for (p, q), cs in sorted(edge_sets.items(), key=lambda kv: kv[0])
                  if cs and p in index and q in index and alive[q])
    return ('aut', len(order), frozenset(index[p] for p in order if d.accept[p]), edges)


def as_re(L: Lang) -> Re:
    """A regex node whose language is exactly L (as a set of whole strings), usable inside seq / star / alt.  A plain regex
    without position assertions is returned as it is; anything else is compiled to its DFA and embedded."""
    if L.kind == 're' and not _has_assertion(L.args[0]):
        return L.args[0]
    alpha = alphabet_for([L])
    d = to_dfa(L, alpha)
    edge_sets: Dict[Tuple[int, int], CharSet] = {}
    for p, row in enumerate(d.trans):
        per_target: Dict[int, List[Tuple[int, int]]] = {}
        for k, q in enumerate(row):
            per_target.setdefault(q, []).extend(alpha.classes[k].ranges)
        for q, rs in per_target.items():
            edge_sets[(p, q)] = CharSet(rs)
    return _aut_node(d, edge_sets)


def concat(*langs: Lang) -> Lang:
    """{ uv.. : u in langs[0], v in langs[1], ... }"""
    return lang(seq(*[as_re(x) for x in langs]), '(' + ' . '.join(x.label for x in langs) + ')')


def preimage(L: Lang, exceptions: Dict[int, str], label: str, alternatives: Optional[Dict[int, Sequence[str]]] = None) -> Lang:
    """{ s : h(s) in L } for the string map h that rewrites every character independently: code point c becomes exceptions[c]
    (any string, possibly empty) when listed, and stays itself otherwise.  `alternatives` lists further possible images of a code
    point whose image depends on context; the preimage is only defined (else AnalysisError) when L cannot tell them apart."""
    alpha = alphabet_for([L])
    d = to_dfa(L, alpha)
    n = d.n_states
    trans = d.trans

    def image_vector(img: str) -> Tuple[int, ...]:
        ks = [alpha.class_of(ord(ch)) for ch in img]
        out = []
        for p in range(n):
            for k in ks:
                p = trans[p][k]
            out.append(p)
        return tuple(out)

    groups: Dict[Tuple[int, ...], List[Tuple[int, int]]] = {}
    vec_cache: Dict[str, Tuple[int, ...]] = {}
    for cp, img in exceptions.items():
        vec = vec_cache.get(img)
        if vec is None:
            vec = vec_cache[img] = image_vector(img)
        for other in (alternatives or {}).get(cp, ()):
            if image_vector(other) != vec:
                raise AnalysisError(f'relang.preimage[{label}]: the image of U+{cp:04X} depends on its context ({img!r} or {other!r}) and '
                                    f'the language {L.label} distinguishes the two')
        groups.setdefault(vec, []).append((cp, cp))
    exc = CharSet((cp, cp) for cp in exceptions)
    edge_ranges: Dict[Tuple[int, int], List[Tuple[int, int]]] = {}
    for p, row in enumerate(trans):
        for k, q in enumerate(row):
            edge_ranges.setdefault((p, q), []).extend((alpha.classes[k] - exc).ranges)
    for vec, pts in groups.items():
        for p in range(n):
            edge_ranges.setdefault((p, vec[p]), []).extend(pts)
    return lang(_aut_node(d, {pq: CharSet(rs) for pq, rs in edge_ranges.items()}), f'{label}^-1({L.label})')


def strip_preimage(L: Lang, cs: CharSet, left: bool = True, right: bool = True, label: str = 'strip') -> Lang:
    """{ s : t in L } where t is s without its leading (left) / trailing (right) run of characters from cs."""
    inner = chars(~cs)
    if left and right:
        core = alt(EPS, inner, seq(inner, star(anychar()), inner))
    elif left:
        core = alt(EPS, seq(inner, star(anychar())))
    elif right:
        core = alt(EPS, seq(star(anychar()), inner))
    else:
        return L
    kept = as_re(L & lang(core, 'trimmed'))
    pad = star(chars(cs))
    return lang(seq(pad if left else EPS, kept, pad if right else EPS), f'{label}^-1({L.label})')


# --------------------------------------------------------------------------------------
# decisions
# --------------------------------------------------------------------------------------


class Comparison:
    def __init__(self, only_a: Optional[str], only_b: Optional[str], alpha: Alphabet, states: Tuple[int, int]):
        self.only_a = only_a  # shortest string in a \ b (None: a is included in b)
        self.only_b = only_b  # shortest string in b \ a
        self.alphabet = alpha
        self.states = states  # minimal DFA sizes (evidence)

    @property
    def equal(self) -> bool:
        return self.only_a is None and self.only_b is None

    def describe(self) -> dict:
        return {'alphabet_classes': self.alphabet.n, 'minimal_dfa_states': list(self.states), 'equal': self.equal}


def compare(a: Lang, b: Lang, extra: Iterable[CharSet] = ()) -> Comparison:
    alpha = alphabet_for([a, b], extra)
    da, db = to_dfa(a, alpha), to_dfa(b, alpha)
    return Comparison(da.product(db, 'diff').shortest(), db.product(da, 'diff').shortest(), alpha, (da.minimal_size(), db.minimal_size()))


def included(a: Lang, b: Lang, extra: Iterable[CharSet] = ()) -> Optional[str]:
    """None when L(a) is a subset of L(b), else a shortest string of L(a) \\ L(b)."""
    alpha = alphabet_for([a, b], extra)
    return to_dfa(a, alpha).product(to_dfa(b, alpha), 'diff').shortest()


def shortest(a: Lang) -> Optional[str]:
    return to_dfa(a, alphabet_for([a])).shortest()


def enumerate_shortest(a: Lang, limit: int) -> List[str]:
    return list(to_dfa(a, alphabet_for([a])).enumerate_shortest(limit))


def accepts(a: Lang, s: str) -> bool:
    """Membership of a concrete string (the alphabet is refined so that every character of s is decided exactly)."""
    return to_dfa(a, alphabet_for([a])).accepts(s)


def prefix_free(a: Lang) -> Optional[Tuple[str, str]]:
    """None when no accepted string is a proper prefix of another accepted string; else such a pair (u, u+v)."""
    alpha = alphabet_for([a])
    d = to_dfa(a, alpha)
    alive = d._alive()
    # find accepting state p (reachable) with a non-empty path to an accepting state
    prev: Dict[int, Tuple[int, int]] = {}
    seen = {0}
    dq = deque([0])
    order = []
    while dq:
        p = dq.popleft()
        order.append(p)
        for k, q in enumerate(d.trans[p]):
            if q not in seen and alive[q]:
                seen.add(q)
                prev[q] = (p, k)
                dq.append(q)

    def word_to(p: int) -> List[int]:
        w: List[int] = []
        while p != 0:
            p, k = prev[p]
            w.append(k)
        return list(reversed(w))

    for p in order:
        if not d.accept[p]:
            continue
        # BFS from p with at least one step
        prev2: Dict[int, Tuple[int, int]] = {}
        dq2 = deque()
        seen2 = set()
        for k, q in enumerate(d.trans[p]):
            if alive[q] and q not in seen2:
                seen2.add(q)
                prev2[q] = (-1, k)
                dq2.append(q)
        while dq2:
            q = dq2.popleft()
            if d.accept[q]:
                w2: List[int] = []
                cur = q
                while True:
                    pp, k = prev2[cur]
                    w2.append(k)
                    if pp == -1:
                        break
                    cur = pp
                u = alpha.text(word_to(p))
                return u, u + alpha.text(list(reversed(w2)))
            for k, t in enumerate(d.trans[q]):
                if alive[t] and t not in seen2:
                    seen2.add(t)
                    prev2[t] = (q, k)
                    dq2.append(t)
    return None


def finite_strings(a: Lang, limit: int = 256) -> List[str]:
    """All strings of a FINITE language whose accepted strings are made of individually distinguished characters
    (every alphabet class on an accepting path is a single code point).  AnalysisError when infinite / too large / not literal."""
    sets: set = set()
    for r in a.leaves():
        _re_sets(r, sets)
    singles = [CharSet([(cp, cp)]) for cs in sets if len(cs) <= 64 for lo, hi in cs.ranges for cp in range(lo, hi + 1)]
    alpha = alphabet_for([a], singles)
    d = to_dfa(a, alpha)
    alive = d._alive()
    out: List[str] = []
    if not alive[0]:
        return out
    on_path: List[int] = []

    def rec(st: int, word: List[int]) -> None:
        if st in on_path:
            raise AnalysisError(f'relang.finite_strings: the language {a.label} is infinite')
        if d.accept[st]:
            if len(out) >= limit:
                raise AnalysisError(f'relang.finite_strings: more than {limit} strings in {a.label}')
            for k in word:
                if len(alpha.classes[k]) != 1:
                    raise AnalysisError(f'relang.finite_strings: {a.label} contains a character class {alpha.classes[k].describe()}, not a literal')
            out.append(alpha.text(word))
        on_path.append(st)
        for k, q in enumerate(d.trans[st]):
            if alive[q]:
                rec(q, word + [k])
        on_path.pop()

    rec(0, [])
    return sorted(out, key=lambda w: (len(w), w))


def longest_prefix_match(d: DFA, text: str, pos: int) -> Optional[int]:
    """End offset of the longest prefix of text[pos:] accepted by d, or None."""
    st = 0
    best = pos if d.accept[0] else None
    alive = d._alive()
    a = d.alphabet
    i = pos
    while i < len(text):
        st = d.trans[st][a.class_of(ord(text[i]))]
        if not alive[st]:
            break
        i += 1
        if d.accept[st]:
            best = i
    return best


# ---- fixed-width numerals (for escape tables) ---------------------------------------------


def numeral_range(lo: int, hi: int, width: int, digits: str = '0123456789abcdef') -> Re:
    """The regular expression of exactly the `width`-digit numerals (given digit alphabet, most significant first) of the
    integers lo..hi."""
    base = len(digits)
    if not (0 <= lo <= hi < base ** width):
        raise AnalysisError(f'relang.numeral_range: bad range {lo}..{hi} for width {width}')

    def dset(a: int, b: int) -> Re:
        return ('set', CharSet((ord(digits[i]), ord(digits[i])) for i in range(a, b + 1)))

    def go(lo: int, hi: int, w: int) -> Re:
        if w == 0:
            return EPS
        unit = base ** (w - 1)
        dl, dh = lo // unit, hi // unit
        rl, rh = lo % unit, hi % unit
        if dl == dh:
            return ('cat', [dset(dl, dl), go(rl, rh, w - 1)])
        alts: List[Re] = []
        a = dl
        if rl != 0:
            alts.append(('cat', [dset(dl, dl), go(rl, unit - 1, w - 1)]))
            a = dl + 1
        b = dh
        tail: Optional[Re] = None
        if rh != unit - 1:
            tail = ('cat', [dset(dh, dh), go(0, rh, w - 1)])
            b = dh - 1
        if a <= b:
            alts.append(('cat', [dset(a, b)] + [dset(0, base - 1)] * (w - 1)))
        if tail is not None:
            alts.append(tail)
        return alts[0] if len(alts) == 1 else ('alt', alts)

    return go(lo, hi, width)
