"""scalalite - narrow, fail-closed extractors for a few Scala fragments (DESIGN.md §2.6).

There is no Scala parser here.  A tiny scanner masks comments and string/char literals (offset preserving) so that brackets can be
matched; every extractor is a separate function anchored on a `def` / `val` / `object` NAME, bracket-matches the body and checks
the shape it relies on.  Missing anchor or unexpected shape -> AnalysisError (exit 2), never a guess.

Generic helpers:   load, ScalaSource.find_object / find_def / case_arms, scala_string_value, scala_char_value
C31 extractors (hail/hail/src/is/hail/expr/ir/Parser.scala, hail/hail/utils/src/is/hail/utils/StringEscapeUtils.scala):
    irlexer_quoted_literal   escapeChars literal + the loop shape of IRLexer.quotedLiteral
    irlexer_identifier       `identifier = backtickLiteral | ident`, backtickLiteral's delimiter, IRLexer extends JavaTokenParsers
    irlexer_token_order      alternatives of `val token`
    irparser_type_cases      string-literal arms of IRParser.type_expr
    unescape_string_arms     the escape -> character arms of StringEscapeUtils.unescapeString and its \\uXXXX width
Other workers add further extractors below (Call.scala, EType.scala); keep each one a separate function.
"""
from __future__ import annotations

import re
from typing import Dict, List, Optional, Tuple

from .common import AnalysisError, read_repo

# --------------------------------------------------------------------------------------
# scanner
# --------------------------------------------------------------------------------------


class ScalaSource:
    def __init__(self, rel: str, src: str):
        self.rel = rel
        self.src = src
        # code: same length as src; comments and literal CONTENTS blanked (quotes kept) - used for bracket matching / anchors
        # nocomment: same length; only comments blanked - used to read text
        self.code, spans = _mask(rel, src)
        buf = list(self.code)
        for a, b in spans:
            buf[a:b] = src[a:b]
        self.nocomment = ''.join(buf)

    def line_of(self, pos: int) -> int:
        return self.src.count('\n', 0, pos) + 1

    # -- bracket matching on the masked text
    def match_bracket(self, pos: int) -> int:
        """pos is the offset of an opening bracket; returns the offset of its partner."""
        pairs = {'(': ')', '[': ']', '{': '}'}
        code = self.code
        if pos >= len(code) or code[pos] not in pairs:
            raise AnalysisError(f'{self.rel}: internal: no opening bracket at offset {pos}')
        stack = [pairs[code[pos]]]
        i = pos + 1
        while i < len(code):
            c = code[i]
            if c in pairs:
                stack.append(pairs[c])
            elif c in ')]}':
                if c != stack[-1]:
                    raise AnalysisError(f'{self.rel}:{self.line_of(i)}: unbalanced bracket {c!r}')
                stack.pop()
                if not stack:
                    return i
            i += 1
        raise AnalysisError(f'{self.rel}:{self.line_of(pos)}: bracket never closed')

    def find_object(self, name: str) -> Tuple[int, int]:
        """Span (offset after `{`, offset of `}`) of the body of `object name`."""
        ms = list(re.finditer(r'\bobject\s+' + re.escape(name) + r'\b', self.code))
        if len(ms) != 1:
            raise AnalysisError(f'{self.rel}: expected exactly one `object {name}`, found {len(ms)}')
        brace = self.code.find('{', ms[0].end())
        nl_semicolon = self.code.find(';', ms[0].end())
        if brace < 0 or (0 <= nl_semicolon < brace):
            raise AnalysisError(f'{self.rel}: `object {name}` has no body')
        return brace + 1, self.match_bracket(brace)

    def object_header(self, name: str) -> str:
        ms = list(re.finditer(r'\bobject\s+' + re.escape(name) + r'\b', self.code))
        if len(ms) != 1:
            raise AnalysisError(f'{self.rel}: expected exactly one `object {name}`, found {len(ms)}')
        brace = self.code.find('{', ms[0].end())
        return ' '.join(self.code[ms[0].start():brace].split())

    def find_defs(self, name: str, span: Optional[Tuple[int, int]] = None) -> List[Tuple[int, int, int, str]]:
        """All `def|val|lazy val name` declarations directly or indirectly inside span:
        (decl offset, rhs start, rhs end (exclusive), signature text between the name and `=`)."""
        lo, hi = span if span else (0, len(self.code))
        out = []
        for m in re.finditer(r'\b(?:override\s+)?(?:lazy\s+)?(def|val)\s+' + re.escape(name) + r'\b', self.code[lo:hi]):
            start = lo + m.start()
            i = lo + m.end()
            sig_start = i
            code = self.code
            # skip type parameters / parameter lists / result type up to `=` at depth 0
            while i < hi:
                c = code[i]
                if c in '([':
                    i = self.match_bracket(i) + 1
                    continue
                if c == '{':
                    raise AnalysisError(f'{self.rel}:{self.line_of(start)}: `{name}` has a body without `=` (procedure syntax); not recognised')
                if c == '=' and code[i + 1] != '>' and code[i - 1] not in '=!<>':
                    break
                if c == '\n' and not code[sig_start:i].strip():
                    pass
                i += 1
            if i >= hi:
                raise AnalysisError(f'{self.rel}:{self.line_of(start)}: no `=` found for `{name}`')
            sig = ' '.join(code[sig_start:i].split())
            j = i + 1
            while j < hi and code[j] in ' \t\r\n':
                j += 1
            if j < hi and code[j] == '{':
                end = self.match_bracket(j) + 1
            elif code.startswith('new', j):
                # `new X { ... }`
                b = code.find('{', j)
                if b < 0:
                    raise AnalysisError(f'{self.rel}:{self.line_of(start)}: `new` without a body')
                end = self.match_bracket(b) + 1
            else:
                end = self._expr_end(j, hi)
            out.append((start, j, end, sig))
        return out

    def find_def(self, name: str, span: Optional[Tuple[int, int]] = None, signature_contains: Optional[str] = None) -> Tuple[int, int, int, str]:
        ds = self.find_defs(name, span)
        if signature_contains is not None:
            ds = [d for d in ds if signature_contains in d[3]]
        if len(ds) != 1:
            raise AnalysisError(f'{self.rel}: expected exactly one definition of `{name}`'
                                + (f' with `{signature_contains}` in its signature' if signature_contains else '') + f', found {len(ds)}')
        return ds[0]

    def _expr_end(self, j: int, hi: int) -> int:
        """End of a brace-less right-hand side: lines are joined while brackets are open or the line ends / the next line starts
        with a binary operator."""
        code = self.code
        i = j
        while i < hi:
            c = code[i]
            if c in '([{':
                i = self.match_bracket(i) + 1
                continue
            if c == '\n':
                line = code[code.rfind('\n', 0, i) + 1:i].rstrip()
                nxt_end = code.find('\n', i + 1)
                nxt = code[i + 1:nxt_end if nxt_end >= 0 else hi].strip()
                cont = line.endswith(('|', '=', '&&', '||', '+', ',', '~', '~>', '<~', '^^', '=>')) or nxt.startswith(('|', '.', '~', '^^', '&&', '||'))
                if not cont:
                    return i
            i += 1
        return hi

    def text(self, lo: int, hi: int) -> str:
        return self.src[lo:hi]

    def norm(self, lo: int, hi: int) -> str:
        """Whitespace-normalised original text with comments removed."""
        return ' '.join(self.nocomment[lo:hi].split())

    def case_arms(self, lo: int, hi: int) -> List[Tuple[str, int, int]]:
        """The `case <pattern> =>` arms at bracket depth 0 of [lo, hi): (pattern text, body start, body end)."""
        code = self.code
        heads: List[Tuple[int, int, str]] = []
        i = lo
        while i < hi:
            c = code[i]
            if c in '([{':
                i = self.match_bracket(i) + 1
                continue
            if code.startswith('case', i) and not (code[i - 1].isalnum() or code[i - 1] == '_') and not (code[i + 4].isalnum() or code[i + 4] == '_'):
                arrow = i + 4
                while arrow < hi and not code.startswith('=>', arrow):
                    if code[arrow] in '([{':
                        arrow = self.match_bracket(arrow) + 1
                        continue
                    arrow += 1
                if arrow >= hi:
                    raise AnalysisError(f'{self.rel}:{self.line_of(i)}: `case` without `=>`')
                heads.append((i, arrow + 2, ' '.join(self.nocomment[i + 4:arrow].split())))
                i = arrow + 2
                continue
            i += 1
        out = []
        for k, (start, body, pat) in enumerate(heads):
            end = heads[k + 1][0] if k + 1 < len(heads) else hi
            out.append((pat, body, end))
        return out


def _mask(rel: str, src: str) -> Tuple[str, List[Tuple[int, int]]]:
    """Blank comments entirely and the contents of string / char literals (delimiters stay)."""
    out = list(src)
    n = len(src)
    i = 0
    spans: List[Tuple[int, int]] = []

    def blank(a: int, b: int) -> None:
        for k in range(a, b):
            if out[k] != '\n':
                out[k] = ' '

    while i < n:
        c = src[i]
        if src.startswith('//', i):
            j = src.find('\n', i)
            j = n if j < 0 else j
            blank(i, j)
            i = j
        elif src.startswith('/*', i):
            depth, j = 1, i + 2
            while j < n and depth:
                if src.startswith('/*', j):
                    depth += 1
                    j += 2
                elif src.startswith('*/', j):
                    depth -= 1
                    j += 2
                else:
                    j += 1
            if depth:
                raise AnalysisError(f'{rel}: unterminated block comment')
            blank(i, j)
            i = j
        elif src.startswith('"""', i):
            j = src.find('"""', i + 3)
            if j < 0:
                raise AnalysisError(f'{rel}: unterminated triple-quoted string')
            while src.startswith('"', j + 3):  # """..."""" : extra quotes belong to the string
                j += 1
            blank(i + 3, j)
            spans.append((i, j + 3))
            i = j + 3
        elif c == '"':
            j = i + 1
            while j < n and src[j] != '"':
                if src[j] == '\\':
                    j += 1
                if src[j] == '\n':
                    raise AnalysisError(f'{rel}: newline in string literal (line {src.count(chr(10), 0, j) + 1})')
                j += 1
            if j >= n:
                raise AnalysisError(f'{rel}: unterminated string literal')
            blank(i + 1, j)
            spans.append((i, j + 1))
            i = j + 1
        elif c == "'":
            # char literal 'x' or '\x' or '\uXXXX'; anything else (symbols, type variables) is left alone
            m = re.match(r"'(\\u[0-9a-fA-F]{4}|\\.|[^\\'\n])'", src[i:i + 9])
            if m:
                blank(i + 1, i + m.end() - 1)
                spans.append((i, i + m.end()))
                i += m.end()
            else:
                i += 1
        else:
            i += 1
    return ''.join(out), spans


_src_cache: Dict[str, ScalaSource] = {}


def load(rel: str) -> ScalaSource:
    if rel in _src_cache:
        return _src_cache[rel]
    s = ScalaSource(rel, read_repo(rel))
    _src_cache[rel] = s
    return s


_SCALA_ESCAPES = {'b': '\b', 't': '\t', 'n': '\n', 'f': '\f', 'r': '\r', '"': '"', "'": "'", '\\': '\\'}


def _unescape(body: str, where: str) -> str:
    out = []
    i = 0
    while i < len(body):
        c = body[i]
        if c != '\\':
            out.append(c)
            i += 1
            continue
        if i + 1 >= len(body):
            raise AnalysisError(f'{where}: dangling backslash in literal')
        d = body[i + 1]
        if d == 'u':
            hx = body[i + 2:i + 6]
            if len(hx) != 4 or any(h not in '0123456789abcdefABCDEF' for h in hx):
                raise AnalysisError(f'{where}: bad \\u escape in literal')
            out.append(chr(int(hx, 16)))
            i += 6
        elif d in _SCALA_ESCAPES:
            out.append(_SCALA_ESCAPES[d])
            i += 2
        else:
            raise AnalysisError(f'{where}: unsupported escape \\{d} in literal')
    return ''.join(out)


def scala_string_value(lit: str, where: str = 'scala') -> str:
    """Value of a plain "..." literal (with its quotes)."""
    if len(lit) < 2 or lit[0] != '"' or lit[-1] != '"' or lit.startswith('"""'):
        raise AnalysisError(f'{where}: not a plain string literal: {lit[:40]}')
    return _unescape(lit[1:-1], where)


def scala_char_value(lit: str, where: str = 'scala') -> str:
    if len(lit) < 3 or lit[0] != "'" or lit[-1] != "'":
        raise AnalysisError(f'{where}: not a char literal: {lit[:20]}')
    v = _unescape(lit[1:-1], where)
    if len(v) != 1:
        raise AnalysisError(f'{where}: char literal with {len(v)} characters')
    return v


# --------------------------------------------------------------------------------------
# C31 extractors
# --------------------------------------------------------------------------------------

PARSER_SCALA = 'hail/hail/src/is/hail/expr/ir/Parser.scala'
ESCAPE_UTILS_SCALA = 'hail/hail/utils/src/is/hail/utils/StringEscapeUtils.scala'


def irlexer_quoted_literal(rel: str = PARSER_SCALA) -> dict:
    """IRLexer.quotedLiteral(delim, what): a literal starts with delim, ends at the first unescaped delim; `\\` must be followed by one
    of escapeChars; the text is then decoded by `unescapeString`.
    -> {'escape_chars': set of chars, 'decoder': 'unescapeString', 'line': n}"""
    s = load(rel)
    span = s.find_object('IRLexer')
    start, lo, hi, sig = s.find_def('quotedLiteral', span)
    where = f'{rel}::IRLexer.quotedLiteral'
    if not re.match(r'\(\s*delim\s*:\s*Char\s*,', sig):
        raise AnalysisError(f'{where}: first parameter is no longer `delim: Char` ({sig})')
    body = s.norm(lo, hi)
    m = list(re.finditer(r'val escapeChars = ("(?:[^"\\]|\\.)*")\.toSet', body))
    if len(m) != 1:
        raise AnalysisError(f'{where}: expected exactly one `val escapeChars = "...".toSet`, found {len(m)}')
    esc = set(scala_string_value(m[0].group(1), where))
    # the loop shape the language description relies on
    required = [
        ("if (r.atEnd || r.first != delim) return Failure(", 'must start with the delimiter'),
        ("val c = r.first", 'reads one char'),
        ("if (c == delim) continue = false", 'an unescaped delimiter ends the literal'),
        ("sb += c", 'every other char is kept'),
        ("if (c == '\\\\') {", 'backslash introduces an escape'),
        ("val d = r.first", 'reads the escaped char'),
        ("if (!escapeChars.contains(d)) return Failure(", 'rejects escapes outside escapeChars'),
        ("sb += d", 'keeps the escaped char'),
        ("if (r.atEnd) return Failure(", 'unterminated literal fails'),
    ]
    for text, why in required:
        if text not in body:
            raise AnalysisError(f'{where}: shape changed - `{text}` not found ({why})')
    dm = re.search(r'Success\((\w+)\(sb\.result\(\)\), r\)', body)
    if not dm:
        raise AnalysisError(f'{where}: result is no longer Success(<decoder>(sb.result()), r)')
    return {'escape_chars': esc, 'decoder': dm.group(1), 'line': s.line_of(start), 'literal': m[0].group(1)}


def irlexer_identifier(rel: str = PARSER_SCALA) -> dict:
    """`def identifier = backtickLiteral | ident` inside `object IRLexer extends JavaTokenParsers`;
    `def backtickLiteral = quotedLiteral('`', ...)`; `ident` not overridden.
    -> {'alternatives': [...], 'backtick_delim': '`', 'ident_is_java_token_parsers': True, 'line': n}"""
    s = load(rel)
    span = s.find_object('IRLexer')
    header = s.object_header('IRLexer')
    where = f'{rel}::IRLexer'
    start, lo, hi, _sig = s.find_def('identifier', span)
    alts = [a.strip() for a in s.norm(lo, hi).split('|')]
    if not alts or any(not re.fullmatch(r'\w+', a) for a in alts):
        raise AnalysisError(f'{where}.identifier: right-hand side is not an alternation of parser names: {s.norm(lo, hi)!r}')
    out = {'alternatives': alts, 'line': s.line_of(start), 'header': header}
    if 'backtickLiteral' in alts:
        _st, blo, bhi, _ = s.find_def('backtickLiteral', span)
        m = re.fullmatch(r"quotedLiteral\(('(?:\\.|[^\\'])'), \"[^\"]*\"\)", s.norm(blo, bhi))
        if not m:
            raise AnalysisError(f'{where}.backtickLiteral: expected quotedLiteral(<char>, "..."), found {s.norm(blo, bhi)!r}')
        out['backtick_delim'] = scala_char_value(m.group(1), where)
    if 'ident' in alts:
        own = s.find_defs('ident', span)
        if own:
            raise AnalysisError(f'{where}: `ident` is overridden locally; its language is not known to this extractor')
        out['ident_is_java_token_parsers'] = bool(re.search(r'\bextends\s+JavaTokenParsers\b', header))
        if not out['ident_is_java_token_parsers']:
            raise AnalysisError(f'{where}: IRLexer no longer extends JavaTokenParsers ({header})')
    return out


def irlexer_token_order(rel: str = PARSER_SCALA) -> List[str]:
    """Alternatives of `val token: Parser[Token] = a ^^ {...} | b ^^ {...} | ...` in order (parser names / regex literals)."""
    s = load(rel)
    span = s.find_object('IRLexer')
    _start, lo, hi, _sig = s.find_def('token', span)
    parts: List[str] = []
    depth_code = s.code
    i = lo
    cur = lo
    while i < hi:
        c = depth_code[i]
        if c in '([{':
            i = s.match_bracket(i) + 1
            continue
        if c == '|':
            parts.append(s.norm(cur, i))
            cur = i + 1
        i += 1
    parts.append(s.norm(cur, hi))
    names = []
    for p in parts:
        head = p.split('^^')[0].strip()
        if not head:
            raise AnalysisError(f'{rel}::IRLexer.token: empty alternative')
        names.append(head)
    return names


def irparser_type_cases(rel: str = PARSER_SCALA, fn: str = 'type_expr') -> Dict[str, str]:
    """The string-literal arms of `identifier(it) match { case "X" => ... }` in IRParser.<fn>: keyword -> normalised arm body."""
    s = load(rel)
    span = s.find_object('IRParser')
    _start, lo, hi, _sig = s.find_def(fn, span, signature_contains='it: TokenIterator')
    body_code = s.code[lo:hi]
    ms = list(re.finditer(r'identifier\(it\)\s+match\s*\{', body_code))
    if len(ms) != 1:
        raise AnalysisError(f'{rel}::IRParser.{fn}: expected exactly one `identifier(it) match {{`, found {len(ms)}')
    open_brace = lo + ms[0].end() - 1
    close = s.match_bracket(open_brace)
    out: Dict[str, str] = {}
    for pat, b0, b1 in s.case_arms(open_brace + 1, close):
        if not (pat.startswith('"') and pat.endswith('"')):
            raise AnalysisError(f'{rel}::IRParser.{fn}: arm `case {pat}` is not a string literal; the keyword set is not closed')
        out[scala_string_value(pat, rel)] = s.norm(b0, b1)
    if not out:
        raise AnalysisError(f'{rel}::IRParser.{fn}: no arms found')
    return out


def unescape_string_arms(rel: str = ESCAPE_UTILS_SCALA) -> dict:
    """StringEscapeUtils.unescapeString(str, sb): after a backslash, `case 'x' => sb += 'y'` arms, `case 'u' => inUnicode = true`
    followed by exactly N hex digits (`unicode.length == N`), any other char is fatal.
    -> {'simple': {escape char: produced char}, 'unicode_intro': 'u', 'unicode_width': 4, 'other_is_error': True}"""
    s = load(rel)
    span = s.find_object('StringEscapeUtils')
    start, lo, hi, _sig = s.find_def('unescapeString', span, signature_contains='sb: StringBuilder')
    where = f'{rel}::unescapeString'
    body = s.code[lo:hi]
    ms = list(re.finditer(r'\bch\s+match\s*\{', body))
    if len(ms) != 1:
        raise AnalysisError(f'{where}: expected exactly one `ch match {{`, found {len(ms)}')
    ob = lo + ms[0].end() - 1
    cb = s.match_bracket(ob)
    ctx_before = s.norm(max(lo, ob - 200), ob)
    if 'else if (hadSlash) { hadSlash = false' not in ctx_before:
        raise AnalysisError(f'{where}: the `ch match` is no longer the `hadSlash` branch')
    simple: Dict[str, str] = {}
    uni: Optional[str] = None
    other_err = False
    for pat, b0, b1 in s.case_arms(ob + 1, cb):
        arm = s.norm(b0, b1)
        if pat == '_':
            other_err = arm.startswith('fatal(')
            continue
        ch = scala_char_value(pat, where)
        m = re.fullmatch(r"sb \+= ('(?:\\.|[^\\'])')", arm)
        if m:
            simple[ch] = scala_char_value(m.group(1), where)
        elif arm == 'inUnicode = true':
            if uni is not None:
                raise AnalysisError(f'{where}: two unicode introducers')
            uni = ch
        else:
            raise AnalysisError(f'{where}: unrecognised arm `case {pat} => {arm[:40]}`')
    whole = s.norm(lo, hi)
    wm = re.findall(r'if \(unicode\.length == (\d+)\)', whole)
    if uni is not None and (len(wm) != 1 or 'Integer.parseInt(unicode.toString(), 16)' not in whole or 'sb += value.toChar' not in whole):
        raise AnalysisError(f'{where}: the \\u reader shape changed')
    if "else if (ch == '\\\\') hadSlash = true" not in whole:
        raise AnalysisError(f'{where}: backslash is no longer the escape introducer')
    return {'simple': simple, 'unicode_intro': uni, 'unicode_width': int(wm[0]) if wm else None, 'other_is_error': other_err,
            'line': s.line_of(start)}
