"""Narrow, fail-closed extractors for the Scala fragments used by C33 / C34 (encoding layout, call packing).

No Scala parser exists offline, so this file tokenises Scala text and parses a *small expression/statement subset*
(integer arithmetic, calls, `if/else`, `val/var`, `x op= e`, `t match { case ... => ... }`).  Every entry point anchors
on an `object`/`def`/`val` name, bracket-matches its body and raises AnalysisError when the anchor is missing, is
ambiguous, or the body uses syntax outside the subset.  Nothing is guessed: callers only get trees that were fully parsed.

Trees are plain tuples:
  ('int', n) ('bool', b) ('str',) ('name', id) ('sel', obj, attr) ('call', fn, [(kw|None, expr)...], block|None)
  ('bin', op, l, r) ('un', op, e) ('if', cond, then, else|None) ('block', [stmt...]) ('lambda', [params], body)
  ('new', type_name, args) ('match', scrutinee, [(pattern_tokens, body)...]) ('typed', e)
statements:
  ('val', name, expr) ('aug', name, op, expr) ('assign', name, expr) ('expr', e) ('throw', e)
"""
from __future__ import annotations

from typing import Any, Dict, List, Optional, Sequence, Tuple

from .common import AnalysisError, read_repo

Tok = Tuple[str, str, int]  # kind, text, line

_OPCHARS = set('|^&=!<>:+-*/%~')
_PUNCT = set('(){}[],.;@_#')
_KEYWORDS = {'if', 'else', 'val', 'var', 'def', 'match', 'case', 'new', 'throw', 'lazy', 'true', 'false', 'object', 'class', 'private',
             'override', 'final', 'return', 'while', 'for', 'extends', 'with', 'abstract', 'import', 'package', 'null', 'this', 'type'}


# --------------------------------------------------------------------------------------
# tokenizer
# --------------------------------------------------------------------------------------


def tokenize(text: str, rel: str = '?') -> List[Tok]:
    toks: List[Tok] = []
    i, n, line = 0, len(text), 1

    def err(msg: str):
        raise AnalysisError(f'{rel}:{line}: scala tokenizer: {msg}')

    def skip_string(j: int, interpolated: bool) -> int:
        """j points just after the opening quote; returns index just after the closing quote."""
        nonlocal line
        if text.startswith('""', j):  # triple-quoted
            k = text.find('"""', j + 2)
            if k < 0:
                err('unterminated triple-quoted string')
            line += text.count('\n', j, k)
            return k + 3
        while j < n:
            c = text[j]
            if c == '\\':
                j += 2
                continue
            if c == '"':
                return j + 1
            if c == '\n':
                err('newline in string literal')
            if interpolated and c == '$' and j + 1 < n and text[j + 1] == '{':
                depth = 1
                j += 2
                while j < n and depth:
                    d = text[j]
                    if d == '{':
                        depth += 1
                    elif d == '}':
                        depth -= 1
                    elif d == '"':
                        j = skip_string(j + 1, False) - 1
                    elif d == '\n':
                        line += 1
                    j += 1
                continue
            j += 1
        err('unterminated string literal')
        return j

    while i < n:
        c = text[i]
        if c == '\n':
            toks.append(('nl', '\n', line))
            line += 1
            i += 1
        elif c in ' \t\r':
            i += 1
        elif text.startswith('//', i):
            j = text.find('\n', i)
            i = n if j < 0 else j
        elif text.startswith('/*', i):
            j = text.find('*/', i + 2)
            if j < 0:
                err('unterminated comment')
            line += text.count('\n', i, j)
            i = j + 2
        elif c == '"':
            j = skip_string(i + 1, False)
            toks.append(('str', text[i:j], line))
            i = j
        elif c == "'":
            # char literal 'x' or '\x' ; (symbol literals are not used in the anchored files)
            if i + 2 < n and text[i + 1] == '\\':
                j = text.find("'", i + 3)
                if j < 0 or j - i > 8:
                    err('bad char literal')
                toks.append(('char', text[i:j + 1], line))
                i = j + 1
            elif i + 2 < n and text[i + 2] == "'":
                toks.append(('char', text[i:i + 3], line))
                i += 3
            else:
                err('unsupported quote')
        elif c.isdigit():
            j = i
            if text.startswith(('0x', '0X'), i):
                j = i + 2
                while j < n and (text[j] in '0123456789abcdefABCDEF'):
                    j += 1
                lit = text[i:j]
                kind = 'int'
            else:
                while j < n and text[j].isdigit():
                    j += 1
                kind = 'int'
                if j + 1 < n and text[j] == '.' and text[j + 1].isdigit():
                    j += 1
                    while j < n and text[j].isdigit():
                        j += 1
                    kind = 'float'
                lit = text[i:j]
            if j < n and text[j] in 'lLdDfF' and not (j + 1 < n and (text[j + 1].isalnum() or text[j + 1] == '_')):
                if text[j] in 'dDfF':
                    kind = 'float'
                j += 1
            toks.append((kind, lit, line))
            i = j
        elif c.isalpha() or c == '_' or c == '$':
            j = i
            while j < n and (text[j].isalnum() or text[j] in '_$'):
                j += 1
            word = text[i:j]
            # string interpolators: s"..." f"..." raw"..."
            if j < n and text[j] == '"' and word in ('s', 'f', 'raw'):
                k = skip_string(j + 1, True)
                toks.append(('str', text[i:k], line))
                i = k
            else:
                toks.append(('kw' if word in _KEYWORDS else 'id', word, line))
                i = j
        elif c == '`':
            j = text.find('`', i + 1)
            if j < 0:
                err('unterminated back-quoted identifier')
            toks.append(('id', text[i + 1:j], line))
            i = j + 1
        elif c in _OPCHARS:
            j = i
            while j < n and text[j] in _OPCHARS:
                # do not swallow a comment opener
                if text.startswith('//', j) or text.startswith('/*', j):
                    break
                j += 1
            toks.append(('op', text[i:j], line))
            i = j
        elif c in _PUNCT:
            toks.append(('p', c, line))
            i += 1
        else:
            err(f'unexpected character {c!r}')
    return toks


def _match_close(toks: Sequence[Tok], i: int) -> int:
    """toks[i] is an opening bracket; index of the matching closer."""
    pairs = {'(': ')', '[': ']', '{': '}'}
    stack = []
    j = i
    while j < len(toks):
        k, t, _ = toks[j]
        if k == 'p' and t in pairs:
            stack.append(pairs[t])
        elif k == 'p' and t in pairs.values():
            if not stack or stack[-1] != t:
                raise AnalysisError(f'scala: unbalanced bracket near line {toks[j][2]}')
            stack.pop()
            if not stack:
                return j
        j += 1
    raise AnalysisError(f'scala: unterminated bracket opened at line {toks[i][2]}')


def _significant(toks: Sequence[Tok]) -> List[Tok]:
    """Drop newlines that cannot end a statement: inside ( ) / [ ], after an operator / ',' / '=' / '=>' / `else`,
    before `else`, before a leading '.', and duplicate newlines."""
    out: List[Tok] = []
    stack: List[str] = []
    n = len(toks)
    for idx, tk in enumerate(toks):
        k, t, _ = tk
        if k == 'p' and t in '([{':
            stack.append(t)
        elif k == 'p' and t in ')]}':
            if stack:
                stack.pop()
        if k == 'nl':
            if stack and stack[-1] in '([':
                continue
            if not out or out[-1][0] == 'nl':
                continue
            pk, pt, _ = out[-1]
            if pk == 'op' or (pk == 'p' and pt in ',{(') or (pk == 'kw' and pt in ('else', 'extends', 'with')):
                continue
            # look ahead
            j = idx + 1
            while j < n and toks[j][0] == 'nl':
                j += 1
            if j < n:
                nk, nt, _ = toks[j]
                if (nk == 'kw' and nt == 'else') or (nk == 'p' and nt in '.)]}') :
                    if nt == '}':
                        pass  # keep: statement end before a closing brace is harmless
                    else:
                        continue
                if nk == 'op' and nt not in ('!', '-', '~'):
                    continue  # leading infix operator continues the expression
            out.append(tk)
        else:
            out.append(tk)
    return out


# --------------------------------------------------------------------------------------
# parser for the subset
# --------------------------------------------------------------------------------------

_PREC = {'|': 1, '^': 2, '&': 3, '=': 4, '!': 4, '<': 5, '>': 5, ':': 6, '+': 7, '-': 7, '*': 8, '/': 8, '%': 8}
_ASSIGN_OPS = {'|=', '&=', '^=', '+=', '-=', '*=', '/=', '<<=', '>>=', '>>>=', '%='}


class _P:
    def __init__(self, toks: Sequence[Tok], what: str):
        self.t = list(toks)
        self.i = 0
        self.what = what

    def err(self, msg: str):
        ln = self.t[self.i][2] if self.i < len(self.t) else (self.t[-1][2] if self.t else 0)
        nxt = ' '.join(x[1] for x in self.t[self.i:self.i + 6])
        raise AnalysisError(f'scala subset parser ({self.what}, line {ln}): {msg}; next tokens: {nxt!r}')

    def peek(self, skip_nl: bool = False) -> Optional[Tok]:
        j = self.i
        while skip_nl and j < len(self.t) and self.t[j][0] == 'nl':
            j += 1
        return self.t[j] if j < len(self.t) else None

    def skip_nl(self):
        while self.i < len(self.t) and self.t[self.i][0] == 'nl':
            self.i += 1

    def at(self, kind: str, text: Optional[str] = None, skip_nl: bool = False) -> bool:
        tk = self.peek(skip_nl)
        return tk is not None and tk[0] == kind and (text is None or tk[1] == text)

    def eat(self, kind: str, text: Optional[str] = None, skip_nl: bool = True) -> Tok:
        if skip_nl:
            self.skip_nl()
        tk = self.peek()
        if tk is None or tk[0] != kind or (text is not None and tk[1] != text):
            self.err(f'expected {text or kind}')
        self.i += 1
        return tk  # type: ignore[return-value]

    def done(self) -> bool:
        self.skip_nl()
        return self.i >= len(self.t)

    # ---- types (skipped) ----
    def skip_type(self):
        """After ':' in a declaration: consume a type up to a top-level '=' / ',' / ')' / newline."""
        depth = 0
        while self.i < len(self.t):
            k, t, _ = self.t[self.i]
            if k == 'p' and t in '([':
                depth += 1
            elif k == 'p' and t in ')]':
                if depth == 0:
                    return
                depth -= 1
            elif depth == 0 and ((k == 'op' and t == '=') or (k == 'p' and t in ',{') or k == 'nl'):
                return
            self.i += 1

    # ---- statements ----
    def block_body(self) -> List[tuple]:
        """statements until the closing '}' (not consumed) or end."""
        out = []
        while True:
            self.skip_nl()
            while self.at('p', ';'):
                self.i += 1
                self.skip_nl()
            if self.i >= len(self.t) or self.at('p', '}'):
                return out
            out.append(self.stmt())

    def stmt(self) -> tuple:
        self.skip_nl()
        tk = self.peek()
        if tk is None:
            self.err('statement expected')
        k, t, _ = tk  # type: ignore[misc]
        if k == 'kw' and t in ('lazy', 'private', 'final', 'override'):
            self.i += 1
            if self.at('p', '['):
                self.i = _match_close(self.t, self.i) + 1
            return self.stmt()
        if k == 'kw' and t in ('val', 'var'):
            self.i += 1
            name = self.eat('id')[1]
            if self.at('op', ':'):
                self.i += 1
                self.skip_type()
            self.eat('op', '=')
            return ('val', name, self.expr())
        if k == 'kw' and t == 'def':
            d = self.def_()
            return ('def', d)
        if k == 'kw' and t == 'throw':
            self.i += 1
            return ('throw', self.expr())
        if k == 'id' and self.i + 1 < len(self.t) and self.t[self.i + 1][0] == 'op' and self.t[self.i + 1][1] in _ASSIGN_OPS:
            op = self.t[self.i + 1][1]
            self.i += 2
            return ('aug', t, op[:-1], self.expr())
        if k == 'id' and self.i + 1 < len(self.t) and self.t[self.i + 1][0] == 'op' and self.t[self.i + 1][1] == '=':
            self.i += 2
            return ('assign', t, self.expr())
        e = self.expr()
        return ('expr', e)

    def def_(self) -> 'ScalaDef':
        line = self.eat('kw', 'def')[2]
        name = self.eat('id')[1]
        if self.at('p', '['):
            self.i = _match_close(self.t, self.i) + 1
        params: List[Tuple[str, str]] = []
        while self.at('p', '('):
            close = _match_close(self.t, self.i)
            sub = self.t[self.i + 1:close]
            params += _params(sub)
            self.i = close + 1
        if self.at('op', ':'):
            self.i += 1
            self.skip_type()
        if not self.at('op', '='):
            # abstract def / procedure syntax: not supported
            self.err(f'def {name}: expected `=`')
        self.i += 1
        body = self.expr()
        return ScalaDef(name, params, body, line)

    # ---- expressions ----
    def expr(self, min_prec: int = 1) -> tuple:
        self.skip_nl()
        left = self.unary()
        while True:
            tk = self.peek()
            if tk is None:
                break
            k, t, _ = tk
            if k == 'kw' and t == 'match' and min_prec == 1:
                self.i += 1
                left = self.match_(left)
                continue
            if k == 'op' and t == ':' and min_prec == 1:
                # type ascription  (x: @switch) / (x: T)
                self.i += 1
                if self.at('p', '@'):
                    self.i += 1
                    self.eat('id')
                else:
                    self.skip_type()
                left = ('typed', left)
                continue
            if k != 'op' or t in _ASSIGN_OPS or t in ('=', '=>', '<-', ':'):
                break
            prec = _PREC.get(t[0])
            if prec is None:
                self.err(f'operator {t!r} outside the subset')
            if prec < min_prec:
                break
            self.i += 1
            right = self.expr(prec + 1)
            left = ('bin', t, left, right)
        return left

    def unary(self) -> tuple:
        self.skip_nl()
        tk = self.peek()
        if tk is None:
            self.err('expression expected')
        k, t, _ = tk  # type: ignore[misc]
        if k == 'op' and t in ('!', '-', '~', '+'):
            self.i += 1
            return ('un', t, self.unary())
        return self.postfix(self.primary())

    def args(self) -> List[Tuple[Optional[str], tuple]]:
        """self.i at '(' ; returns argument list, leaves self.i after ')'."""
        self.eat('p', '(')
        out: List[Tuple[Optional[str], tuple]] = []
        while True:
            self.skip_nl()
            if self.at('p', ')'):
                self.i += 1
                return out
            kw = None
            if self.at('id') and self.i + 1 < len(self.t) and self.t[self.i + 1][0] == 'op' and self.t[self.i + 1][1] == '=':
                kw = self.t[self.i][1]
                self.i += 2
            out.append((kw, self.expr()))
            self.skip_nl()
            if self.at('p', ','):
                self.i += 1
                continue
            if self.at('p', ')'):
                self.i += 1
                return out
            self.err('expected , or ) in argument list')

    def brace(self) -> tuple:
        """`{ ... }` : block, lambda block `{ x => ... }` or `{ case ... }`."""
        self.eat('p', '{')
        self.skip_nl()
        # lambda?  id =>   |  (a, b) =>
        j = self.i
        params: Optional[List[str]] = None
        if self.at('id') and j + 1 < len(self.t) and self.t[j + 1][0] == 'op' and self.t[j + 1][1] == '=>':
            params = [self.t[j][1]]
            self.i += 2
        elif self.at('p', '('):
            close = _match_close(self.t, self.i)
            if close + 1 < len(self.t) and self.t[close + 1][0] == 'op' and self.t[close + 1][1] == '=>':
                params = [x[1] for x in self.t[self.i + 1:close] if x[0] == 'id']
                self.i = close + 2
        if self.at('kw', 'case'):
            self.err('`{ case ... }` partial-function literal outside the subset')
        body = self.block_body()
        self.eat('p', '}')
        blk = ('block', body)
        return ('lambda', params, blk) if params is not None else blk

    def match_(self, scrut: tuple) -> tuple:
        self.eat('p', '{')
        arms = []
        while True:
            self.skip_nl()
            if self.at('p', '}'):
                self.i += 1
                break
            self.eat('kw', 'case')
            pat: List[Tok] = []
            depth = 0
            while True:
                tk = self.peek()
                if tk is None:
                    self.err('unterminated case pattern')
                if tk[0] == 'p' and tk[1] in '([':  # type: ignore[index]
                    depth += 1
                elif tk[0] == 'p' and tk[1] in ')]':  # type: ignore[index]
                    depth -= 1
                if depth == 0 and tk[0] == 'op' and tk[1] == '=>':  # type: ignore[index]
                    self.i += 1
                    break
                if tk[0] != 'nl':  # type: ignore[index]
                    pat.append(tk)  # type: ignore[arg-type]
                self.i += 1
            # arm body: statements until next `case` or `}`
            stmts = []
            while True:
                self.skip_nl()
                if self.at('kw', 'case') or self.at('p', '}'):
                    break
                stmts.append(self.stmt())
            arms.append((pat, ('block', stmts)))
        return ('match', scrut, arms)

    def primary(self) -> tuple:
        tk = self.peek()
        k, t, _ = tk  # type: ignore[misc]
        if k == 'int':
            self.i += 1
            return ('int', int(t, 16) if t.lower().startswith('0x') else int(t))
        if k == 'float':
            self.i += 1
            return ('float', float(t))
        if k in ('str', 'char'):
            self.i += 1
            return ('str', t)
        if k == 'kw' and t in ('true', 'false'):
            self.i += 1
            return ('bool', t == 'true')
        if k == 'kw' and t in ('null', 'this'):
            self.i += 1
            return ('name', t)
        if k == 'id':
            self.i += 1
            return ('name', t)
        if k == 'p' and t == '_':
            self.i += 1
            return ('name', '_')
        if k == 'p' and t == '(':
            self.i += 1
            self.skip_nl()
            if self.at('p', ')'):
                self.i += 1
                return ('unit',)
            e = self.expr()
            self.skip_nl()
            if self.at('p', ','):
                items = [e]
                while self.at('p', ','):
                    self.i += 1
                    items.append(self.expr())
                    self.skip_nl()
                self.eat('p', ')')
                return ('tuple', items)
            self.eat('p', ')')
            return ('paren', e)
        if k == 'p' and t == '{':
            return self.brace()
        if k == 'kw' and t == 'if':
            self.i += 1
            self.eat('p', '(')
            c = self.expr()
            self.eat('p', ')')
            a = self.stmt_as_expr()
            b = None
            if self.at('kw', 'else', skip_nl=True):
                self.skip_nl()
                self.i += 1
                b = self.stmt_as_expr()
            return ('if', c, a, b)
        if k == 'kw' and t == 'new':
            self.i += 1
            name = self.eat('id')[1]
            while self.at('p', '.'):
                self.i += 1
                name += '.' + self.eat('id')[1]
            if self.at('p', '['):
                self.i = _match_close(self.t, self.i) + 1
            a = self.args() if self.at('p', '(') else []
            return ('new', name, a)
        if k == 'kw' and t == 'throw':
            self.i += 1
            return ('throw', self.expr())
        self.err(f'token {t!r} outside the subset')
        return ('unit',)

    def stmt_as_expr(self) -> tuple:
        s = self.stmt()
        if s[0] == 'expr':
            return s[1]
        return ('block', [s])

    def postfix(self, e: tuple) -> tuple:
        while True:
            tk = self.peek()
            if tk is None:
                return e
            k, t, _ = tk
            if k == 'p' and t == '.':
                self.i += 1
                nm = self.peek()
                if nm is None or nm[0] not in ('id', 'kw'):
                    self.err('selector expected after .')
                self.i += 1
                e = ('sel', e, nm[1])  # type: ignore[index]
            elif k == 'p' and t == '[':
                self.i = _match_close(self.t, self.i) + 1  # type arguments: ignored
            elif k == 'p' and t == '(':
                a = self.args()
                blk = None
                if self.at('p', '{'):
                    blk = self.brace()
                e = ('call', e, a, blk)
            elif k == 'p' and t == '{' and e[0] in ('name', 'sel', 'call'):
                blk = self.brace()
                e = ('call', e, [], blk)
            else:
                return e


def _params(toks: Sequence[Tok]) -> List[Tuple[str, str]]:
    """`a: Int, b: Boolean = false` -> [('a','Int'),('b','Boolean')]"""
    out: List[Tuple[str, str]] = []
    depth = 0
    cur: List[Tok] = []
    parts: List[List[Tok]] = []
    for tk in toks:
        if tk[0] == 'nl':
            continue
        if tk[0] == 'p' and tk[1] in '([{':
            depth += 1
        elif tk[0] == 'p' and tk[1] in ')]}':
            depth -= 1
        if depth == 0 and tk[0] == 'p' and tk[1] == ',':
            parts.append(cur)
            cur = []
        else:
            cur.append(tk)
    if cur:
        parts.append(cur)
    for p in parts:
        p = [x for x in p if not (x[0] == 'kw' and x[1] in ('val', 'var', 'override', 'private', 'final'))]
        if len(p) < 3 or p[0][0] != 'id' or p[1] != ('op', ':', p[1][2]):
            raise AnalysisError(f'scala: unrecognised parameter near line {p[0][2] if p else 0}')
        typ = []
        for x in p[2:]:
            if x[0] == 'op' and x[1] == '=':
                break
            typ.append(x[1])
        out.append((p[0][1], ''.join(typ)))
    return out


class ScalaDef:
    def __init__(self, name: str, params: List[Tuple[str, str]], body: tuple, line: int):
        self.name = name
        self.params = params
        self.body = body
        self.line = line

    def stmts(self) -> List[tuple]:
        """Body as a statement list (a bare expression becomes one ('expr', e))."""
        b = self.body
        if b[0] == 'block':
            return list(b[1])
        return [('expr', b)]


# --------------------------------------------------------------------------------------
# anchoring
# --------------------------------------------------------------------------------------


class ScalaFile:
    def __init__(self, rel: str):
        self.rel = rel
        self.text = read_repo(rel)
        self.raw = tokenize(self.text, rel)

    def _object_span(self, obj: str) -> Tuple[int, int]:
        """token index range (exclusive of braces) of the body of `object <obj>` / `class <obj>`."""
        hits = []
        t = self.raw
        kinds = ('object', 'class')
        if ':' in obj:  # 'object:EType' selects the companion object when a class of the same name exists
            kd, obj = obj.split(':', 1)
            kinds = (kd,)
        for i in range(len(t) - 1):
            if t[i][0] == 'kw' and t[i][1] in kinds and t[i + 1] [0] == 'id' and t[i + 1][1] == obj:
                hits.append(i)
        if len(hits) != 1:
            raise AnalysisError(f'{self.rel}: expected exactly one `object/class {obj}`, found {len(hits)}')
        j = hits[0] + 2
        depth = 0
        while j < len(t):
            k, x, _ = t[j]
            if k == 'p' and x in '([':
                depth += 1
            elif k == 'p' and x in ')]':
                depth -= 1
            elif k == 'p' and x == '{' and depth == 0:
                close = _match_close(t, j)
                return j + 1, close
            elif k == 'kw' and x in ('object', 'class', 'def') and depth == 0:
                break
            j += 1
        raise AnalysisError(f'{self.rel}: `{obj}` has no body')

    def member_tokens(self, obj: Optional[str], kind: str, name: str) -> List[List[Tok]]:
        """Token slices of each member `def|val name` declared *directly* in the object body (depth 0)."""
        if obj is None:
            lo, hi = 0, len(self.raw)
        else:
            lo, hi = self._object_span(obj)
        t = self.raw
        out: List[List[Tok]] = []
        depth = 0
        i = lo
        starts: List[int] = []
        member_starts: List[int] = []
        while i < hi:
            k, x, _ = t[i]
            if k == 'p' and x in '([{':
                depth += 1
            elif k == 'p' and x in ')]}':
                depth -= 1
            elif depth == 0 and k == 'kw' and x in ('def', 'val', 'var', 'object', 'class', 'type'):
                # modifiers before it belong to the member
                s = i
                while s - 1 >= lo and t[s - 1][0] == 'kw' and t[s - 1][1] in ('lazy', 'private', 'final', 'override', 'abstract'):
                    s -= 1
                # `private[this]`
                if s - 1 >= lo and t[s - 1] [0] == 'p' and t[s - 1][1] == ']':
                    q = s - 1
                    while q > lo and not (t[q][0] == 'p' and t[q][1] == '['):
                        q -= 1
                    if q - 1 >= lo and t[q - 1][0] == 'kw':
                        s = q - 1
                member_starts.append(s)
                if x == kind and i + 1 < hi and t[i + 1][0] == 'id' and t[i + 1][1] == name:
                    starts.append(s)
            i += 1
        member_starts.append(hi)
        for s in starts:
            nxt = min(m for m in member_starts if m > s)
            out.append(list(t[s:nxt]))
        return out

    def defs(self, obj: Optional[str], name: str) -> List[ScalaDef]:
        res = []
        for sl in self.member_tokens(obj, 'def', name):
            p = _P(_significant(sl), f'{self.rel}::{obj}.{name}')
            st = p.stmt()
            if not p.done():
                p.err('trailing tokens after def')
            if st[0] != 'def':
                raise AnalysisError(f'{self.rel}::{obj}.{name}: not a def')
            res.append(st[1])
        return res

    def def_(self, obj: Optional[str], name: str, param_names: Optional[Sequence[str]] = None, n_params: Optional[int] = None) -> ScalaDef:
        cands = self.defs(obj, name)
        if param_names is not None:
            cands = [d for d in cands if [p[0] for p in d.params] == list(param_names)]
        if n_params is not None:
            cands = [d for d in cands if len(d.params) == n_params]
        if len(cands) != 1:
            raise AnalysisError(f'{self.rel}: expected exactly one `def {name}` in {obj} (params {param_names or n_params}), found {len(cands)}')
        return cands[0]

    def val(self, obj: Optional[str], name: str) -> tuple:
        sls = self.member_tokens(obj, 'val', name)
        if len(sls) != 1:
            raise AnalysisError(f'{self.rel}: expected exactly one `val {name}` in {obj}, found {len(sls)}')
        p = _P(_significant(sls[0]), f'{self.rel}::{obj}.{name}')
        st = p.stmt()
        if not p.done():
            p.err('trailing tokens after val')
        if st[0] != 'val':
            raise AnalysisError(f'{self.rel}::{obj}.{name}: not a val')
        return st[2]

    def parent_of(self, type_name: str) -> Optional[str]:
        """`class|object X ... extends P` -> 'P' (None if no extends clause).  A `class` declaration wins over its companion object."""
        t = self.raw
        found: Dict[str, Optional[str]] = {}
        for i in range(len(t) - 1):
            if t[i][0] == 'kw' and t[i][1] in ('object', 'class') and t[i + 1][0] == 'id' and t[i + 1][1] == type_name:
                kind = t[i][1]
                if kind in found:
                    raise AnalysisError(f'{self.rel}: several `{kind} {type_name}` declarations')
                found[kind] = None
                j = i + 2
                depth = 0
                while j < len(t):
                    k, x, _ = t[j]
                    if k == 'p' and x in '([':
                        depth += 1
                    elif k == 'p' and x in ')]':
                        depth -= 1
                    elif depth == 0 and k == 'kw' and x == 'extends':
                        if j + 1 < len(t) and t[j + 1][0] == 'id':
                            found[kind] = t[j + 1][1]
                            break
                        raise AnalysisError(f'{self.rel}: unrecognised extends clause of {type_name}')
                    elif depth == 0 and ((k == 'p' and x == '{') or (k == 'kw' and x in ('object', 'class', 'def', 'val'))):
                        break
                    j += 1
        if not found:
            raise AnalysisError(f'{self.rel}: no `class/object {type_name}`')
        return found['class'] if 'class' in found else found['object']


_files: Dict[str, ScalaFile] = {}


def load(rel: str) -> ScalaFile:
    from .common import repo_path
    key = repo_path(rel)
    if key not in _files:
        _files[key] = ScalaFile(rel)
    return _files[key]


# --------------------------------------------------------------------------------------
# tree helpers
# --------------------------------------------------------------------------------------


def strip(e: Any) -> Any:
    """Remove ('paren', e) / ('typed', e) wrappers and single-expression blocks recursively."""
    if not isinstance(e, tuple):
        if isinstance(e, list):
            return [strip(x) for x in e]
        return e
    if e and e[0] in ('paren', 'typed'):
        return strip(e[1])
    if e and e[0] == 'block' and len(e[1]) == 1 and e[1][0][0] == 'expr':
        return strip(e[1][0][1])
    return tuple(strip(x) for x in e)


def dotted(e: tuple) -> Optional[str]:
    e = strip(e)
    parts = []
    while e[0] == 'sel':
        parts.append(e[2])
        e = e[1]
    if e[0] == 'name':
        parts.append(e[1])
        return '.'.join(reversed(parts))
    return None


def walk(e: Any):
    if isinstance(e, tuple):
        yield e
        for x in e:
            yield from walk(x)
    elif isinstance(e, list):
        for x in e:
            yield from walk(x)


def show(e: Any) -> str:
    """Compact rendering for messages."""
    e = strip(e)
    if not isinstance(e, tuple):
        return repr(e)
    k = e[0]
    if k == 'int':
        return str(e[1])
    if k == 'bool':
        return 'true' if e[1] else 'false'
    if k == 'name':
        return e[1]
    if k == 'sel':
        return f'{show(e[1])}.{e[2]}'
    if k == 'bin':
        return f'({show(e[2])} {e[1]} {show(e[3])})'
    if k == 'un':
        return f'{e[1]}{show(e[2])}'
    if k == 'call':
        return f'{show(e[1])}(' + ', '.join((f'{kw} = ' if kw else '') + show(a) for kw, a in e[2]) + ')' + (' {…}' if e[3] else '')
    if k == 'if':
        return f'if ({show(e[1])}) {show(e[2])}' + (f' else {show(e[3])}' if e[3] is not None else '')
    if k == 'str':
        return '"…"'
    return k
