"""SQL tokenizer + parser for the MySQL subset used by the batch service (stored routines,
triggers, and the SQL strings embedded in Python).  Fail-closed: anything outside the subset
raises SqlParseError (callers turn that into AnalysisError for claimed statements).
"""
from __future__ import annotations

import re
from typing import Any, Dict, Iterator, List, Optional, Sequence, Tuple


class SqlParseError(Exception):
    pass


# --------------------------------------------------------------------------------------
# tokens
# --------------------------------------------------------------------------------------

TOKEN_RE = re.compile(
    r"""
    (?P<ws>\s+)
  | (?P<comment>\#[^\n]*|--[ \t][^\n]*|--\n|/\*.*?\*/)
  | (?P<hole>⟦\d+⟧)
  | (?P<param>%\([A-Za-z_][A-Za-z_0-9]*\)s|%s)
  | (?P<num>\d+\.\d*(?:[eE][+-]?\d+)?|\.\d+(?:[eE][+-]?\d+)?|\d+(?:[eE][+-]?\d+)?)
  | (?P<str>'(?:[^'\\]|\\.|'')*'|"(?:[^"\\]|\\.|"")*")
  | (?P<bq>`[^`]+`)
  | (?P<uvar>@[A-Za-z_][A-Za-z_0-9]*)
  | (?P<ident>[A-Za-z_][A-Za-z_0-9$]*)
  | (?P<op>:=|<=>|<=|>=|<>|!=|\|\||&&|<<|>>|[-+*/%=<>(),.;!~^&|:])
    """,
    re.X | re.S,
)


class Tok:
    __slots__ = ('kind', 'text', 'pos')

    def __init__(self, kind: str, text: str, pos: int):
        self.kind = kind
        self.text = text
        self.pos = pos

    @property
    def up(self) -> str:
        return self.text.upper() if self.kind == 'ident' else self.text

    def __repr__(self) -> str:
        return f'{self.kind}:{self.text}'


def tokenize(sql: str) -> List[Tok]:
    out: List[Tok] = []
    pos = 0
    n = len(sql)
    while pos < n:
        m = TOKEN_RE.match(sql, pos)
        if not m:
            raise SqlParseError(f'cannot tokenize at {pos}: {sql[pos:pos + 40]!r}')
        kind = m.lastgroup
        if kind not in ('ws', 'comment'):
            out.append(Tok(kind, m.group(), pos))  # type: ignore[arg-type]
        pos = m.end()
    return out


# --------------------------------------------------------------------------------------
# AST
# --------------------------------------------------------------------------------------


class N:
    """Generic AST node: kind + named fields."""

    def __init__(self, kind: str, **kw: Any):
        self.kind = kind
        self.__dict__.update(kw)

    def fields(self) -> Dict[str, Any]:
        return {k: v for k, v in self.__dict__.items() if k not in ('kind', 'pos', 'src')}

    def children(self) -> Iterator['N']:
        def rec(v: Any) -> Iterator['N']:
            if isinstance(v, N):
                yield v
            elif isinstance(v, (list, tuple)):
                for x in v:
                    yield from rec(x)
        for k, v in self.fields().items():
            yield from rec(v)

    def walk(self) -> Iterator['N']:
        yield self
        for c in self.children():
            yield from c.walk()

    def __repr__(self) -> str:
        return f'<{self.kind} {text(self)[:80]}>' if self.kind in EXPR_KINDS else f'<{self.kind}>'


EXPR_KINDS = {'lit', 'col', 'uvar', 'param', 'hole', 'un', 'bin', 'isnull', 'in', 'between', 'func', 'cast', 'exists', 'subq', 'case', 'star', 'tuple', 'values_fn', 'interval'}


def col_name(e: N) -> str:
    """Last component of a column reference, lower-cased."""
    return e.parts[-1].lower()


def col_qual(e: N) -> Optional[str]:
    return e.parts[-2].lower() if len(e.parts) > 1 else None


def text(e: Any) -> str:
    """Canonical text of an expression / statement (used for keys and structural equality)."""
    if e is None:
        return ''
    if isinstance(e, (list, tuple)):
        return ', '.join(text(x) for x in e)
    if not isinstance(e, N):
        return str(e)
    k = e.kind
    if k == 'lit':
        if e.value is None:
            return 'NULL'
        if e.value is True:
            return 'TRUE'
        if e.value is False:
            return 'FALSE'
        if isinstance(e.value, str):
            return "'" + e.value.replace("'", "''") + "'"
        return str(e.value)
    if k == 'col':
        return '.'.join(p if p.upper() in ('NEW', 'OLD') else p for p in e.parts)
    if k == 'uvar':
        return '@' + e.name
    if k == 'param':
        return e.text
    if k == 'hole':
        return '{' + e.text + '}'
    if k == 'star':
        return (e.table + '.*') if getattr(e, 'table', None) else '*'
    if k == 'un':
        return f'({e.op} {text(e.arg)})' if e.op == 'NOT' else f'({e.op}{text(e.arg)})'
    if k == 'bin':
        return f'({text(e.left)} {e.op} {text(e.right)})'
    if k == 'isnull':
        return f'({text(e.arg)} IS {"NOT " if e.negated else ""}NULL)'
    if k == 'in':
        rhs = text(e.items) if isinstance(e.items, list) else text(e.items)
        return f'({text(e.arg)} {"NOT " if e.negated else ""}IN ({rhs}))'
    if k == 'between':
        return f'({text(e.arg)} {"NOT " if e.negated else ""}BETWEEN {text(e.lo)} AND {text(e.hi)})'
    if k == 'func':
        d = 'DISTINCT ' if getattr(e, 'distinct', False) else ''
        return f'{e.name}({d}{text(e.args)})'
    if k == 'cast':
        return f'CAST({text(e.arg)} AS {e.type})'
    if k == 'exists':
        return f'EXISTS ({text(e.select)})'
    if k == 'subq':
        return f'({text(e.select)})'
    if k == 'tuple':
        return f'({text(e.items)})'
    if k == 'values_fn':
        return f'VALUES({e.col})'
    if k == 'interval':
        return f'INTERVAL {text(e.arg)} {e.unit}'
    if k == 'case':
        s = 'CASE ' + (text(e.arg) + ' ' if e.arg is not None else '')
        for c, v in e.whens:
            s += f'WHEN {text(c)} THEN {text(v)} '
        if e.default is not None:
            s += f'ELSE {text(e.default)} '
        return s + 'END'
    if k == 'select':
        s = ''
        if getattr(e, 'ctes', None):
            s = 'WITH ' + ', '.join(f'{n_} AS ({text(b_)})' for n_, b_ in e.ctes) + ' '
        s += 'SELECT ' + ('DISTINCT ' if getattr(e, 'distinct', False) else '')
        s += ', '.join(text(c) + (f' AS {a}' if a else '') for c, a in e.cols)
        if e.into:
            s += ' INTO ' + ', '.join(text(v) for v in e.into)
        if e.frm is not None:
            s += ' FROM ' + text(e.frm)
        if e.where is not None:
            s += ' WHERE ' + text(e.where)
        for h in getattr(e, 'clause_holes', []) or []:
            s += ' ' + text(h)
        if e.group:
            s += ' GROUP BY ' + text(e.group)
        if e.having is not None:
            s += ' HAVING ' + text(e.having)
        if e.order:
            s += ' ORDER BY ' + ', '.join(text(x) + (' ' + d if d else '') for x, d in e.order)
        if e.limit is not None:
            s += ' LIMIT ' + text(e.limit)
            if getattr(e, 'offset', None) is not None:
                s += ' OFFSET ' + text(e.offset)
        if e.lock:
            s += ' ' + e.lock
        if getattr(e, 'union', None):
            for kind_, sel in e.union:
                s += f' {kind_} ' + text(sel)
        return s
    if k == 'from':
        s = text(e.first)
        for j in e.joins:
            s += f' {j.jtype} JOIN ' + ('LATERAL ' if getattr(j.ref, 'lateral', False) else '') + text(j.ref)
            if j.on is not None:
                s += ' ON ' + text(j.on)
            if getattr(j, 'using', None):
                s += ' USING (' + ', '.join(j.using) + ')'
        return s
    if k == 'table':
        return e.name + (f' AS {e.alias}' if e.alias else '')
    if k == 'derived':
        return f'({text(e.select)}) AS {e.alias}'
    if k == 'insert':
        s = ('REPLACE' if getattr(e, 'replace', False) else 'INSERT') + (' IGNORE' if e.ignore else '') + f' INTO {e.table}'
        if e.cols is not None:
            s += ' (' + ', '.join(e.cols) + ')'
        if e.select is not None:
            s += ' ' + text(e.select)
        else:
            s += ' VALUES ' + ', '.join('(' + text(r) + ')' for r in e.rows)
        if e.on_dup:
            s += ' ON DUPLICATE KEY UPDATE ' + ', '.join(f'{text(c)} = {text(v)}' for c, v in e.on_dup)
        return s
    if k == 'update':
        s = f'UPDATE {text(e.frm)} SET ' + ', '.join(f'{text(c)} = {text(v)}' for c, v in e.sets)
        if e.where is not None:
            s += ' WHERE ' + text(e.where)
        if getattr(e, 'limit', None) is not None:
            s += ' LIMIT ' + text(e.limit)
        return s
    if k == 'delete':
        s = f'DELETE FROM {text(e.frm)}'
        if e.where is not None:
            s += ' WHERE ' + text(e.where)
        if getattr(e, 'limit', None) is not None:
            s += ' LIMIT ' + text(e.limit)
        return s
    if k == 'set':
        return 'SET ' + ', '.join(f'{text(t)} = {text(v)}' for t, v in e.assigns)
    if k == 'call':
        return f'CALL {e.name}({text(e.args)})'
    if k == 'if':
        s = ''
        for i, (c, body) in enumerate(e.branches):
            s += ('IF ' if i == 0 else 'ELSEIF ') + text(c) + ' THEN ' + '; '.join(text(b) for b in body) + '; '
        if e.orelse is not None:
            s += 'ELSE ' + '; '.join(text(b) for b in e.orelse) + '; '
        return s + 'END IF'
    if k == 'declare':
        return 'DECLARE ' + ', '.join(e.names) + ' ' + e.type + (f' DEFAULT {text(e.default)}' if e.default is not None else '')
    if k == 'declare_cursor':
        return f'DECLARE {e.name} CURSOR FOR {text(e.select)}'
    if k == 'declare_handler':
        return f'DECLARE {e.action} HANDLER FOR {e.condition} ' + text(e.stmt)
    if k == 'loop':
        return f'{e.label}: LOOP ' + '; '.join(text(b) for b in e.body) + '; END LOOP'
    if k == 'while':
        return f'WHILE {text(e.cond)} DO ' + '; '.join(text(b) for b in e.body) + '; END WHILE'
    if k == 'leave':
        return f'LEAVE {e.label}'
    if k == 'iterate':
        return f'ITERATE {e.label}'
    if k in ('open', 'close'):
        return f'{k.upper()} {e.name}'
    if k == 'fetch':
        return f'FETCH {e.name} INTO ' + ', '.join(text(v) for v in e.into)
    if k == 'txn':
        return e.what
    if k == 'signal':
        return f"SIGNAL SQLSTATE '{e.sqlstate}'"
    if k == 'return':
        return 'RETURN ' + text(e.value)
    if k == 'block':
        return 'BEGIN ' + '; '.join(text(b) for b in e.body) + '; END'
    if k == 'other':
        return e.text
    return f'<{k}>'


# --------------------------------------------------------------------------------------
# parser
# --------------------------------------------------------------------------------------

RESERVED_STOP = {
    'FROM', 'WHERE', 'GROUP', 'HAVING', 'ORDER', 'LIMIT', 'FOR', 'LOCK', 'ON', 'INNER', 'LEFT', 'RIGHT', 'JOIN', 'CROSS', 'STRAIGHT_JOIN',
    'UNION', 'INTO', 'SET', 'VALUES', 'THEN', 'ELSE', 'ELSEIF', 'END', 'DO', 'AS', 'AND', 'OR', 'XOR', 'NOT', 'IS', 'IN', 'LIKE', 'BETWEEN',
    'WHEN', 'DESC', 'ASC', 'USING', 'SELECT', 'NATURAL', 'OFFSET', 'DIV', 'MOD', 'REGEXP', 'COLLATE', 'WITH', 'WINDOW', 'LATERAL', 'IGNORE', 'FORCE', 'USE',
}

CMP_OPS = {'=', '<=>', '>=', '>', '<=', '<', '<>', '!='}


class Parser:
    def __init__(self, sql: str):
        self.sql = sql
        self.toks = tokenize(sql)
        self.i = 0

    # -- helpers ---------------------------------------------------------
    def peek(self, k: int = 0) -> Optional[Tok]:
        j = self.i + k
        return self.toks[j] if j < len(self.toks) else None

    def at_end(self) -> bool:
        return self.i >= len(self.toks)

    def err(self, msg: str) -> SqlParseError:
        t = self.peek()
        where = self.sql[t.pos:t.pos + 60] if t else '<eof>'
        return SqlParseError(f'{msg} at {where!r}')

    def is_kw(self, *words: str, k: int = 0) -> bool:
        t = self.peek(k)
        return t is not None and t.kind == 'ident' and t.up in words

    def is_op(self, *ops: str, k: int = 0) -> bool:
        t = self.peek(k)
        return t is not None and t.kind == 'op' and t.text in ops

    def accept_kw(self, *words: str) -> Optional[str]:
        if self.is_kw(*words):
            t = self.toks[self.i]
            self.i += 1
            return t.up
        return None

    def expect_kw(self, *words: str) -> str:
        w = self.accept_kw(*words)
        if w is None:
            raise self.err(f'expected {"/".join(words)}')
        return w

    def accept_op(self, *ops: str) -> Optional[str]:
        if self.is_op(*ops):
            t = self.toks[self.i]
            self.i += 1
            return t.text
        return None

    def expect_op(self, op: str) -> None:
        if self.accept_op(op) is None:
            raise self.err(f'expected {op!r}')

    def ident(self) -> str:
        t = self.peek()
        if t is None:
            raise self.err('expected identifier')
        if t.kind == 'bq':
            self.i += 1
            return t.text[1:-1]
        if t.kind == 'ident':
            self.i += 1
            return t.text
        if t.kind == 'hole':
            self.i += 1
            return '{' + t.text + '}'
        raise self.err('expected identifier')

    # -- expressions -------------------------------------------------------
    def expr(self) -> N:
        return self.p_assign()

    def p_assign(self) -> N:
        left = self.p_or()
        if self.is_op(':=') and left.kind == 'uvar':
            self.i += 1
            right = self.p_assign()
            return N('bin', op=':=', left=left, right=right)
        return left

    def p_or(self) -> N:
        left = self.p_xor()
        while self.is_kw('OR') or self.is_op('||'):
            self.i += 1
            right = self.p_xor()
            left = N('bin', op='OR', left=left, right=right)
        return left

    def p_xor(self) -> N:
        left = self.p_and()
        while self.is_kw('XOR'):
            self.i += 1
            left = N('bin', op='XOR', left=left, right=self.p_and())
        return left

    def p_and(self) -> N:
        left = self.p_not()
        while self.is_kw('AND') or self.is_op('&&'):
            self.i += 1
            right = self.p_not()
            left = N('bin', op='AND', left=left, right=right)
        return left

    def p_not(self) -> N:
        if self.is_kw('NOT'):
            self.i += 1
            return N('un', op='NOT', arg=self.p_not())
        return self.p_cmp()

    def p_cmp(self) -> N:
        left = self.p_bitor()
        while True:
            if self.is_op(*CMP_OPS):
                op = self.toks[self.i].text
                self.i += 1
                if op == '<>':
                    op = '!='
                if self.is_kw('ANY', 'ALL', 'SOME'):
                    raise self.err('quantified comparison unsupported')
                right = self.p_bitor()
                left = N('bin', op=op, left=left, right=right)
            elif self.is_kw('IS'):
                self.i += 1
                neg = self.accept_kw('NOT') is not None
                if self.accept_kw('NULL'):
                    left = N('isnull', arg=left, negated=neg)
                elif self.is_kw('TRUE', 'FALSE'):
                    v = self.expect_kw('TRUE', 'FALSE') == 'TRUE'
                    e = N('bin', op='<=>', left=left, right=N('lit', value=v))
                    left = N('un', op='NOT', arg=e) if neg else e
                else:
                    raise self.err('unsupported IS form')
            elif self.is_kw('NOT') and self.is_kw('IN', 'LIKE', 'BETWEEN', 'REGEXP', k=1):
                self.i += 1
                left = self._postfix_pred(left, True)
            elif self.is_kw('IN', 'LIKE', 'BETWEEN', 'REGEXP'):
                left = self._postfix_pred(left, False)
            else:
                return left

    def _postfix_pred(self, left: N, neg: bool) -> N:
        w = self.expect_kw('IN', 'LIKE', 'BETWEEN', 'REGEXP')
        if w == 'IN':
            if self.peek() is not None and self.peek().kind in ('param', 'hole'):  # IN %s  (pymysql expands a tuple)
                t = self.toks[self.i]
                self.i += 1
                item = N('param', text=t.text, pos=t.pos) if t.kind == 'param' else N('hole', text=t.text)
                return N('in', arg=left, items=[item], negated=neg)
            self.expect_op('(')
            if self.is_kw('SELECT'):
                sel = self.select()
                self.expect_op(')')
                return N('in', arg=left, items=N('subq', select=sel), negated=neg)
            items = [self.expr()]
            while self.accept_op(','):
                items.append(self.expr())
            self.expect_op(')')
            return N('in', arg=left, items=items, negated=neg)
        if w == 'BETWEEN':
            lo = self.p_bitor()
            self.expect_kw('AND')
            hi = self.p_bitor()
            return N('between', arg=left, lo=lo, hi=hi, negated=neg)
        right = self.p_bitor()
        e = N('bin', op=w, left=left, right=right)
        if self.accept_kw('ESCAPE'):
            self.p_bitor()
        return N('un', op='NOT', arg=e) if neg else e

    def p_bitor(self) -> N:
        left = self.p_bitand()
        while self.is_op('|'):
            self.i += 1
            left = N('bin', op='|', left=left, right=self.p_bitand())
        return left

    def p_bitand(self) -> N:
        left = self.p_shift()
        while self.is_op('&'):
            self.i += 1
            left = N('bin', op='&', left=left, right=self.p_shift())
        return left

    def p_shift(self) -> N:
        left = self.p_add()
        while self.is_op('<<', '>>'):
            op = self.toks[self.i].text
            self.i += 1
            left = N('bin', op=op, left=left, right=self.p_add())
        return left

    def p_add(self) -> N:
        left = self.p_mul()
        while self.is_op('+', '-'):
            op = self.toks[self.i].text
            self.i += 1
            if self.is_kw('INTERVAL'):
                right = self.p_interval()
            else:
                right = self.p_mul()
            left = N('bin', op=op, left=left, right=right)
        return left

    def p_interval(self) -> N:
        self.expect_kw('INTERVAL')
        arg = self.p_mul()
        unit = self.ident().upper()
        return N('interval', arg=arg, unit=unit)

    def p_mul(self) -> N:
        left = self.p_unary()
        while self.is_op('*', '/', '%') or self.is_kw('DIV', 'MOD'):
            t = self.toks[self.i]
            self.i += 1
            op = t.up if t.kind == 'ident' else t.text
            left = N('bin', op=op, left=left, right=self.p_unary())
        return left

    def p_unary(self) -> N:
        if self.is_op('-', '+', '~', '!'):
            op = self.toks[self.i].text
            self.i += 1
            arg = self.p_unary()
            if op == '!':
                return N('un', op='NOT', arg=arg)
            if op == '-' and arg.kind == 'lit' and isinstance(arg.value, (int, float)) and not isinstance(arg.value, bool):
                return N('lit', value=-arg.value)
            if op == '+':
                return arg
            return N('un', op=op, arg=arg)
        if self.is_kw('BINARY') and not self.is_op('(', k=1):
            self.i += 1
            return self.p_unary()
        e = self.p_primary()
        while self.is_kw('COLLATE'):
            self.i += 1
            self.ident()
        return e

    def p_primary(self) -> N:
        t = self.peek()
        if t is None:
            raise self.err('unexpected end of expression')
        if t.kind == 'num':
            self.i += 1
            v: Any = float(t.text) if any(c in t.text for c in '.eE') else int(t.text)
            return N('lit', value=v)
        if t.kind == 'str':
            self.i += 1
            q = t.text[0]
            body = t.text[1:-1].replace(q + q, q)
            body = re.sub(r'\\(.)', lambda m: {'n': '\n', 't': '\t', '0': '\0'}.get(m.group(1), m.group(1)), body)
            # adjacent string literals concatenate
            while self.peek() is not None and self.peek().kind == 'str':
                t2 = self.toks[self.i]
                self.i += 1
                body += t2.text[1:-1]
            return N('lit', value=body)
        if t.kind == 'param':
            self.i += 1
            return N('param', text=t.text, pos=t.pos)
        if t.kind == 'hole':
            self.i += 1
            e = N('hole', text=t.text)
            # a hole used as a qualified name:  {x}.col
            return e
        if t.kind == 'uvar':
            self.i += 1
            return N('uvar', name=t.text[1:])
        if t.kind == 'op' and t.text == '(':
            self.i += 1
            if self.is_kw('SELECT', 'WITH'):
                sel = self.select()
                self.expect_op(')')
                return N('subq', select=sel)
            items = [self.expr()]
            while self.accept_op(','):
                items.append(self.expr())
            self.expect_op(')')
            if len(items) == 1:
                return items[0]
            return N('tuple', items=items)
        if t.kind == 'op' and t.text == '*':
            self.i += 1
            return N('star', table=None)
        if t.kind in ('ident', 'bq'):
            up = t.up if t.kind == 'ident' else None
            if up == 'NULL':
                self.i += 1
                return N('lit', value=None)
            if up == 'TRUE':
                self.i += 1
                return N('lit', value=True)
            if up == 'FALSE':
                self.i += 1
                return N('lit', value=False)
            if up == 'EXISTS':
                self.i += 1
                self.expect_op('(')
                sel = self.select()
                self.expect_op(')')
                return N('exists', select=sel)
            if up == 'CASE':
                return self.p_case()
            if up == 'CAST' and self.is_op('(', k=1):
                self.i += 2
                arg = self.expr()
                self.expect_kw('AS')
                ty = self.p_type()
                self.expect_op(')')
                return N('cast', arg=arg, type=ty)
            if up == 'CONVERT' and self.is_op('(', k=1):
                self.i += 2
                arg = self.expr()
                if self.accept_op(','):
                    ty = self.p_type()
                else:
                    self.expect_kw('USING')
                    ty = 'USING ' + self.ident()
                self.expect_op(')')
                return N('cast', arg=arg, type=ty)
            if up == 'INTERVAL' and not self.is_op('(', k=1):
                return self.p_interval()
            if up == 'VALUES' and self.is_op('(', k=1):
                self.i += 2
                c = self.ident()
                while self.accept_op('.'):
                    c = self.ident()
                self.expect_op(')')
                return N('values_fn', col=c)
            if up in RESERVED_STOP and up not in ('LEFT', 'RIGHT', 'IF', 'MOD', 'REPLACE', 'VALUES', 'IGNORE', 'FORCE', 'USE'):
                raise self.err(f'unexpected keyword {up} in expression')
            # function call?
            if t.kind == 'ident' and self.is_op('(', k=1):
                name = t.up
                self.i += 2
                distinct = False
                args: List[N] = []
                if self.is_op(')') and not self.is_kw('OVER', k=1):
                    self.i += 1
                    return N('func', name=name, args=args, distinct=False)
                if self.accept_kw('DISTINCT'):
                    distinct = True
                if self.is_op(')'):
                    pass
                elif self.is_op('*'):
                    self.i += 1
                    args.append(N('star', table=None))
                else:
                    args.append(self.expr())
                while self.accept_op(','):
                    args.append(self.expr())
                if name == 'GROUP_CONCAT' and self.accept_kw('SEPARATOR'):
                    args.append(self.expr())
                self.expect_op(')')
                f = N('func', name=name, args=args, distinct=distinct)
                if self.accept_kw('OVER'):
                    self.expect_op('(')
                    part: List[N] = []
                    if self.is_kw('PARTITION'):
                        self.i += 1
                        self.expect_kw('BY')
                        part.append(self.expr())
                        while self.accept_op(','):
                            part.append(self.expr())
                    order = self.p_order() if self.is_kw('ORDER') else []
                    self.expect_op(')')
                    f.over = N('over', partition=part, order=order)
                return f
            # column reference a.b.c / a.*
            parts = [self.ident()]
            while self.is_op('.'):
                self.i += 1
                if self.is_op('*'):
                    self.i += 1
                    return N('star', table='.'.join(parts))
                parts.append(self.ident())
            return N('col', parts=parts)
        raise self.err('unexpected token in expression')

    def p_case(self) -> N:
        self.expect_kw('CASE')
        arg = None
        if not self.is_kw('WHEN'):
            arg = self.expr()
        whens = []
        while self.accept_kw('WHEN'):
            c = self.expr()
            self.expect_kw('THEN')
            v = self.expr()
            whens.append((c, v))
        default = None
        if self.accept_kw('ELSE'):
            default = self.expr()
        self.expect_kw('END')
        return N('case', arg=arg, whens=whens, default=default)

    def p_type(self) -> str:
        parts = [self.ident().upper()]
        if self.accept_op('('):
            inner = []
            while not self.is_op(')'):
                inner.append(self.toks[self.i].text)
                self.i += 1
            self.expect_op(')')
            parts[-1] += '(' + ''.join(inner) + ')'
        while self.is_kw('UNSIGNED', 'SIGNED', 'INTEGER', 'CHARACTER', 'CHARSET', 'COLLATE', 'PRECISION', 'ZEROFILL', 'INT'):
            w = self.toks[self.i].up
            self.i += 1
            parts.append(w)
            if w in ('CHARSET', 'COLLATE'):
                parts.append(self.ident())
            if w == 'CHARACTER':
                self.expect_kw('SET')
                parts.append(self.ident())
        return ' '.join(parts)

    # -- SELECT --------------------------------------------------------------
    def select(self) -> N:
        if self.is_kw('WITH'):
            self.i += 1
            self.accept_kw('RECURSIVE')
            ctes = []
            while True:
                name = self.ident()
                self.expect_kw('AS')
                self.expect_op('(')
                if self.peek() is not None and self.peek().kind == 'hole':
                    t = self.toks[self.i]
                    self.i += 1
                    body: Any = N('hole', text=t.text)
                else:
                    body = self.select()
                self.expect_op(')')
                ctes.append((name, body))
                if not self.accept_op(','):
                    break
            s = self.select()
            s.ctes = ctes
            return s
        if self.accept_op('('):
            s = self.select()
            self.expect_op(')')
        else:
            s = self.select_core()
        while self.is_kw('UNION'):
            self.i += 1
            kind = 'UNION'
            if self.accept_kw('ALL'):
                kind = 'UNION ALL'
            elif self.accept_kw('DISTINCT'):
                pass
            if self.accept_op('('):
                rhs = self.select()
                self.expect_op(')')
            else:
                rhs = self.select_core()
            s.union = getattr(s, 'union', []) + [(kind, rhs)]
            # trailing ORDER/LIMIT after a union bind to the whole (rare); parse if present
            if self.is_kw('ORDER'):
                s.union_order = self.p_order()
            if self.accept_kw('LIMIT'):
                s.union_limit = self.expr()
        return s

    def select_core(self) -> N:
        self.expect_kw('SELECT')
        distinct = False
        while self.is_kw('DISTINCT', 'ALL', 'SQL_CALC_FOUND_ROWS', 'STRAIGHT_JOIN'):
            if self.toks[self.i].up == 'DISTINCT':
                distinct = True
            self.i += 1
        cols: List[Tuple[N, Optional[str]]] = []
        while True:
            e = self.expr()
            alias = None
            if self.accept_kw('AS'):
                t = self.peek()
                if t is not None and t.kind == 'str':
                    self.i += 1
                    alias = t.text[1:-1]
                else:
                    alias = self.ident()
            elif self.peek() is not None and (self.peek().kind == 'bq' or (self.peek().kind == 'ident' and self.peek().up not in RESERVED_STOP)):
                alias = self.ident()
            cols.append((e, alias))
            if not self.accept_op(','):
                break
        into: List[N] = []
        if self.accept_kw('INTO'):
            into = self.p_into()
        frm = None
        clause_holes: List[N] = []
        if self.accept_kw('FROM'):
            frm = self.from_clause()
        clause_holes += self.p_clause_holes()
        where = self.expr() if self.accept_kw('WHERE') else None
        clause_holes += self.p_clause_holes()
        group: List[N] = []
        if self.is_kw('GROUP'):
            self.i += 1
            self.expect_kw('BY')
            group.append(self.expr())
            while self.accept_op(','):
                group.append(self.expr())
        having = self.expr() if self.accept_kw('HAVING') else None
        order = self.p_order() if self.is_kw('ORDER') else []
        limit = None
        offset = None
        if self.accept_kw('LIMIT'):
            limit = self.expr()
            if self.accept_op(','):
                offset = limit
                limit = self.expr()
            elif self.accept_kw('OFFSET'):
                offset = self.expr()
        if self.accept_kw('INTO'):
            into = self.p_into()
        lock = self.p_lock()
        clause_holes += self.p_clause_holes()
        if self.accept_kw('INTO'):
            into = self.p_into()
        return N('select', distinct=distinct, cols=cols, into=into, frm=frm, where=where, group=group, having=having, order=order,
                 limit=limit, offset=offset, lock=lock, clause_holes=clause_holes)

    def p_clause_holes(self) -> List[N]:
        """f-string holes standing where a whole clause (WHERE ..., LOCK IN SHARE MODE, ...) is spliced in."""
        out: List[N] = []
        while self.peek() is not None and self.peek().kind == 'hole':
            t = self.toks[self.i]
            self.i += 1
            out.append(N('hole', text=t.text))
        return out

    def p_into(self) -> List[N]:
        out = [self.p_primary()]
        while self.accept_op(','):
            out.append(self.p_primary())
        return out

    def p_order(self) -> List[Tuple[N, Optional[str]]]:
        self.expect_kw('ORDER')
        self.expect_kw('BY')
        out = []
        while True:
            e = self.expr()
            d = self.accept_kw('ASC', 'DESC')
            out.append((e, d))
            if not self.accept_op(','):
                break
        return out

    def p_lock(self) -> str:
        if self.is_kw('FOR') and self.is_kw('UPDATE', 'SHARE', k=1):
            self.i += 1
            w = self.expect_kw('UPDATE', 'SHARE')
            s = 'FOR ' + w
            if self.accept_kw('OF'):
                self.ident()
                while self.accept_op(','):
                    self.ident()
            if self.accept_kw('NOWAIT'):
                s += ' NOWAIT'
            elif self.accept_kw('SKIP'):
                self.expect_kw('LOCKED')
                s += ' SKIP LOCKED'
            return s
        if self.is_kw('LOCK') and self.is_kw('IN', k=1):
            self.i += 2
            self.expect_kw('SHARE')
            self.expect_kw('MODE')
            return 'LOCK IN SHARE MODE'
        return ''

    def table_ref(self) -> N:
        lateral = self.accept_kw('LATERAL') is not None
        if self.accept_op('('):
            if self.is_kw('SELECT', 'WITH') or self.is_op('('):
                sel = self.select()
                self.expect_op(')')
                self.accept_kw('AS')
                alias = self.ident()
                return N('derived', select=sel, alias=alias, lateral=lateral)
            inner = self.from_clause()
            self.expect_op(')')
            return inner
        name = self.ident()
        while self.accept_op('.'):
            name += '.' + self.ident()
        alias = None
        if self.accept_kw('AS'):
            alias = self.ident()
        elif self.peek() is not None and (self.peek().kind == 'bq' or (self.peek().kind == 'ident' and self.peek().up not in RESERVED_STOP
                                                                       and self.peek().up not in ('SET', 'STRAIGHT_JOIN'))):
            alias = self.ident()
        hints = []
        while self.is_kw('FORCE', 'USE', 'IGNORE') and self.is_kw('INDEX', 'KEY', k=1):
            h = self.toks[self.i].up
            self.i += 2
            if self.accept_kw('FOR'):
                self.ident()
                self.accept_kw('BY')
            self.expect_op('(')
            names = []
            while not self.is_op(')'):
                names.append(self.toks[self.i].text)
                self.i += 1
            self.expect_op(')')
            hints.append(h + ' INDEX (' + ''.join(names) + ')')
        return N('table', name=name, alias=alias, hints=hints)

    def from_clause(self) -> N:
        first = self.table_ref()
        joins: List[N] = []
        while True:
            jtype = None
            if self.accept_op(','):
                jtype = 'CROSS'
                ref = self.table_ref()
                joins.append(N('join', jtype=jtype, ref=ref, on=None))
                continue
            if self.is_kw('INNER', 'CROSS'):
                self.i += 1
                self.expect_kw('JOIN')
                jtype = 'INNER'
            elif self.is_kw('LEFT', 'RIGHT') and self.is_kw('JOIN', 'OUTER', k=1):
                jtype = self.toks[self.i].up
                self.i += 1
                self.accept_kw('OUTER')
                self.expect_kw('JOIN')
            elif self.is_kw('JOIN', 'STRAIGHT_JOIN'):
                self.i += 1
                jtype = 'INNER'
            elif self.is_kw('NATURAL'):
                raise self.err('NATURAL JOIN unsupported')
            else:
                break
            ref = self.table_ref()
            on = None
            using = None
            if self.accept_kw('ON'):
                on = self.expr()
            elif self.accept_kw('USING'):
                self.expect_op('(')
                using = [self.ident()]
                while self.accept_op(','):
                    using.append(self.ident())
                self.expect_op(')')
            joins.append(N('join', jtype=jtype, ref=ref, on=on, using=using))
        return N('from', first=first, joins=joins)

    # -- DML -------------------------------------------------------------------
    def insert(self) -> N:
        replace = self.expect_kw('INSERT', 'REPLACE') == 'REPLACE'
        ignore = False
        while self.is_kw('IGNORE', 'LOW_PRIORITY', 'DELAYED', 'HIGH_PRIORITY'):
            if self.toks[self.i].up == 'IGNORE':
                ignore = True
            self.i += 1
        self.accept_kw('INTO')
        table = self.ident()
        while self.accept_op('.'):
            table += '.' + self.ident()
        cols = None
        if self.is_op('(') and not self.is_kw('SELECT', k=1):
            self.i += 1
            cols = []
            if not self.is_op(')'):
                cols.append(self.ident())
                while self.accept_op(','):
                    cols.append(self.ident())
            self.expect_op(')')
        rows: List[List[N]] = []
        sel = None
        if self.accept_kw('VALUES', 'VALUE'):
            while True:
                self.expect_op('(')
                row = []
                if not self.is_op(')'):
                    row.append(self.expr())
                    while self.accept_op(','):
                        row.append(self.expr())
                self.expect_op(')')
                rows.append(row)
                if not self.accept_op(','):
                    break
        elif self.is_kw('SELECT') or self.is_op('('):
            sel = self.select()
        elif self.accept_kw('SET'):
            cols = []
            row = []
            while True:
                c = self.ident()
                self.expect_op('=')
                cols.append(c)
                row.append(self.expr())
                if not self.accept_op(','):
                    break
            rows = [row]
        else:
            raise self.err('INSERT without VALUES/SELECT')
        alias = None
        if self.accept_kw('AS'):
            alias = self.ident()
        on_dup: List[Tuple[N, N]] = []
        if self.is_kw('ON') and self.is_kw('DUPLICATE', k=1):
            self.i += 2
            self.expect_kw('KEY')
            self.expect_kw('UPDATE')
            while True:
                c = self.p_primary()
                self.expect_op('=')
                v = self.expr()
                on_dup.append((c, v))
                if not self.accept_op(','):
                    break
        return N('insert', table=table, cols=cols, rows=rows, select=sel, on_dup=on_dup, ignore=ignore, replace=replace, row_alias=alias)

    def update(self) -> N:
        self.expect_kw('UPDATE')
        while self.is_kw('LOW_PRIORITY', 'IGNORE'):
            self.i += 1
        frm = self.from_clause()
        self.expect_kw('SET')
        sets: List[Tuple[N, N]] = []
        while True:
            c = self.p_primary()
            if c.kind == 'hole' and not self.is_op('='):
                sets.append((c, c))  # the whole assignment list is spliced in (opaque)
                if not self.accept_op(','):
                    break
                continue
            self.expect_op('=')
            v = self.expr()
            sets.append((c, v))
            if not self.accept_op(','):
                break
        ch = self.p_clause_holes()
        where = self.expr() if self.accept_kw('WHERE') else None
        ch += self.p_clause_holes()
        if self.is_kw('ORDER'):
            self.p_order()
        limit = self.expr() if self.accept_kw('LIMIT') else None
        return N('update', frm=frm, sets=sets, where=where, limit=limit, clause_holes=ch)

    def delete(self) -> N:
        self.expect_kw('DELETE')
        targets = None
        if not self.is_kw('FROM'):
            targets = [self.ident()]
            while self.accept_op(','):
                targets.append(self.ident())
        self.expect_kw('FROM')
        frm = self.from_clause()
        if self.accept_kw('USING'):
            raise self.err('DELETE ... USING unsupported')
        ch = self.p_clause_holes()
        where = self.expr() if self.accept_kw('WHERE') else None
        ch += self.p_clause_holes()
        if self.is_kw('ORDER'):
            self.p_order()
        limit = self.expr() if self.accept_kw('LIMIT') else None
        return N('delete', frm=frm, where=where, limit=limit, targets=targets, clause_holes=ch)

    # -- procedural ------------------------------------------------------------
    def statement(self) -> N:
        t = self.peek()
        if t is None:
            raise self.err('expected statement')
        start = t.pos
        st = self._statement()
        end = self.toks[self.i - 1].pos + len(self.toks[self.i - 1].text) if self.i > 0 else start
        st.pos = start
        st.src = self.sql[start:end]
        return st

    def _statement(self) -> N:
        t = self.peek()
        assert t is not None
        # label:
        if t.kind == 'ident' and self.is_op(':', k=1) and self.is_kw('LOOP', 'WHILE', 'BEGIN', 'REPEAT', k=2):
            label = t.text
            self.i += 2
            st = self._statement()
            st.label = label
            if self.peek() is not None and self.peek().kind == 'ident' and self.peek().text == label:
                self.i += 1
            return st
        up = t.up if t.kind == 'ident' else t.text
        if up == 'SELECT' or (t.kind == 'op' and t.text == '(' and self.is_kw('SELECT', k=1)):
            return self.select()
        if up == 'WITH':
            return self.select()
        if up in ('INSERT', 'REPLACE'):
            return self.insert()
        if up == 'UPDATE':
            return self.update()
        if up == 'DELETE':
            return self.delete()
        if up == 'SET':
            self.i += 1
            if self.is_kw('TRANSACTION', 'SESSION', 'GLOBAL', 'NAMES'):
                words = []
                while not self.at_end() and not self.is_op(';'):
                    words.append(self.toks[self.i].text)
                    self.i += 1
                return N('other', text='SET ' + ' '.join(words))
            assigns = []
            while True:
                target = self.p_primary()
                if not (self.accept_op('=') or self.accept_op(':=')):
                    raise self.err('expected = in SET')
                v = self.expr()
                assigns.append((target, v))
                if not self.accept_op(','):
                    break
            return N('set', assigns=assigns)
        if up == 'DECLARE':
            self.i += 1
            if self.is_kw('CONTINUE', 'EXIT') and self.is_kw('HANDLER', k=1):
                action = self.toks[self.i].up
                self.i += 2
                self.expect_kw('FOR')
                cond_words = []
                while not self.is_kw('SET', 'BEGIN', 'SELECT', 'ROLLBACK', 'RESIGNAL', 'CALL', 'INSERT', 'UPDATE', 'DELETE'):
                    cond_words.append(self.toks[self.i].text)
                    self.i += 1
                stmt = self.statement()
                return N('declare_handler', action=action, condition=' '.join(cond_words).upper(), stmt=stmt)
            names = [self.ident()]
            if self.accept_kw('CURSOR'):
                self.expect_kw('FOR')
                sel = self.select()
                return N('declare_cursor', name=names[0], select=sel)
            while self.accept_op(','):
                names.append(self.ident())
            ty = self.p_type()
            default = None
            if self.accept_kw('DEFAULT'):
                default = self.expr()
            return N('declare', names=names, type=ty, default=default)
        if up == 'IF':
            self.i += 1
            branches = []
            cond = self.expr()
            self.expect_kw('THEN')
            body = self.stmt_list(('ELSEIF', 'ELSE', 'END'))
            branches.append((cond, body))
            orelse = None
            while True:
                if self.accept_kw('ELSEIF'):
                    c = self.expr()
                    self.expect_kw('THEN')
                    b = self.stmt_list(('ELSEIF', 'ELSE', 'END'))
                    branches.append((c, b))
                elif self.accept_kw('ELSE'):
                    orelse = self.stmt_list(('END',))
                else:
                    break
            self.expect_kw('END')
            self.expect_kw('IF')
            return N('if', branches=branches, orelse=orelse)
        if up == 'LOOP':
            self.i += 1
            body = self.stmt_list(('END',))
            self.expect_kw('END')
            self.expect_kw('LOOP')
            return N('loop', label=None, body=body)
        if up == 'WHILE':
            self.i += 1
            cond = self.expr()
            self.expect_kw('DO')
            body = self.stmt_list(('END',))
            self.expect_kw('END')
            self.expect_kw('WHILE')
            return N('while', cond=cond, body=body, label=None)
        if up == 'LEAVE':
            self.i += 1
            return N('leave', label=self.ident())
        if up == 'ITERATE':
            self.i += 1
            return N('iterate', label=self.ident())
        if up in ('OPEN', 'CLOSE'):
            self.i += 1
            return N(up.lower(), name=self.ident())
        if up == 'FETCH':
            self.i += 1
            self.accept_kw('NEXT')
            self.accept_kw('FROM')
            name = self.ident()
            self.expect_kw('INTO')
            return N('fetch', name=name, into=self.p_into())
        if up == 'CALL':
            self.i += 1
            name = self.ident()
            args: List[N] = []
            if self.accept_op('('):
                if not self.is_op(')'):
                    args.append(self.expr())
                    while self.accept_op(','):
                        args.append(self.expr())
                self.expect_op(')')
            return N('call', name=name, args=args)
        if up == 'START':
            self.i += 1
            self.expect_kw('TRANSACTION')
            if self.accept_kw('READ'):
                self.expect_kw('ONLY', 'WRITE')
            return N('txn', what='START TRANSACTION')
        if up == 'BEGIN':
            self.i += 1
            if self.at_end() or self.is_op(';'):
                return N('txn', what='START TRANSACTION')
            body = self.stmt_list(('END',))
            self.expect_kw('END')
            return N('block', body=body, label=None)
        if up in ('COMMIT', 'ROLLBACK'):
            self.i += 1
            return N('txn', what=up)
        if up == 'SIGNAL':
            self.i += 1
            self.expect_kw('SQLSTATE')
            self.accept_kw('VALUE')
            t2 = self.toks[self.i]
            self.i += 1
            msg = None
            if self.accept_kw('SET'):
                while True:
                    self.ident()
                    self.expect_op('=')
                    v = self.expr()
                    msg = v
                    if not self.accept_op(','):
                        break
            return N('signal', sqlstate=t2.text.strip('\'"'), message=msg)
        if up == 'RETURN':
            self.i += 1
            return N('return', value=self.expr())
        if up in ('LOCK', 'UNLOCK') and self.is_kw('TABLES', 'TABLE', k=1):
            words = []
            while not self.at_end() and not self.is_op(';'):
                words.append(self.toks[self.i].text)
                self.i += 1
            return N('other', text=' '.join(words))
        raise self.err(f'unsupported statement start {up}')

    def stmt_list(self, stop: Sequence[str]) -> List[N]:
        out: List[N] = []
        while True:
            while self.accept_op(';'):
                pass
            if self.at_end() or self.is_kw(*stop):
                return out
            out.append(self.statement())
            if not self.accept_op(';'):
                if self.at_end() or self.is_kw(*stop):
                    return out
                raise self.err('expected ;')

    # -- routines -----------------------------------------------------------------
    def routine(self) -> N:
        self.expect_kw('CREATE')
        if self.accept_kw('DEFINER'):
            self.expect_op('=')
            while not self.is_kw('PROCEDURE', 'FUNCTION', 'TRIGGER'):
                self.i += 1
        if self.accept_kw('OR'):
            self.expect_kw('REPLACE')
        kind = self.expect_kw('PROCEDURE', 'FUNCTION', 'TRIGGER').lower()
        if self.is_kw('IF'):
            self.i += 1
            self.expect_kw('NOT')
            self.expect_kw('EXISTS')
        name = self.ident()
        params: List[Tuple[str, str, str]] = []
        extra: Dict[str, Any] = {}
        if kind == 'trigger':
            timing = self.expect_kw('BEFORE', 'AFTER')
            event = self.expect_kw('INSERT', 'UPDATE', 'DELETE')
            self.expect_kw('ON')
            table = self.ident()
            self.expect_kw('FOR')
            self.expect_kw('EACH')
            self.expect_kw('ROW')
            extra = {'timing': timing, 'event': event, 'table': table}
        else:
            self.expect_op('(')
            while not self.is_op(')'):
                mode = self.accept_kw('IN', 'OUT', 'INOUT') or 'IN'
                pname = self.ident()
                ty = self.p_type()
                params.append((mode, pname, ty))
                if not self.accept_op(','):
                    break
            self.expect_op(')')
            if kind == 'function':
                self.expect_kw('RETURNS')
                extra['returns'] = self.p_type()
            while self.is_kw('DETERMINISTIC', 'NOT', 'READS', 'MODIFIES', 'CONTAINS', 'NO', 'SQL', 'LANGUAGE', 'COMMENT'):
                w = self.toks[self.i].up
                self.i += 1
                if w == 'NOT':
                    self.expect_kw('DETERMINISTIC')
                elif w in ('READS', 'MODIFIES'):
                    self.expect_kw('SQL')
                    self.expect_kw('DATA')
                elif w in ('CONTAINS', 'NO'):
                    self.expect_kw('SQL')
                elif w == 'LANGUAGE':
                    self.expect_kw('SQL')
                elif w == 'COMMENT':
                    self.i += 1
                elif w == 'SQL':
                    self.expect_kw('SECURITY')
                    self.ident()
        body_st = self.statement()
        body = body_st.body if body_st.kind == 'block' else [body_st]
        while self.accept_op(';'):
            pass
        if not self.at_end():
            raise self.err('trailing tokens after routine body')
        return N('routine', rkind=kind, name=name, params=params, body=body, **extra)


def parse_statements(sql: str) -> List[N]:
    p = Parser(sql)
    out = p.stmt_list(())
    if not p.at_end():
        raise p.err('trailing tokens')
    return out


def parse_expr(sql: str) -> N:
    p = Parser(sql)
    e = p.expr()
    if not p.at_end():
        raise p.err('trailing tokens after expression')
    return e


def parse_routine(sql: str) -> N:
    return Parser(sql).routine()
