"""sqlcard: row-cardinality analysis of SELECTs in scalar contexts (serves C07; generic over the SQL program).

MySQL raises an error when a query used where ONE value is expected yields several rows:
    ER_SUBQUERY_NO_1_ROW (1242)  scalar sub-query `(SELECT ..)` in an expression, `RETURN (SELECT ..)`, `SET v = (SELECT ..)`
    ER_TOO_MANY_ROWS     (1172)  `SELECT .. INTO v` in a stored routine
so a routine that evaluates such a query on data for which it has two rows does not answer: it fails.

The analysis is a functional-dependency closure over the FROM items of one SELECT, from the declared keys of the tables
(PRIMARY KEY / UNIQUE of the effective schema after migration replay):

    a base-table item is DETERMINED (contributes at most one row per row of the items determined before it) when, for one of
    its keys, every key column is equated - by a conjunct of WHERE or of a JOIN .. ON - with a term made of literals,
    routine parameters / variables, place-holders, outer-query columns and columns of determined items;
    a derived table (sub-query in FROM, LATERAL or not) is determined when its own SELECT is at-most-one-row;
    a SELECT is at-most-one-row when it has LIMIT 0/1, or aggregates without GROUP BY, or has no FROM, or all its items are determined.

Three verdicts per scalar context:
    ('one',  reason)            proved
    ('many', item, table, free) a base table item is NOT pinned by any of its keys: `free` lists, for the key that comes closest,
                                the key columns left unconstrained - the query has one row per value of those columns
    ('unknown', why)            not analysable (table without a known key, USING, unrecognised FROM item ..)

Nothing here looks at data; whether two such rows can exist is a fact about the writers of the table, argued by the rule
module that arms the verdict (see rules/c07.py R7).
"""
from __future__ import annotations

import re
from typing import Any, Dict, FrozenSet, Iterator, List, Optional, Sequence, Set, Tuple

from engines import sqlfront as sf
from engines.common import AnalysisError, read_repo
from engines.sqlast import N, text

AGGREGATES = {'COUNT', 'SUM', 'MAX', 'MIN', 'AVG', 'BIT_OR', 'BIT_AND', 'BIT_XOR', 'GROUP_CONCAT', 'JSON_ARRAYAGG', 'JSON_OBJECTAGG', 'STD', 'STDDEV', 'VARIANCE', 'ANY_VALUE'}

_keys_cache: Dict[str, Dict[str, List[Tuple[str, ...]]]] = {}


def _split_top(body: str) -> List[str]:
    out, cur, depth, q = [], '', 0, ''
    for c in body:
        if q:
            cur += c
            if c == q:
                q = ''
            continue
        if c in '\'"`':
            q = c
            cur += c
            continue
        if c == '(':
            depth += 1
        elif c == ')':
            depth -= 1
        if c == ',' and depth == 0:
            out.append(cur)
            cur = ''
        else:
            cur += c
    if cur.strip():
        out.append(cur)
    return out


def _cols_of(paren: str) -> Tuple[str, ...]:
    # "`a`, b(10), c DESC" -> (a, b, c)
    cols = []
    for part in _split_top(paren):
        m = re.match(r'\s*`?([A-Za-z_0-9]+)`?', part)
        if m:
            cols.append(m.group(1).lower())
    return tuple(cols)


def _create_table_keys(stmt: str) -> List[Tuple[str, ...]]:
    i = stmt.find('(')
    if i < 0:
        return []
    depth, j = 0, i
    for j in range(i, len(stmt)):
        if stmt[j] == '(':
            depth += 1
        elif stmt[j] == ')':
            depth -= 1
            if depth == 0:
                break
    keys: List[Tuple[str, ...]] = []
    for item in _split_top(stmt[i + 1:j]):
        it = item.strip()
        m = re.match(r'(?:CONSTRAINT\s+`?\w+`?\s+)?PRIMARY\s+KEY\s*(?:`?\w+`?\s*)?\((.*)\)', it, re.I | re.S)
        if m:
            keys.insert(0, _cols_of(m.group(1)))
            continue
        m = re.match(r'(?:CONSTRAINT\s+`?\w+`?\s+)?UNIQUE\s*(?:KEY|INDEX)?\s*(?:`?\w+`?\s*)?\((.*)\)', it, re.I | re.S)
        if m:
            keys.append(_cols_of(m.group(1)))
            continue
        m = re.match(r'`?([A-Za-z_0-9]+)`?\s+(.*)$', it, re.S)
        if m and m.group(1).upper() not in ('PRIMARY', 'KEY', 'UNIQUE', 'FOREIGN', 'INDEX', 'CONSTRAINT', 'FULLTEXT', 'CHECK'):
            rest = m.group(2)
            if re.search(r'\bPRIMARY\s+KEY\b', rest, re.I):
                keys.insert(0, (m.group(1).lower(),))
            elif re.search(r'\bUNIQUE\b', rest, re.I):
                keys.append((m.group(1).lower(),))
    return keys


def table_keys(database: str = 'batch', sql_dir: str = 'batch/sql') -> Dict[str, List[Tuple[str, ...]]]:
    """table -> list of keys (tuples of lower-case column names; the primary key first) of the effective schema."""
    if database in _keys_cache:
        return _keys_cache[database]
    keys: Dict[str, List[Tuple[str, ...]]] = {}
    for s in sf.migration_list(database):
        if not s.endswith('.sql'):
            continue
        src = read_repo(f'{sql_dir}/{s}')
        for stmt in sf.split_sql_script(src):
            for body in (sf.split_sql_script(stmt) if re.match(r'\s*(?:--[^\n]*\n|\s)*(?:CREATE\s+TABLE|ALTER\s+TABLE|DROP\s+TABLE|RENAME\s+TABLE)', stmt, re.I) else [stmt]):
                body = sf._strip_leading_comments(body)
                m = re.match(r'CREATE\s+TABLE\s+(?:IF\s+NOT\s+EXISTS\s+)?`?([A-Za-z_0-9]+)`?', body, re.I)
                if m:
                    keys[m.group(1)] = _create_table_keys(body)
                    continue
                m = re.match(r'DROP\s+TABLE\s+(?:IF\s+EXISTS\s+)?`?([A-Za-z_0-9]+)`?', body, re.I)
                if m:
                    keys.pop(m.group(1), None)
                    continue
                m = re.match(r'RENAME\s+TABLE\s+(.*)$', body, re.I | re.S)
                if m:
                    for a, b in re.findall(r'`?([A-Za-z_0-9]+)`?\s+TO\s+`?([A-Za-z_0-9]+)`?', m.group(1), re.I):
                        if a in keys:
                            keys[b] = keys.pop(a)
                    continue
                m = re.match(r'ALTER\s+TABLE\s+`?([A-Za-z_0-9]+)`?\s*(.*)$', body, re.I | re.S)
                if m and m.group(1) in keys:
                    t, rest = m.group(1), m.group(2)
                    for clause in _split_top(rest):
                        c = clause.strip()
                        if re.match(r'DROP\s+PRIMARY\s+KEY', c, re.I):
                            keys[t] = keys[t][1:] if keys[t] else []
                            # the primary key, when present, is always first; mark "no primary key" by an empty tuple
                            keys[t].insert(0, ())
                        mm = re.match(r'ADD\s+(?:CONSTRAINT\s+`?\w+`?\s+)?PRIMARY\s+KEY\s*(?:`?\w+`?\s*)?\((.*)\)', c, re.I | re.S)
                        if mm:
                            if keys[t] and keys[t][0] == ():
                                keys[t].pop(0)
                            keys[t].insert(0, _cols_of(mm.group(1)))
                        mm = re.match(r'ADD\s+(?:CONSTRAINT\s+`?\w+`?\s+)?UNIQUE\s*(?:KEY|INDEX)?\s*(?:`?\w+`?\s*)?\((.*)\)', c, re.I | re.S)
                        if mm:
                            keys[t].append(_cols_of(mm.group(1)))
                        mm = re.match(r'RENAME\s+(?:TO\s+|AS\s+)?`?([A-Za-z_0-9]+)`?\s*$', c, re.I)
                        if mm and not re.match(r'RENAME\s+(COLUMN|INDEX|KEY)\b', c, re.I):
                            keys[mm.group(1)] = keys.pop(t)
                            t = mm.group(1)
                        mm = re.match(r'RENAME\s+COLUMN\s+`?(\w+)`?\s+TO\s+`?(\w+)`?', c, re.I)
                        if mm:
                            a, b = mm.group(1).lower(), mm.group(2).lower()
                            keys[t] = [tuple(b if x == a else x for x in k) for k in keys[t]]
    out = {t: [k for k in ks if k] for t, ks in keys.items()}
    _keys_cache[database] = out
    return out


# ------------------------------------------------------------------------------------------------------------------------------------

def _children(n: Any) -> Iterator[Any]:
    if isinstance(n, N):
        for k, v in n.__dict__.items():
            if k in ('kind', 'pos'):
                continue
            yield from _children_of_value(v)


def _children_of_value(v: Any) -> Iterator[Any]:
    if isinstance(v, N):
        yield v
    elif isinstance(v, (list, tuple)):
        for x in v:
            yield from _children_of_value(x)


def walk(n: Any) -> Iterator[N]:
    stack = [n] if isinstance(n, N) else list(_children_of_value(n))
    while stack:
        x = stack.pop()
        yield x
        stack.extend(_children(x))


def _has_aggregate(cols: Sequence[Any]) -> bool:
    def rec(e: Any) -> bool:
        if isinstance(e, N):
            if e.kind in ('subq', 'exists', 'select'):
                return False
            if e.kind == 'func' and e.name.upper() in AGGREGATES and getattr(e, 'over', None) is None:
                return True
            return any(rec(c) for c in _children(e))
        return False
    return any(rec(c) for c in _children_of_value(list(cols)))


def _items(frm: Optional[N]) -> List[Tuple[N, Optional[N], str]]:
    """(item, ON condition, join type) for every FROM item."""
    if frm is None:
        return []
    if frm.kind != 'from':
        raise AnalysisError(f'sqlcard: unrecognised FROM `{text(frm)[:60]}`')
    out: List[Tuple[N, Optional[N], str]] = [(frm.first, None, 'FIRST')]
    for j in frm.joins:
        if getattr(j, 'using', None):
            raise AnalysisError('sqlcard: JOIN .. USING is not modelled')
        out.append((j.ref, j.on, j.jtype))
    return out


def _alias(item: N) -> str:
    if item.kind == 'table':
        return (item.alias or item.name).lower()
    if item.kind == 'derived':
        return (item.alias or '').lower()
    raise AnalysisError(f'sqlcard: unrecognised FROM item `{text(item)[:60]}`')


class Scope:
    """Names that are constants from the point of view of one SELECT: routine parameters / declared variables."""

    def __init__(self, consts: Set[str], tables: Dict[str, List[str]]):
        self.consts = {c.lower() for c in consts}
        self.tables = tables


def _owner(col: N, aliases: Dict[str, N], scope: Scope) -> Optional[str]:
    """alias of the FROM item of THIS select the column belongs to; None = constant (parameter, variable, outer-query column)."""
    parts = [p.lower() for p in col.parts]
    if len(parts) >= 2:
        return parts[-2] if parts[-2] in aliases else None
    name = parts[0]
    if name in scope.consts:
        return None  # MySQL: a routine parameter / local variable shadows a column of the same name
    owners = []
    for a, it in aliases.items():
        if it.kind == 'table':
            cols = [c.lower() for c in scope.tables.get(it.name, [])]
            if name in cols:
                owners.append(a)
        elif it.kind == 'derived':
            for c in it.select.cols:
                e, al = (c if isinstance(c, tuple) else (c, None))
                nm = (al or (e.parts[-1] if isinstance(e, N) and e.kind == 'col' else '')).lower() if (al or isinstance(e, N)) else ''
                if nm == name:
                    owners.append(a)
    if len(owners) == 1:
        return owners[0]
    if not owners:
        return None  # outer-query column or session variable-like name: a constant for this select
    raise AnalysisError(f'sqlcard: ambiguous column `{name}`')


def at_most_one(sel: N, scope: Scope, keys: Dict[str, List[Tuple[str, ...]]]) -> Tuple:
    if sel.kind != 'select':
        return ('unknown', f'not a SELECT: {sel.kind}')
    lim = getattr(sel, 'limit', None)
    if isinstance(lim, N) and lim.kind == 'lit' and lim.value in (0, 1):
        return ('one', f'LIMIT {lim.value}')
    if _has_aggregate(sel.cols) and not sel.group:
        return ('one', 'aggregate without GROUP BY')
    if sel.frm is None:
        return ('one', 'no FROM')
    items = _items(sel.frm)
    aliases: Dict[str, N] = {}
    for it, _, _ in items:
        a = _alias(it)
        if not a or a in aliases:
            raise AnalysisError(f'sqlcard: FROM item without a distinct alias in `{text(sel)[:60]}`')
        aliases[a] = it
    conj: List[N] = list(sf.conjuncts(sel.where))
    for _, on, _ in items:
        if on is not None:
            conj.extend(sf.conjuncts(on))
    eqs: List[Tuple[N, N]] = []
    for c in conj:
        if c.kind == 'bin' and c.op in ('=', '<=>'):
            eqs.append((c.left, c.right))
            eqs.append((c.right, c.left))
        elif c.kind == 'in' and not c.negated and isinstance(c.items, list) and len(c.items) == 1 and isinstance(c.items[0], N) and c.items[0].kind != 'hole':
            eqs.append((c.arg, c.items[0]))
    determined: Set[str] = set()

    def term_determined(t: N, me: str) -> bool:
        for x in walk(t):
            if x.kind in ('subq', 'exists', 'select'):
                return False
            if x.kind == 'col':
                o = _owner(x, aliases, scope)
                if o is not None and (o == me or o not in determined):
                    return False
        return True

    verdicts: Dict[str, Tuple] = {}
    changed = True
    while changed:
        changed = False
        for a, it in aliases.items():
            if a in determined:
                continue
            if it.kind == 'derived':
                v = at_most_one(it.select, scope, keys)
                verdicts[a] = v
                if v[0] == 'one':
                    determined.add(a)
                    changed = True
                continue
            ks = keys.get(it.name)
            if not ks:
                verdicts[a] = ('unknown', f'no declared key for table {it.name}')
                continue
            best: Optional[Tuple[str, ...]] = None
            for k in ks:
                free = []
                for kc in k:
                    pinned = False
                    for l, r in eqs:
                        if l.kind == 'col' and l.parts[-1].lower() == kc and _owner(l, aliases, scope) == a and term_determined(r, a):
                            pinned = True
                            break
                    if not pinned:
                        free.append(kc)
                if not free:
                    determined.add(a)
                    changed = True
                    verdicts.pop(a, None)
                    best = None
                    break
                if best is None or len(free) < len(best):
                    best = tuple(free)
            if a not in determined and best is not None:
                verdicts[a] = ('many', a, it.name, best)
    if all(a in determined for a in aliases):
        return ('one', 'every FROM item is pinned by a key')
    # report the innermost cause first: a derived table that is itself 'many'
    for a, v in verdicts.items():
        if aliases[a].kind == 'derived' and v[0] == 'many':
            return v
    for a, v in verdicts.items():
        if v[0] == 'many':
            return v
    for a, v in verdicts.items():
        if v[0] == 'unknown':
            return v
    return ('unknown', 'undetermined FROM items ' + ', '.join(sorted(set(aliases) - determined)))


# ------------------------------------------------------------------------------------------------------------------------------------

class ScalarUse:
    def __init__(self, routine: str, how: str, sel: N, node: N, stmt: N):
        self.routine, self.how, self.sel, self.node, self.stmt = routine, how, sel, node, stmt


def routine_consts(r: sf.Routine) -> Set[str]:
    a = r.ast
    names: Set[str] = set()
    for p in getattr(a, 'params', []) or []:
        if isinstance(p, (tuple, list)):
            for x in p:
                if isinstance(x, str) and x.upper() not in ('IN', 'OUT', 'INOUT'):
                    names.add(x)
                    break
        elif isinstance(p, str):
            names.add(p)
        elif isinstance(p, N):
            nm = getattr(p, 'name', None)
            if nm:
                names.add(nm)
    for st in sf.all_statements(a.body):
        if st.kind == 'declare':
            names.update(st.names)
    return names


def scalar_uses(r: sf.Routine) -> List[ScalarUse]:
    """Every SELECT of the routine that MySQL requires to produce at most one row."""
    out: List[ScalarUse] = []
    a = r.ast

    def scan_expr(e: Any, stmt: N, how: str) -> None:
        # sub-queries in value position; EXISTS / IN (subq) / derived tables are set contexts
        if not isinstance(e, N):
            for c in _children_of_value(e):
                scan_expr(c, stmt, how)
            return
        if e.kind == 'subq':
            out.append(ScalarUse(r.name, how, e.select, e, stmt))
            scan_select(e.select, stmt)
            return
        if e.kind == 'exists':
            scan_select(e.select, stmt)
            return
        if e.kind == 'in' and isinstance(e.items, N) and e.items.kind == 'subq':
            scan_expr(e.arg, stmt, how)
            scan_select(e.items.select, stmt)
            return
        if e.kind == 'select':
            scan_select(e, stmt)
            return
        if e.kind == 'derived':
            scan_select(e.select, stmt)
            return
        for c in _children(e):
            scan_expr(c, stmt, how)

    def scan_select(s: N, stmt: N) -> None:
        for k, v in s.__dict__.items():
            if k in ('kind', 'pos'):
                continue
            scan_expr(v, stmt, 'scalar sub-query')

    for st in sf.all_statements(a.body):
        if st.kind == 'select':
            if st.into:
                out.append(ScalarUse(r.name, 'SELECT .. INTO', st, st, st))
            scan_select(st, st)
        elif st.kind == 'return':
            v = st.value
            if isinstance(v, N) and v.kind == 'subq':
                out.append(ScalarUse(r.name, 'RETURN (SELECT ..)', v.select, v, st))
                scan_select(v.select, st)
            else:
                scan_expr(v, st, 'scalar sub-query in RETURN')
        elif st.kind in ('set', 'if', 'while', 'update', 'insert', 'delete', 'call'):
            for k, v in st.__dict__.items():
                if k in ('kind', 'pos', 'body', 'orelse'):
                    continue
                if st.kind == 'if' and k == 'branches':
                    for cond, _body in v:
                        scan_expr(cond, st, 'scalar sub-query in IF')
                    continue
                scan_expr(v, st, 'scalar sub-query')
    return out
