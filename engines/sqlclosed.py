"""Abstract interpretation of Python code that builds SQL condition strings: is a string, when spliced into `A AND <s> AND B`,
guaranteed to stay one conjunct?  ("closed under AND": its top-level operator binds at least as tightly as AND, or it is
wrapped in parentheses.)  Domain: True (closed) / False (may open the conjunction, e.g. a bare `x OR y`).
"""
from __future__ import annotations

import ast
from typing import Dict, List, Optional

from . import pyfacts as pf
from .common import AnalysisError
from .sqlast import Parser, SqlParseError


def _text_closed(sql: str) -> bool:
    """sql: SQL text where every f-string hole was replaced by ⟦n⟧."""
    t = sql.strip()
    if not t:
        return True
    try:
        p = Parser(t)
        e = p.expr()
        if not p.at_end():
            raise SqlParseError('trailing')
    except SqlParseError as ex:
        raise AnalysisError(f'condition fragment does not parse as an SQL expression: {t[:60]!r} ({ex})')
    # fully parenthesised?
    if t.startswith('('):
        depth = 0
        for i, ch in enumerate(t):
            if ch == '(':
                depth += 1
            elif ch == ')':
                depth -= 1
                if depth == 0:
                    if i == len(t) - 1:
                        return True
                    break
    return not (e.kind == 'bin' and e.op in ('OR', 'XOR', ':='))


class Closedness:
    def __init__(self, module: pf.Module, method_closed: Optional[Dict[str, bool]] = None):
        self.m = module
        self.method_closed = method_closed or {}

    def expr(self, e: ast.AST, env: Dict[str, bool]) -> bool:
        if isinstance(e, ast.Constant) and isinstance(e.value, str):
            return _text_closed(e.value)
        if isinstance(e, ast.JoinedStr):
            parts = []
            holes: List[ast.AST] = []
            for v in e.values:
                if isinstance(v, ast.Constant):
                    parts.append(str(v.value))
                elif isinstance(v, ast.FormattedValue):
                    holes.append(v.value)
                    parts.append(f' ⟦{len(holes) - 1}⟧ ')
            t = ''.join(parts).strip()
            if t.startswith('(') and _wrapped(t):
                return True
            # holes that are not closed themselves may not sit at the top level of the template
            open_holes = [i for i, h in enumerate(holes) if not self._hole_closed(h, env)]
            if not open_holes:
                return _text_closed(t)
            for i in open_holes:
                if not _hole_is_parenthesised(t, f'⟦{i}⟧'):
                    # e.g. f'NOT {cond}' with cond = 'a OR b'  ->  (NOT a) OR b
                    return False
            return _text_closed(t)
        if isinstance(e, ast.Name):
            if e.id in env:
                return env[e.id]
            raise AnalysisError(f'closedness of `{e.id}` unknown')
        if isinstance(e, ast.Call) and isinstance(e.func, ast.Attribute) and e.func.attr == 'join' and isinstance(e.func.value, ast.Constant):
            sep = str(e.func.value.value).strip().upper()
            if sep == 'AND':
                return True
            if sep in ('OR', 'XOR'):
                return False
            raise AnalysisError(f'join separator {sep!r}')
        if isinstance(e, ast.Call) and isinstance(e.func, ast.Attribute) and e.func.attr in ('strip', 'rstrip', 'lstrip') and not e.args:
            return self.expr(e.func.value, env)
        if isinstance(e, ast.IfExp):
            return self.expr(e.body, env) and self.expr(e.orelse, env)
        raise AnalysisError(f'closedness of `{pf.nsrc(e)[:60]}` cannot be decided')

    def _hole_closed(self, h: ast.AST, env: Dict[str, bool]) -> bool:
        # operators / column names / numbers spliced into a template are atoms
        if isinstance(h, ast.Name) and h.id in env:
            return env[h.id]
        return True

    def run(self, stmts, env: Dict[str, bool], sinks: List, sink_name: str) -> Dict[str, bool]:
        """Abstractly execute statements; record (closed?, node) for every `<sink_name>.append(x)` / list literal assigned to it."""
        for st in stmts:
            if isinstance(st, ast.Assign) and len(st.targets) == 1:
                t = st.targets[0]
                if isinstance(t, ast.Name):
                    if t.id == sink_name and isinstance(st.value, (ast.List, ast.Tuple)):
                        for x in st.value.elts:
                            sinks.append((self.expr(x, env), x))
                    elif isinstance(st.value, (ast.Constant, ast.JoinedStr, ast.Name, ast.IfExp)) or (isinstance(st.value, ast.Call) and isinstance(st.value.func, ast.Attribute)
                                                                                                    and st.value.func.attr in ('join', 'strip')):
                        try:
                            env[t.id] = self.expr(st.value, env)
                        except AnalysisError:
                            env.pop(t.id, None)
                    else:
                        env.pop(t.id, None)
                elif isinstance(t, ast.Tuple) and isinstance(st.value, ast.Call) and isinstance(st.value.func, ast.Attribute) and st.value.func.attr == 'query' and t.elts and isinstance(t.elts[0], ast.Name):
                    # cond, args = query.query()
                    env[t.elts[0].id] = all(self.method_closed.values()) if self.method_closed else False
                else:
                    for x in ast.walk(t):
                        if isinstance(x, ast.Name):
                            env.pop(x.id, None)
            elif isinstance(st, ast.AnnAssign) and isinstance(st.target, ast.Name) and st.value is not None:
                if st.target.id == sink_name and isinstance(st.value, (ast.List, ast.Tuple)):
                    for x in st.value.elts:
                        sinks.append((self.expr(x, env), x))
            elif isinstance(st, ast.Expr) and isinstance(st.value, ast.Call) and pf.dotted(st.value.func) == f'{sink_name}.append' and len(st.value.args) == 1:
                sinks.append((self.expr(st.value.args[0], env), st.value.args[0]))
            elif isinstance(st, ast.If):
                e1 = self.run(st.body, dict(env), sinks, sink_name)
                e2 = self.run(st.orelse, dict(env), sinks, sink_name)
                t1, t2 = _terminates(st.body), _terminates(st.orelse)
                if t1 and not t2:
                    env = e2
                elif t2 and not t1:
                    env = e1
                else:
                    env = {k: e1[k] and e2[k] for k in e1 if k in e2}
            elif isinstance(st, (ast.For, ast.While, ast.AsyncFor)):
                e1 = self.run(st.body, dict(env), sinks, sink_name)
                env = {k: e1[k] and env.get(k, e1[k]) for k in e1}
            elif isinstance(st, (ast.With, ast.AsyncWith, ast.Try)):
                body = list(st.body)
                env = self.run(body, env, sinks, sink_name)
                for h in getattr(st, 'handlers', []):
                    self.run(h.body, dict(env), sinks, sink_name)
        return env


def _terminates(stmts) -> bool:
    return bool(stmts) and isinstance(stmts[-1], (ast.Raise, ast.Return, ast.Continue, ast.Break))


def _wrapped(t: str) -> bool:
    depth = 0
    for i, ch in enumerate(t):
        if ch == '(':
            depth += 1
        elif ch == ')':
            depth -= 1
            if depth == 0:
                return i == len(t) - 1
    return False


def _hole_is_parenthesised(t: str, hole: str) -> bool:
    """Is the hole directly enclosed by parentheses inside the template, e.g. `(NOT (⟦0⟧))` or `(⟦0⟧)`?"""
    i = t.find(hole)
    if i < 0:
        return True
    left = t[:i].rstrip()
    right = t[i + len(hole):].lstrip()
    return left.endswith('(') and right.startswith(')')


def method_returns_closed(module: pf.Module, fn: pf.FuncDef) -> bool:
    """For `def query(self): ... return (sql, args)`: is the first tuple element closed on every return?"""
    c = Closedness(module)
    results: List[bool] = []

    def walk(stmts, env):
        for st in stmts:
            if isinstance(st, ast.Return):
                v = st.value
                if isinstance(v, ast.Tuple) and v.elts:
                    results.append(c.expr(v.elts[0], env))
                else:
                    raise AnalysisError(f'{fn.name}: return shape')
            elif isinstance(st, ast.If):
                e1, e2 = dict(env), dict(env)
                walk(st.body, e1)
                walk(st.orelse, e2)
                for k in list(env):
                    if k in e1 and k in e2:
                        env[k] = e1[k] and e2[k]
                for k in e1:
                    if k in e2 and k not in env:
                        env[k] = e1[k] and e2[k]
            elif isinstance(st, ast.Assign) and len(st.targets) == 1 and isinstance(st.targets[0], ast.Name):
                try:
                    env[st.targets[0].id] = c.expr(st.value, env)
                except AnalysisError:
                    env.pop(st.targets[0].id, None)
    walk(fn.body, {})
    if not results:
        raise AnalysisError(f'{fn.name}: no return found')
    return all(results)
