"""Evaluator for extracted SQL expression trees with MySQL three-valued logic (NULL = None),
booleans as integers 0/1.  Used to decide truth tables over finite domains; the SQL is never
sent to a database.
"""
from __future__ import annotations

from typing import Any, Callable, Dict, Optional

from .common import AnalysisError
from .sqlast import N, text

Env = Callable[[N], Any]


class Unbound(Exception):
    pass


def _truth(v: Any) -> Optional[bool]:
    if v is None:
        return None
    if isinstance(v, str):
        try:
            return float(v) != 0
        except ValueError:
            return False
    return bool(v)


def _b(v: Optional[bool]) -> Optional[int]:
    return None if v is None else int(v)


def _cmp_coerce(a: Any, b: Any):
    if isinstance(a, bool):
        a = int(a)
    if isinstance(b, bool):
        b = int(b)
    if isinstance(a, str) != isinstance(b, str):
        # MySQL compares string with number as numbers
        try:
            a = float(a)
            b = float(b)
        except (TypeError, ValueError):
            a = 0.0 if isinstance(a, str) else a
            b = 0.0 if isinstance(b, str) else b
    return a, b


def ev(e: N, env: Env) -> Any:
    k = e.kind
    if k == 'lit':
        if e.value is True:
            return 1
        if e.value is False:
            return 0
        return e.value
    if k in ('col', 'uvar', 'param', 'hole'):
        return env(e)
    if k == 'un':
        v = ev(e.arg, env)
        if e.op == 'NOT':
            t = _truth(v)
            return None if t is None else int(not t)
        if e.op == '-':
            return None if v is None else -v
        raise AnalysisError(f'sqleval: unary {e.op}')
    if k == 'isnull':
        v = ev(e.arg, env)
        return int((v is None) != e.negated)
    if k == 'bin':
        op = e.op
        if op == 'AND':
            a = _truth(ev(e.left, env))
            if a is False:
                return 0
            b = _truth(ev(e.right, env))
            if b is False:
                return 0
            if a is None or b is None:
                return None
            return 1
        if op == 'OR':
            a = _truth(ev(e.left, env))
            if a is True:
                return 1
            b = _truth(ev(e.right, env))
            if b is True:
                return 1
            if a is None or b is None:
                return None
            return 0
        if op == ':=':
            return ev(e.right, env)
        a = ev(e.left, env)
        b = ev(e.right, env)
        if op == '<=>':
            if a is None or b is None:
                return int(a is None and b is None)
            a, b = _cmp_coerce(a, b)
            return int(a == b)
        if a is None or b is None:
            return None
        if op in ('=', '!=', '<', '<=', '>', '>='):
            a, b = _cmp_coerce(a, b)
            if isinstance(a, str) and isinstance(b, str):
                a, b = a.lower(), b.lower()  # default collation is case-insensitive
            return int({'=': a == b, '!=': a != b, '<': a < b, '<=': a <= b, '>': a > b, '>=': a >= b}[op])
        if isinstance(a, bool):
            a = int(a)
        if isinstance(b, bool):
            b = int(b)
        if op == '+':
            return a + b
        if op == '-':
            return a - b
        if op == '*':
            return a * b
        if op == 'DIV':
            return None if b == 0 else int(a / b)
        if op == '/':
            return None if b == 0 else a / b
        if op in ('%', 'MOD'):
            return None if b == 0 else a - b * int(a / b)
        raise AnalysisError(f'sqleval: operator {op}')
    if k == 'in':
        if not isinstance(e.items, list):
            raise AnalysisError('sqleval: IN subquery')
        a = ev(e.arg, env)
        if a is None:
            return None
        saw_null = False
        hit = False
        for it in e.items:
            b = ev(it, env)
            if b is None:
                saw_null = True
                continue
            x, y = _cmp_coerce(a, b)
            if isinstance(x, str) and isinstance(y, str):
                x, y = x.lower(), y.lower()
            if x == y:
                hit = True
        if hit:
            return int(not e.negated)
        if saw_null:
            return None
        return int(e.negated)
    if k == 'func':
        name = e.name
        if name == 'COALESCE' or name == 'IFNULL':
            for a in e.args:
                v = ev(a, env)
                if v is not None:
                    return v
            return None
        if name == 'IF':
            c = _truth(ev(e.args[0], env))
            return ev(e.args[1], env) if c else ev(e.args[2], env)
        if name in ('GREATEST', 'LEAST'):
            vals = [ev(a, env) for a in e.args]
            if any(v is None for v in vals):
                return None
            return max(vals) if name == 'GREATEST' else min(vals)
        raise Unbound(f'function {name}')
    if k == 'cast':
        return ev(e.arg, env)
    if k == 'case':
        if e.arg is not None:
            base = ev(e.arg, env)
            for c, v in e.whens:
                cv = ev(c, env)
                if base is not None and cv is not None and _cmp_coerce(base, cv)[0] == _cmp_coerce(base, cv)[1]:
                    return ev(v, env)
        else:
            for c, v in e.whens:
                if _truth(ev(c, env)):
                    return ev(v, env)
        return ev(e.default, env) if e.default is not None else None
    raise Unbound(f'expression kind {k}: {text(e)[:60]}')


def truth(e: N, env: Env) -> Optional[bool]:
    return _truth(ev(e, env))


# --------------------------------------------------------------------------------------
# may-analysis: which truth values can a guard take when only some atoms are known
# --------------------------------------------------------------------------------------
UNKNOWN = object()


def may(e: N, known: Callable[[N], Any]) -> set:
    """Possible truth values {True, False} of a guard; `known(node)` returns a value or UNKNOWN for
    column/variable/param nodes.  NULL guards count as False (MySQL IF/WHERE semantics)."""
    k = e.kind
    if k == 'un' and e.op == 'NOT':
        inner = may3(e.arg, known)
        out = set()
        for v in inner:
            out.add(False if v is None else (not v))
        return {bool(x) for x in out}
    vals = may3(e, known)
    return {bool(v) if v is not None else False for v in vals}


def may3(e: N, known: Callable[[N], Any]) -> set:
    """Possible three-valued results {True, False, None}."""
    k = e.kind
    if k == 'bin' and e.op in ('AND', 'OR'):
        a = may3(e.left, known)
        b = may3(e.right, known)
        out = set()
        for x in a:
            for y in b:
                if e.op == 'AND':
                    if x is False or y is False:
                        out.add(False)
                    elif x is None or y is None:
                        out.add(None)
                    else:
                        out.add(True)
                else:
                    if x is True or y is True:
                        out.add(True)
                    elif x is None or y is None:
                        out.add(None)
                    else:
                        out.add(False)
        return out
    if k == 'un' and e.op == 'NOT':
        return {None if v is None else (not v) for v in may3(e.arg, known)}
    # leaf predicate: decidable iff every atom in it is known
    atoms = [n for n in e.walk() if n.kind in ('col', 'uvar', 'param', 'hole')]
    subq = any(n.kind in ('subq', 'exists', 'select') for n in e.walk())
    if subq:
        return {True, False, None}
    vals = {}
    for a in atoms:
        v = known(a)
        if v is UNKNOWN:
            return {True, False, None}
        vals[id(a)] = v
    try:
        r = ev(e, lambda n: vals[id(n)])
    except Unbound:
        return {True, False, None}
    return {_truth(r)}
