"""Evaluator for extracted SQL expression trees with MySQL three-valued logic (NULL = None),
booleans as integers 0/1.  Used to decide truth tables over finite domains; the SQL is never
sent to a database.
"""
from __future__ import annotations

from typing import Any, Callable, Dict, Optional

from .common import AnalysisError
from .sqlast import N, text

Env = Callable[[N], Any]


class Unbound(Exception):
    pass


def _truth(v: Any) -> Optional[bool]:
    if v is None:
        return None
    if isinstance(v, str):
        try:
            return float(v) != 0
        except ValueError:
            return False
    return bool(v)


def _b(v: Optional[bool]) -> Optional[int]:
    return None if v is None else int(v)


def _cmp_coerce(a: Any, b: Any):
    if isinstance(a, bool):
        a = int(a)
    if isinstance(b, bool):
        b = int(b)
    if isinstance(a, str) != isinstance(b, str):
        # MySQL compares string with number as numbers
        try:
            a = float(a)
            b = float(b)
        except (TypeError, ValueError):
            a = 0.0 if isinstance(a, str) else a
            b = 0.0 if isinstance(b, str) else b
    return a, b


def ev(e: N, env: Env) -> Any:
    k = e.kind
    if k == 'lit':
        if e.value is True:
            return 1
        if e.value is False:
            return 0
        return e.value
    if k in ('col', 'uvar', 'param', 'hole'):
        return env(e)
    if k == 'un':
        v = ev(e.arg, env)
        if e.op == 'NOT':
            t = _truth(v)
            return None if t is None else int(not t)
        if e.op == '-':
            return None if v is None else -v
        raise AnalysisError(f'sqleval: unary {e.op}')
    if k == 'isnull':
        v = ev(e.arg, env)
        return int((v is None) != e.negated)
    if k == 'bin':
        op = e.op
        if op == 'AND':
            a = _truth(ev(e.left, env))
            if a is False:
                return 0
            b = _truth(ev(e.right, env))
            if b is False:
                return 0
            if a is None or b is None:
                return None
            return 1
        if op == 'OR':
            a = _truth(ev(e.left, env))
            if a is True:
                return 1
            b = _truth(ev(e.right, env))
            if b is True:
                return 1
            if a is None or b is None:
                return None
            return 0
        if op == ':=':
            return ev(e.right, env)
        a = ev(e.left, env)
        b = ev(e.right, env)
        if op == '<=>':
            if a is None or b is None:
                return int(a is None and b is None)
            a, b = _cmp_coerce(a, b)
            return int(a == b)
        if a is None or b is None:
            return None
        if op in ('=', '!=', '<', '<=', '>', '>='):
            a, b = _cmp_coerce(a, b)
            if isinstance(a, str) and isinstance(b, str):
                a, b = a.lower(), b.lower()  # default collation is case-insensitive
            return int({'=': a == b, '!=': a != b, '<': a < b, '<=': a <= b, '>': a > b, '>=': a >= b}[op])
        if isinstance(a, bool):
            a = int(a)
        if isinstance(b, bool):
            b = int(b)
        if op == '+':
            return a + b
        if op == '-':
            return a - b
        if op == '*':
            return a * b
        if op == 'DIV':
            return None if b == 0 else int(a / b)
        if op == '/':
            return None if b == 0 else a / b
        if op in ('%', 'MOD'):
            return None if b == 0 else a - b * int(a / b)
        raise AnalysisError(f'sqleval: operator {op}')
    if k == 'in':
        if not isinstance(e.items, list):
            raise AnalysisError('sqleval: IN subquery')
        a = ev(e.arg, env)
        if a is None:
            return None
        saw_null = False
        hit = False
        for it in e.items:
            b = ev(it, env)
            if b is None:
                saw_null = True
                continue
            x, y = _cmp_coerce(a, b)
            if isinstance(x, str) and isinstance(y, str):
                x, y = x.lower(), y.lower()
            if x == y:
                hit = True
        if hit:
            return int(not e.negated)
        if saw_null:
            return None
        return int(e.negated)
    if k == 'func':
        name = e.name
        if name == 'COALESCE' or name == 'IFNULL':
            for a in e.args:
                v = ev(a, env)
                if v is not None:
                    return v
            return None
        if name == 'IF':
            c = _truth(ev(e.args[0], env))
            return ev(e.args[1], env) if c else ev(e.args[2], env)
        if name in ('GREATEST', 'LEAST'):
            vals = [ev(a, env) for a in e.args]
            if any(v is None for v in vals):
                return None
            return max(vals) if name == 'GREATEST' else min(vals)
        raise Unbound(f'function {name}')
    if k == 'cast':
        return ev(e.arg, env)
    if k == 'case':
        if e.arg is not None:
            base = ev(e.arg, env)
            for c, v in e.whens:
                cv = ev(c, env)
                if base is not None and cv is not None and _cmp_coerce(base, cv)[0] == _cmp_coerce(base, cv)[1]:
                    return ev(v, env)
        else:
            for c, v in e.whens:
                if _truth(ev(c, env)):
                    return ev(v, env)
        return ev(e.default, env) if e.default is not None else None
    raise Unbound(f'expression kind {k}: {text(e)[:60]}')


def truth(e: N, env: Env) -> Optional[bool]:
    return _truth(ev(e, env))
