"""The SQL program of the batch service.

 * migration replay: the ordered script list of the `batch` database step in build.yaml,
   split on DELIMITER, last CREATE/DROP of each routine wins  -> effective routines
 * embedded SQL: first argument of db/tx execute-style calls in Python, parsed with sqlast
 * small helpers over the SQL AST (tables written, conjuncts, substitution)
"""
from __future__ import annotations

import ast
import os
import re
from typing import Any, Callable, Dict, Iterator, List, Optional, Sequence, Set, Tuple

from . import pyfacts as pf
from .common import AnalysisError, AnchorRemoved, norm, read_repo, repo_path
from .sqlast import N, Parser, SqlParseError, parse_routine, parse_statements, text, tokenize

# --------------------------------------------------------------------------------------
# migration replay
# --------------------------------------------------------------------------------------


def migration_list(database: str = 'batch') -> List[str]:
    """Script names of the createDatabase2 step for `database`, in order (parsed from build.yaml text
    structurally: the step's `migrations:` list of `script:` entries)."""
    y = read_repo('build.yaml')
    lines = y.splitlines()
    # locate "databaseName: <database>"
    idx = [i for i, l in enumerate(lines) if re.fullmatch(r'\s*databaseName:\s*' + re.escape(database) + r'\s*', l)]
    if len(idx) != 1:
        raise AnalysisError(f'build.yaml: expected exactly one createDatabase2 step with databaseName {database}, found {len(idx)}')
    i = idx[0]
    # walk forward to migrations:
    j = i
    while j < len(lines) and not re.fullmatch(r'\s*migrations:\s*', lines[j]):
        j += 1
        if j - i > 40:
            raise AnalysisError('build.yaml: migrations: list not found near databaseName')
    indent = len(lines[j]) - len(lines[j].lstrip())
    scripts: List[str] = []
    k = j + 1
    while k < len(lines):
        l = lines[k]
        if l.strip() and (len(l) - len(l.lstrip())) <= indent and not l.lstrip().startswith('- '):
            break
        if l.strip() and (len(l) - len(l.lstrip())) < indent:
            break
        m = re.fullmatch(r'\s*script:\s*/io/sql/(\S+)\s*', l)
        if m:
            scripts.append(m.group(1))
        k += 1
    if len(scripts) < 100:
        raise AnalysisError(f'build.yaml: only {len(scripts)} migration scripts found for {database}')
    return scripts


def split_sql_script(src: str) -> List[str]:
    """Split a mysql-client script into statements honouring DELIMITER, comments and quotes."""
    delim = ';'
    out: List[str] = []
    buf: List[str] = []
    i = 0
    n = len(src)
    line_start = True
    while i < n:
        if line_start:
            m = re.match(r'[ \t]*DELIMITER[ \t]+(\S+)[ \t]*(?:\n|$)', src[i:], re.I)
            if m:
                if ''.join(buf).strip():
                    out.append(''.join(buf))
                buf = []
                delim = m.group(1)
                i += m.end()
                continue
        c = src[i]
        line_start = c == '\n'
        if c in ('#',) or src.startswith('-- ', i) or src.startswith('--\n', i):
            j = src.find('\n', i)
            j = n if j < 0 else j
            buf.append(src[i:j])
            i = j
            continue
        if src.startswith('/*', i):
            j = src.find('*/', i + 2)
            j = n if j < 0 else j + 2
            buf.append(src[i:j])
            i = j
            continue
        if c in ('"', "'", '`'):
            j = i + 1
            while j < n:
                if src[j] == '\\' and c != '`':
                    j += 2
                    continue
                if src[j] == c:
                    if j + 1 < n and src[j + 1] == c:
                        j += 2
                        continue
                    break
                j += 1
            buf.append(src[i:j + 1])
            i = j + 1
            continue
        if src.startswith(delim, i):
            if ''.join(buf).strip():
                out.append(''.join(buf))
            buf = []
            i += len(delim)
            continue
        buf.append(c)
        i += 1
    if ''.join(buf).strip():
        out.append(''.join(buf))
    return out


_HEAD_RE = re.compile(r'\s*(CREATE|DROP)\s+(?:DEFINER\s*=\s*\S+\s+)?(PROCEDURE|FUNCTION|TRIGGER)\s+(?:IF\s+(?:NOT\s+)?EXISTS\s+)?`?([A-Za-z_0-9]+)`?', re.I)


def _strip_leading_comments(s: str) -> str:
    while True:
        t = s.lstrip()
        if t.startswith('#') or t.startswith('-- '):
            j = t.find('\n')
            s = '' if j < 0 else t[j + 1:]
        elif t.startswith('/*'):
            j = t.find('*/')
            s = '' if j < 0 else t[j + 2:]
        else:
            return t


class Routine:
    def __init__(self, name: str, kind: str, file: str, sql: str, line: int):
        self.name = name
        self.kind = kind
        self.file = file  # repo-relative
        self.sql = sql
        self.line = line
        self._ast: Optional[N] = None

    @property
    def ast(self) -> N:
        if self._ast is None:
            try:
                self._ast = parse_routine(self.sql)
            except SqlParseError as e:
                raise AnalysisError(f'effective routine {self.name} ({self.file}) does not parse: {e}') from e
        return self._ast

    def line_of(self, node: N) -> int:
        pos = getattr(node, 'pos', None)
        if pos is None:
            return self.line
        return self.line + self.sql[:pos].count('\n')


class SqlProgram:
    def __init__(self, routines: Dict[str, Routine], scripts: List[str], py_migrations: List[str], tables: Dict[str, List[str]], dropped: Optional[Dict[str, str]] = None):
        self.routines = routines
        self.dropped = dropped or {}
        self.scripts = scripts
        self.py_migrations = py_migrations
        self.tables = tables

    def routine(self, name: str) -> Routine:
        if name not in self.routines:
            if name in self.dropped:
                raise AnchorRemoved(f'{self.dropped[name]}::DROP {name}', f'{name} is dropped by migration {self.dropped[name]} and not re-created by it or any later migration: '
                                    f'everything {name} maintained stops being maintained', self.dropped[name], 0)
            raise AnalysisError(f'anchor vanished: no effective SQL routine named {name}')
        return self.routines[name]

    def triggers_on(self, table: str, event: str) -> List[Routine]:
        out = []
        for r in self.routines.values():
            if r.kind == 'trigger':
                a = r.ast
                if a.table.lower() == table.lower() and a.event == event:
                    out.append(r)
        return out


_prog_cache: Dict[str, SqlProgram] = {}


def load_program(database: str = 'batch', sql_dir: str = 'batch/sql') -> SqlProgram:
    if database in _prog_cache:
        return _prog_cache[database]
    scripts = migration_list(database)
    routines: Dict[str, Routine] = {}
    dropped: Dict[str, str] = {}
    py_migs: List[str] = []
    tables: Dict[str, List[str]] = {}
    for s in scripts:
        rel = f'{sql_dir}/{s}'
        if s.endswith('.py'):
            py_migs.append(rel)
            src = read_repo(rel)
            if re.search(r'CREATE\s+(PROCEDURE|FUNCTION|TRIGGER)', src, re.I):
                raise AnalysisError(f'python migration {rel} defines a stored routine: not handled')
            continue
        src = read_repo(rel)
        offset = 0
        chunks: List[str] = []
        for stmt in split_sql_script(src):
            # Under a non-';' DELIMITER the mysql client sends `DROP ...; CREATE TRIGGER ... END` as one
            # multi-statement query: split leading non-routine statements off at top-level ';'.
            rest = stmt
            while True:
                body = _strip_leading_comments(rest)
                mh = _HEAD_RE.match(body)
                if mh and mh.group(1).upper() == 'CREATE':
                    chunks.append(body)
                    break
                parts = split_sql_script(body) if ';' in body else [body]
                if len(parts) <= 1:
                    chunks.append(body)
                    break
                chunks.append(parts[0])
                k = body.find(parts[0]) + len(parts[0])
                k = body.find(';', k) + 1
                rest = body[k:]
                if not rest.strip():
                    break
        for body in chunks:
            body = _strip_leading_comments(body)
            m = _HEAD_RE.match(body)
            if m:
                verb, kind, name = m.group(1).upper(), m.group(2).lower(), m.group(3)
                if verb == 'DROP':
                    if routines.pop(name, None) is not None:
                        dropped[name] = rel
                else:
                    dropped.pop(name, None)
                    pos = src.find(body[:200])
                    line = src[:pos].count('\n') + 1 if pos >= 0 else 1
                    routines[name] = Routine(name, kind, rel, body, line)
                continue
            m2 = re.match(r'\s*CREATE\s+TABLE\s+(?:IF\s+NOT\s+EXISTS\s+)?`?([A-Za-z_0-9]+)`?', body, re.I)
            if m2:
                tables[m2.group(1)] = _table_columns(body)
            m3 = re.match(r'\s*DROP\s+TABLE\s+(?:IF\s+EXISTS\s+)?`?([A-Za-z_0-9]+)`?', body, re.I)
            if m3:
                tables.pop(m3.group(1), None)
            # RENAME TABLE a TO b, c TO d, ...   and   ALTER TABLE a RENAME [TO|AS] b
            mr = re.match(r'\s*RENAME\s+TABLE\s+(.*)$', body, re.I | re.S)
            if mr:
                for a, b in re.findall(r'`?([A-Za-z_0-9]+)`?\s+TO\s+`?([A-Za-z_0-9]+)`?', mr.group(1), re.I):
                    if a in tables:
                        tables[b] = tables.pop(a)
            m4 = re.match(r'\s*ALTER\s+TABLE\s+`?([A-Za-z_0-9]+)`?\s+RENAME\s+(?:TO\s+|AS\s+)?`?([A-Za-z_0-9]+)`?\s*;?\s*$', body, re.I)
            if m4 and m4.group(1) in tables:
                tables[m4.group(2)] = tables.pop(m4.group(1))
            m5 = re.match(r'\s*ALTER\s+TABLE\s+`?([A-Za-z_0-9]+)`?', body, re.I)
            if m5 and m5.group(1) in tables:
                for mm in re.finditer(r'ADD\s+COLUMN\s+`?([A-Za-z_0-9]+)`?', body, re.I):
                    if mm.group(1) not in tables[m5.group(1)]:
                        tables[m5.group(1)].append(mm.group(1))
                for mm in re.finditer(r'DROP\s+COLUMN\s+`?([A-Za-z_0-9]+)`?', body, re.I):
                    if mm.group(1) in tables[m5.group(1)]:
                        tables[m5.group(1)].remove(mm.group(1))
    prog = SqlProgram(routines, scripts, py_migs, tables, dropped)
    _prog_cache[database] = prog
    return prog


def _table_columns(create: str) -> List[str]:
    i = create.find('(')
    if i < 0:
        return []
    depth = 0
    cols: List[str] = []
    cur = ''
    for c in create[i:]:
        if c == '(':
            depth += 1
            if depth == 1:
                continue
        elif c == ')':
            depth -= 1
            if depth == 0:
                break
        if c == ',' and depth == 1:
            cols.append(cur)
            cur = ''
        else:
            cur += c
    cols.append(cur)
    out = []
    for c in cols:
        m = re.match(r'\s*`([A-Za-z_0-9]+)`', c) or re.match(r'\s*([A-Za-z_0-9]+)\s', c)
        if m and m.group(1).upper() not in ('PRIMARY', 'KEY', 'UNIQUE', 'FOREIGN', 'INDEX', 'CONSTRAINT', 'FULLTEXT', 'CHECK'):
            out.append(m.group(1))
    return out


# --------------------------------------------------------------------------------------
# embedded SQL
# --------------------------------------------------------------------------------------

EXEC_METHODS = {
    'just_execute', 'execute_and_fetchone', 'execute_and_fetchall', 'select_and_fetchone', 'select_and_fetchall',
    'execute_update', 'execute_insertone', 'execute_many', 'check_call_procedure', 'execute', 'executemany',
}


class Embedded:
    """One SQL string passed to an execute-style call."""

    def __init__(self, module: pf.Module, fn: Optional[pf.FuncDef], call: ast.Call, method: str, receiver: str,
                 sql_text: Optional[str], holes: List[ast.expr], how: str):
        self.module = module
        self.fn = fn
        self.call = call
        self.method = method
        self.receiver = receiver
        self.sql_text = sql_text  # None if opaque
        self.holes = holes
        self.how = how  # literal | variable | fstring | opaque
        self._stmts: Optional[List[N]] = None
        self.parse_error: Optional[str] = None

    @property
    def qual(self) -> str:
        return self.module.qualname(self.fn) if self.fn is not None else '<module>'

    @property
    def lineno(self) -> int:
        return self.call.lineno

    def stmts(self) -> List[N]:
        if self._stmts is None:
            if self.sql_text is None:
                self._stmts = []
                self.parse_error = 'opaque SQL (not a literal)'
            else:
                try:
                    self._stmts = parse_statements(self.sql_text)
                except SqlParseError as e:
                    self._stmts = []
                    self.parse_error = str(e)
        return self._stmts

    def key(self) -> str:
        return f'{self.module.rel}::{self.qual}::{norm(self.sql_text or pf.nsrc(self.call.args[0]))[:120]}'


def _sql_of_expr(fn: Optional[pf.FuncDef], e: ast.expr, depth: int = 0) -> Tuple[Optional[str], List[ast.expr], str]:
    s = pf.const_str(e)
    if s is not None:
        return s, [], 'literal'
    if isinstance(e, ast.JoinedStr):
        holes: List[ast.expr] = []

        def hole(x: ast.expr) -> str:
            # a hole whose value is itself a resolvable SQL literal is spliced in
            if fn is not None and isinstance(x, ast.Name):
                d = pf.single_def(fn, x.id)
                if isinstance(d, ast.expr):
                    sub = pf.const_str(d)
                    if sub is not None:
                        return sub
            holes.append(x)
            return f' ⟦{len(holes) - 1}⟧ '

        t = pf.fstring_template(e, hole)
        if t is not None:
            return t, holes, 'fstring'
    if isinstance(e, ast.Name) and fn is not None and depth < 2:
        d = pf.single_def(fn, e.id)
        if isinstance(d, ast.expr):
            t, holes, how = _sql_of_expr(fn, d, depth + 1)
            if t is not None:
                return t, holes, 'variable' if how == 'literal' else how
    return None, [], 'opaque'


_emb_cache: Dict[str, List['Embedded']] = {}


def embedded_in(module: pf.Module) -> List[Embedded]:
    if module.path in _emb_cache:
        return _emb_cache[module.path]
    out: List[Embedded] = []
    _emb_cache[module.path] = out
    for node in ast.walk(module.tree):
        if isinstance(node, ast.Call) and isinstance(node.func, ast.Attribute) and node.func.attr in EXEC_METHODS and node.args:
            recv = pf.dotted(node.func.value) or pf.nsrc(node.func.value)
            fn = module.enclosing_func(node)
            sql, holes, how = _sql_of_expr(fn, node.args[0])
            if how == 'opaque':
                # not SQL at all?  (e.g. subprocess-like .execute of other objects) keep only db-ish receivers
                pass
            out.append(Embedded(module, fn, node, node.func.attr, recv, sql, holes, how))
    return out


# --------------------------------------------------------------------------------------
# AST helpers
# --------------------------------------------------------------------------------------


def conjuncts(e: Optional[N]) -> List[N]:
    if e is None:
        return []
    if e.kind == 'bin' and e.op == 'AND':
        return conjuncts(e.left) + conjuncts(e.right)
    return [e]


def disjuncts(e: Optional[N]) -> List[N]:
    if e is None:
        return []
    if e.kind == 'bin' and e.op == 'OR':
        return disjuncts(e.left) + disjuncts(e.right)
    return [e]


def from_tables(frm: Optional[N]) -> List[N]:
    """All table/derived refs of a FROM clause (flattening nested from nodes)."""
    if frm is None:
        return []
    out: List[N] = []

    def rec(ref: N):
        if ref.kind == 'from':
            rec(ref.first)
            for j in ref.joins:
                rec(j.ref)
        else:
            out.append(ref)

    rec(frm)
    return out


def table_names(frm: Optional[N]) -> List[str]:
    return [t.name for t in from_tables(frm) if t.kind == 'table']


def written_tables(st: N) -> List[Tuple[str, str]]:
    """(table, verb) written directly by one statement."""
    if st.kind == 'insert':
        return [(st.table, 'insert')]
    if st.kind == 'delete':
        if st.targets:
            names = {t.alias or t.name: t.name for t in from_tables(st.frm) if t.kind == 'table'}
            return [(names.get(x, x), 'delete') for x in st.targets]
        return [(st.frm.first.name, 'delete')] if st.frm.first.kind == 'table' else []
    if st.kind == 'update':
        tabs = [t for t in from_tables(st.frm) if t.kind == 'table']
        alias = {(t.alias or t.name).lower(): t.name for t in tabs}
        out = []
        for c, _ in st.sets:
            if c.kind == 'col' and len(c.parts) > 1:
                q = c.parts[-2].lower()
                tn = alias.get(q, c.parts[-2])
            else:
                tn = tabs[0].name if tabs else '?'
            if (tn, 'update') not in out:
                out.append((tn, 'update'))
        return out
    return []


def all_statements(body: Sequence[N]) -> Iterator[N]:
    """Every statement in a routine body, descending into IF/LOOP/BLOCK."""
    for st in body:
        yield st
        if st.kind == 'if':
            for _, b in st.branches:
                yield from all_statements(b)
            if st.orelse is not None:
                yield from all_statements(st.orelse)
        elif st.kind in ('loop', 'while', 'block'):
            yield from all_statements(st.body)
        elif st.kind == 'declare_handler':
            yield from all_statements([st.stmt])


def _always_exits(body: Sequence[N]) -> bool:
    """The block cannot fall through: it ends in LEAVE / ITERATE / SIGNAL / RESIGNAL / RETURN, or in an IF all of whose branches
    (ELSE included) do."""
    if not body:
        return False
    last = body[-1]
    if last.kind in ('leave', 'iterate', 'signal', 'resignal', 'return'):
        return True
    if last.kind == 'if':
        return last.orelse is not None and all(_always_exits(b) for _, b in last.branches) and _always_exits(last.orelse)
    return False


def guarded_statements(body: Sequence[N], guard: Tuple[Tuple[N, bool], ...] = ()) -> Iterator[Tuple[N, Tuple[Tuple[N, bool], ...]]]:
    """(statement, path condition) where the path condition is a tuple of (IF-predicate, polarity).
    Early exits are honoured: after `IF c THEN ... LEAVE l; END IF;` (or SIGNAL / RETURN / ITERATE) the remaining statements of the same
    block run only when c was false, so they carry (c, False) -- the guard-clause spelling of `IF NOT c THEN <rest> END IF`."""
    extra: Tuple[Tuple[N, bool], ...] = ()
    for st in body:
        g = guard + extra
        if st.kind == 'if':
            neg: Tuple[Tuple[N, bool], ...] = ()
            single_exit = len(st.branches) == 1 and st.orelse is None and _always_exits(st.branches[0][1])
            for c, b in st.branches:
                yield from guarded_statements(b, g + neg + ((c, True),))
                neg = neg + ((c, False),)
            if st.orelse is not None:
                yield from guarded_statements(st.orelse, g + neg)
            if single_exit:
                extra = extra + ((st.branches[0][0], False),)
            elif st.orelse is None and st.branches and all(_always_exits(b) for _, b in st.branches):
                extra = extra + neg  # IF a THEN exit ELSEIF b THEN exit END IF: the rest runs under NOT a AND NOT b
        elif st.kind in ('loop', 'while', 'block'):
            yield st, g
            yield from guarded_statements(st.body, g)
        else:
            yield st, g


def subst(e: Any, f: Callable[[N], Optional[N]]) -> Any:
    """Rebuild an expression applying f to every node bottom-up (f returns a replacement or None)."""
    if isinstance(e, list):
        return [subst(x, f) for x in e]
    if isinstance(e, tuple):
        return tuple(subst(x, f) for x in e)
    if not isinstance(e, N):
        return e
    new = N(e.kind, **{k: subst(v, f) for k, v in e.fields().items()})
    for k in ('pos', 'src'):
        if hasattr(e, k):
            setattr(new, k, getattr(e, k))
    r = f(new)
    return r if r is not None else new


def cols_in(e: Any) -> List[N]:
    if isinstance(e, (list, tuple)):
        out: List[N] = []
        for x in e:
            out += cols_in(x)
        return out
    if not isinstance(e, N):
        return []
    return [n for n in e.walk() if n.kind == 'col']


# --------------------------------------------------------------------------------------
# SQL templates anywhere in a module (query builders return SQL strings instead of executing them)
# --------------------------------------------------------------------------------------
_SQLISH = re.compile(r'\b(SELECT|INSERT|UPDATE|DELETE|CALL)\b')


class Template:
    def __init__(self, module: pf.Module, fn: Optional[pf.FuncDef], node: ast.expr, sql_text: str, holes: List[ast.expr]):
        self.module = module
        self.fn = fn
        self.node = node
        self.sql_text = sql_text
        self.holes = holes
        self._stmts: Optional[List[N]] = None
        self.parse_error: Optional[str] = None

    @property
    def qual(self) -> str:
        return self.module.qualname(self.fn) if self.fn is not None else '<module>'

    @property
    def lineno(self) -> int:
        return self.node.lineno

    def stmts(self) -> List[N]:
        if self._stmts is None:
            try:
                self._stmts = parse_statements(self.sql_text)
            except SqlParseError as e:
                self._stmts = []
                self.parse_error = str(e)
        return self._stmts


def templates_in(module: pf.Module, must_contain: Sequence[str] = ()) -> List[Template]:
    """Top-level string constants / f-strings that look like SQL (not nested inside another string expression)."""
    out: List[Template] = []
    par = module.parents()
    for node in ast.walk(module.tree):
        if not isinstance(node, (ast.Constant, ast.JoinedStr)):
            continue
        if isinstance(node, ast.Constant) and not isinstance(node.value, str):
            continue
        p = par.get(node)
        if isinstance(p, (ast.JoinedStr, ast.FormattedValue)):
            continue
        if isinstance(p, ast.Expr):
            continue  # docstring / bare string
        fn = module.enclosing_func(node)
        sql, holes, how = _sql_of_expr(fn, node)
        if sql is None or not _SQLISH.search(sql):
            continue
        if must_contain and not any(k in sql for k in must_contain):
            continue
        out.append(Template(module, fn, node, sql, holes))
    return out
