"""Reusable building blocks for rules over the SQL program (and its Python call sites)."""
from __future__ import annotations

import ast
from typing import Any, Callable, Dict, List, Optional, Sequence, Tuple

from . import pyfacts as pf
from . import sqlfront as sf
from .common import AnalysisError
from .sqlast import N, text


def is_var(e: N, name: Optional[str] = None) -> bool:
    return e.kind == 'col' and len(e.parts) == 1 and (name is None or e.parts[0].lower() == name.lower())


def declared_vars(routine: N) -> List[str]:
    out = [p[1].lower() for p in getattr(routine, 'params', [])]
    for st in sf.all_statements(routine.body):
        if st.kind == 'declare':
            out += [n.lower() for n in st.names]
    return out


def inline_sets(body: Sequence[N], variables: Sequence[str]) -> Dict[str, N]:
    """Top-level straight-line `SET v = e` definitions with earlier ones substituted in.
    A variable assigned more than once, or inside a branch, is left out (opaque)."""
    counts: Dict[str, int] = {}
    for st in sf.all_statements(body):
        if st.kind == 'set':
            for t, _ in st.assigns:
                if is_var(t):
                    counts[t.parts[0].lower()] = counts.get(t.parts[0].lower(), 0) + 1
        elif st.kind == 'select' and st.into:
            for t in st.into:
                if is_var(t):
                    counts[t.parts[0].lower()] = counts.get(t.parts[0].lower(), 0) + 1
    env: Dict[str, N] = {}
    vs = {v.lower() for v in variables}

    def repl(n: N) -> Optional[N]:
        if is_var(n) and n.parts[0].lower() in env:
            return env[n.parts[0].lower()]
        return None

    for st in body:
        if st.kind == 'set':
            for t, v in st.assigns:
                if is_var(t) and t.parts[0].lower() in vs and counts.get(t.parts[0].lower()) == 1:
                    env[t.parts[0].lower()] = sf.subst(v, repl)
    return env


def inline_expr(e: N, env: Dict[str, N]) -> N:
    def repl(n: N) -> Optional[N]:
        if is_var(n) and n.parts[0].lower() in env:
            return env[n.parts[0].lower()]
        return None
    return sf.subst(e, repl)


def strip_assign(e: N) -> Tuple[N, Optional[str]]:
    """`(@v := x)` -> (x, 'v')."""
    if e.kind == 'bin' and e.op == ':=' and e.left.kind == 'uvar':
        return e.right, e.left.name
    return e, None


def insert_colmap(st: N) -> Tuple[Dict[str, N], Dict[str, N], Dict[str, N]]:
    """For INSERT ... (cols) VALUES(row)|SELECT: (col -> inserted expr, col -> on-dup expr, uvar -> defining expr)."""
    if st.kind != 'insert' or st.cols is None:
        raise AnalysisError(f'insert without explicit column list: {text(st)[:80]}')
    if st.select is not None:
        exprs = [c for c, _ in st.select.cols]
    else:
        if len(st.rows) != 1:
            raise AnalysisError(f'multi-row insert unsupported here: {text(st)[:80]}')
        exprs = st.rows[0]
    if len(exprs) != len(st.cols):
        raise AnalysisError(f'insert column/value count mismatch ({len(st.cols)} vs {len(exprs)}): {text(st)[:80]}')
    ins = {c.lower(): e for c, e in zip(st.cols, exprs)}
    uvars: Dict[str, N] = {}
    for e in exprs:
        for n in e.walk():
            if n.kind == 'bin' and n.op == ':=' and n.left.kind == 'uvar':
                uvars[n.left.name.lower()] = n.right
    dup = {}
    for c, v in st.on_dup:
        if c.kind != 'col':
            raise AnalysisError('on duplicate key update target is not a column')
        dup[c.parts[-1].lower()] = v
    return ins, dup, uvars


def signed_term(e: N, uvars: Dict[str, N]) -> Tuple[int, N]:
    """Normalise  -1 * x | x * -1 | -x | (@v := x) | @v  to (sign, x)."""
    sign = 1
    cur = e
    while True:
        cur, _ = strip_assign(cur)
        if cur.kind == 'uvar' and cur.name.lower() in uvars:
            cur = uvars[cur.name.lower()]
            continue
        if cur.kind == 'un' and cur.op == '-':
            sign = -sign
            cur = cur.arg
            continue
        if cur.kind == 'bin' and cur.op == '*':
            l, r = cur.left, cur.right
            if l.kind == 'lit' and l.value in (1, -1):
                sign *= l.value
                cur = r
                continue
            if r.kind == 'lit' and r.value in (1, -1):
                sign *= r.value
                cur = l
                continue
        return sign, cur


def dup_increment(col: str, e: N, uvars: Dict[str, N]) -> Optional[Tuple[int, N]]:
    """`col = col + x` / `col = col - x` / `col = tbl.col + x`  ->  (sign, x);  None if not that shape."""
    if e.kind == 'bin' and e.op in ('+', '-'):
        l, r = e.left, e.right
        if l.kind == 'col' and l.parts[-1].lower() == col:
            s, x = signed_term(r, uvars)
            return (s if e.op == '+' else -s), x
        if e.op == '+' and r.kind == 'col' and r.parts[-1].lower() == col:
            s, x = signed_term(l, uvars)
            return s, x
    return None


def unwrap_sum(e: N) -> Optional[N]:
    """CAST(COALESCE(SUM(x), 0) AS SIGNED) | COALESCE(SUM(x),0) | SUM(x)  ->  x."""
    cur = e
    if cur.kind == 'cast':
        cur = cur.arg
    if cur.kind == 'func' and cur.name == 'COALESCE' and len(cur.args) == 2 and cur.args[1].kind == 'lit' and cur.args[1].value == 0:
        cur = cur.args[0]
    if cur.kind == 'func' and cur.name == 'SUM' and len(cur.args) == 1:
        return cur.args[0]
    return None


def eq_conjuncts(where: Optional[N]) -> List[Tuple[str, str]]:
    """Equality conjuncts as (lhs text, rhs text), both orders normalised lexicographically lower-cased."""
    out = []
    for c in sf.conjuncts(where):
        if c.kind == 'bin' and c.op == '=':
            out.append((text(c.left).lower(), text(c.right).lower()))
    return out


def has_eq(where: Optional[N], a: str, b: str, strip_qual: bool = True) -> bool:
    """Is `a = b` (either order) among the conjuncts; column qualifiers optional on the a side."""
    def last(x: str) -> str:
        return x.split('.')[-1] if strip_qual else x
    a, b = a.lower(), b.lower()
    for l, r in eq_conjuncts(where):
        if (last(l) == last(a) and r == b) or (last(r) == last(a) and l == b):
            return True
    return False


# --------------------------------------------------------------------------------------
# Python call-site argument binding
# --------------------------------------------------------------------------------------


def positional_params(st_text_or_node: Any) -> int:
    return sum(1 for n in st_text_or_node.walk() if n.kind == 'param' and n.text == '%s')


def params_in_order(st: N) -> List[N]:
    """%s parameter nodes in source order (the order pymysql binds them)."""
    ps = [n for n in st.walk() if n.kind == 'param']
    return sorted(ps, key=lambda n: n.pos)


def args_tuple(fn: Optional[pf.FuncDef], e: Optional[ast.expr]) -> Optional[List[ast.expr]]:
    """The python expressions bound to %s positions: a tuple/list literal, or the element tuple of a
    list comprehension / list built by .append((..)) resolved through def-use."""
    if e is None:
        return None
    if isinstance(e, (ast.Tuple, ast.List)):
        if any(isinstance(x, ast.Starred) for x in e.elts):
            return None
        return list(e.elts)
    if isinstance(e, ast.ListComp) and isinstance(e.elt, (ast.Tuple, ast.List)):
        return list(e.elt.elts)
    if isinstance(e, ast.Name) and fn is not None:
        d = pf.single_def(fn, e.id)
        if isinstance(d, ast.expr) and not (isinstance(d, ast.List) and not d.elts):
            return args_tuple(fn, d)
        # list built by x.append((...)) with a single append site
        appends = []
        for n in pf.walk_shallow(fn, into_nested_defs=True):
            if isinstance(n, ast.Call) and isinstance(n.func, ast.Attribute) and n.func.attr == 'append' \
                    and isinstance(n.func.value, ast.Name) and n.func.value.id == e.id and len(n.args) == 1:
                appends.append(n.args[0])
        if len(appends) == 1 and isinstance(appends[0], (ast.Tuple, ast.List)):
            return list(appends[0].elts)
    return None


# --------------------------------------------------------------------------------------
# the "is some self-or-ancestor group cancelled" walk
# --------------------------------------------------------------------------------------


def ancestor_walk(sel: N) -> Optional[Dict[str, Any]]:
    """Recognise   job_group_self_and_ancestors S (INNER) JOIN job_groups_cancelled C
                   ON S.batch_id = C.id AND S.ancestor_id = C.job_group_id   WHERE S.batch_id = X AND S.job_group_id = Y
    (conditions may sit in ON or WHERE).  Returns {'batch': X, 'group': Y} (SQL nodes) or None."""
    if sel is None or sel.kind != 'select' or sel.frm is None:
        return None
    tabs = [t for t in sf.from_tables(sel.frm) if t.kind == 'table']
    if len(tabs) != 2 or len(sf.from_tables(sel.frm)) != 2:
        return None
    names = {(t.alias or t.name).lower(): t.name.lower() for t in tabs}
    if sorted(names.values()) != ['job_group_self_and_ancestors', 'job_groups_cancelled']:
        return None
    if any(j.jtype != 'INNER' for j in sel.frm.joins):
        return None
    sa = [a for a, t in names.items() if t == 'job_group_self_and_ancestors'][0]
    ca = [a for a, t in names.items() if t == 'job_groups_cancelled'][0]
    conj = sf.conjuncts(sel.where)
    for j in sel.frm.joins:
        conj += sf.conjuncts(j.on)

    def side(e: N) -> Optional[str]:
        if e.kind != 'col':
            return None
        if len(e.parts) > 1:
            q = e.parts[-2].lower()
            if q == sa:
                return 'S.' + e.parts[-1].lower()
            if q == ca:
                return 'C.' + e.parts[-1].lower()
            return None
        # unqualified: only S has ancestor_id; both have job_group_id; C has id; S has batch_id
        n = e.parts[0].lower()
        if n == 'ancestor_id':
            return 'S.ancestor_id'
        if n == 'id':
            return 'C.id'
        return None

    have = set()
    batch = group = None
    extra = []
    for c in conj:
        if not (c.kind == 'bin' and c.op == '='):
            extra.append(c)
            continue
        l, r = side(c.left), side(c.right)
        pair = frozenset(x for x in (l, r) if x)
        if pair == {'S.batch_id', 'C.id'}:
            have.add('b')
        elif pair == {'S.ancestor_id', 'C.job_group_id'}:
            have.add('g')
        elif l == 'S.batch_id' and r is None:
            batch = c.right
        elif r == 'S.batch_id' and l is None:
            batch = c.left
        elif l == 'S.job_group_id' and r is None:
            group = c.right
        elif r == 'S.job_group_id' and l is None:
            group = c.left
        elif l is None and r is None and c.left.kind == 'col' and len(c.left.parts) == 1 and c.left.parts[0].lower() == 'batch_id' and batch is None:
            batch = c.right  # unqualified batch_id (only S has that column)
        else:
            extra.append(c)
    if have != {'b', 'g'} or batch is None or group is None or extra:
        return None
    return {'batch': batch, 'group': group}


def root_lookup(sel: N) -> Optional[Dict[str, Any]]:
    """SELECT .. FROM job_groups_cancelled WHERE id = X AND job_group_id = R   (batch-level question)."""
    if sel is None or sel.kind != 'select' or sel.frm is None:
        return None
    tabs = sf.from_tables(sel.frm)
    if len(tabs) != 1 or tabs[0].kind != 'table' or tabs[0].name.lower() != 'job_groups_cancelled':
        return None
    b = g = None
    for c in sf.conjuncts(sel.where):
        if c.kind == 'bin' and c.op == '=' and c.left.kind == 'col':
            n = c.left.parts[-1].lower()
            if n == 'id':
                b = c.right
            elif n == 'job_group_id':
                g = c.right
            else:
                return None
        else:
            return None
    if g is None:
        return None
    return {'batch': b, 'group': g}


def cancelled_sites(st: N):
    """Every SELECT node inside st whose FROM names job_groups_cancelled directly."""
    for n in st.walk():
        if n.kind == 'select' and n.frm is not None:
            if any(t.kind == 'table' and t.name.lower() == 'job_groups_cancelled' for t in sf.from_tables(n.frm)):
                yield n


def enclosing_ifs(module: pf.Module, node: ast.AST, stop: Optional[ast.AST] = None) -> List[Tuple[ast.If, bool]]:
    """(If node, in_body?) for every `if` enclosing node up to `stop`."""
    par = module.parents()
    out = []
    cur = node
    p = par.get(cur)
    while p is not None and p is not stop:
        if isinstance(p, ast.If):
            in_body = any(cur is s or any(cur is x for x in ast.walk(s)) for s in p.body)
            out.append((p, in_body))
        cur = p
        p = par.get(cur)
    return out


def enclosing_loops(module: pf.Module, node: ast.AST) -> List[ast.AST]:
    par = module.parents()
    out = []
    p = par.get(node)
    while p is not None:
        if isinstance(p, (ast.For, ast.AsyncFor)):
            # node must be in the body, not the iter
            if not any(node is x for x in ast.walk(p.iter)):
                out.append(p)
        p = par.get(p)
    return out
