"""sqltxn: lock continuity inside stored routines (serves C04).

A value read with a locking read (`SELECT .. INTO v .. FOR UPDATE | FOR SHARE | LOCK IN SHARE MODE`) describes the row only
while the transaction that took the lock is open.  After COMMIT / ROLLBACK / START TRANSACTION (which commits implicitly) the
lock is gone: another session may have changed the row, so a decision taken on `v` afterwards is a decision on a stale copy.

`stale_decisions(routine_ast)` walks the structured body with an abstract state  {variable -> the transaction boundary that made
it stale}  (path-insensitive join = union over the incoming paths, branches that always exit do not flow on, loops are iterated to
a fixpoint) and returns every IF whose condition reads a stale locked variable and whose arms write a table or CALL a procedure,
and every write statement whose WHERE / SET expressions read one.
"""
from __future__ import annotations

from typing import Dict, Iterator, List, Optional, Sequence, Set, Tuple

from engines import sqlfront as sf
from engines.sqlast import N, text

BOUNDARIES = ('COMMIT', 'ROLLBACK', 'START TRANSACTION')
WRITE_KINDS = ('update', 'insert', 'delete')


def _walk(e) -> Iterator[N]:
    if isinstance(e, N):
        yield e
        for k, v in e.__dict__.items():
            if k in ('kind', 'pos'):
                continue
            yield from _walk(v)
    elif isinstance(e, (list, tuple)):
        for x in e:
            yield from _walk(x)


def _vars_in(e, names: Set[str]) -> Set[str]:
    return {n.parts[0].lower() for n in _walk(e) if n.kind == 'col' and len(n.parts) == 1 and n.parts[0].lower() in names}


def _writes_or_calls(body: Sequence[N]) -> bool:
    return any(st.kind in WRITE_KINDS or st.kind == 'call' for st in sf.all_statements(body))


class Stale:
    def __init__(self, stmt: N, var: str, read: N, boundary: N, how: str):
        self.stmt, self.var, self.read, self.boundary, self.how = stmt, var, read, boundary, how


def stale_decisions(routine: N) -> Tuple[List[Stale], Dict[str, N]]:
    """([stale uses], {locked variable -> its locking read}).
    Abstract state per program point: variable -> None (read under a lock of the transaction that is still open) or the boundary
    statement after which the lock was gone; a variable that is absent has not been read under a lock on this path."""
    locked: Dict[str, N] = {}
    for st in sf.all_statements(routine.body):
        if st.kind == 'select' and st.into and (st.lock or '').strip():
            for v in st.into:
                if v.kind == 'col' and len(v.parts) == 1:
                    locked[v.parts[0].lower()] = st
    names = set(locked)
    found: List[Stale] = []
    seen: Set[Tuple[int, str]] = set()
    State = Dict[str, Optional[N]]

    def report(stmt: N, var: str, state: State, how: str) -> None:
        b = state.get(var)
        if b is not None and (id(stmt), var) not in seen:
            seen.add((id(stmt), var))
            found.append(Stale(stmt, var, locked[var], b, how))

    def merge(outs: List[State]) -> State:
        m: State = {}
        for o in outs:
            for k, b_ in o.items():
                if k not in m or (m[k] is None and b_ is not None):
                    m[k] = b_
        return m

    def run(body: Sequence[N], state: State) -> Optional[State]:
        """abstract state after the block; None if the block cannot fall through."""
        cur: State = dict(state)
        for st in body:
            if st.kind == 'txn' and st.what.upper() in BOUNDARIES:
                for v in list(cur):
                    if cur[v] is None:
                        cur[v] = st
            elif st.kind == 'select' and st.into:
                for v in _vars_in([st.where, [c for c, _ in st.cols]], names):
                    report(st, v, cur, 'read')
                for v in st.into:
                    if v.kind == 'col' and len(v.parts) == 1:
                        nm = v.parts[0].lower()
                        if (st.lock or '').strip():
                            cur[nm] = None
                        else:
                            cur.pop(nm, None)  # re-read without a lock: not a locked value any more (C04 R2 / C10 judge that)
            elif st.kind == 'set':
                for a in getattr(st, 'assigns', []) or []:
                    c = a[0] if isinstance(a, (tuple, list)) else None
                    if isinstance(c, N) and c.kind == 'col' and len(c.parts) == 1:
                        cur.pop(c.parts[0].lower(), None)
            elif st.kind in WRITE_KINDS:
                exprs = [getattr(st, 'where', None), getattr(st, 'sets', None), getattr(st, 'rows', None), getattr(st, 'select', None), getattr(st, 'on_dup', None)]
                for v in _vars_in(exprs, names):
                    report(st, v, cur, 'write')
            elif st.kind == 'call':
                for v in _vars_in(getattr(st, 'args', None), names):
                    report(st, v, cur, 'call')
            elif st.kind == 'if':
                outs: List[State] = []
                acts = any(_writes_or_calls(b) for _, b in st.branches) or (st.orelse is not None and _writes_or_calls(st.orelse))
                for c, b in st.branches:
                    if acts:
                        for v in _vars_in(c, names):
                            report(st, v, cur, 'decision')
                    o = run(b, cur)
                    if o is not None:
                        outs.append(o)
                if st.orelse is not None:
                    o = run(st.orelse, cur)
                    if o is not None:
                        outs.append(o)
                else:
                    outs.append(dict(cur))
                if not outs:
                    return None
                cur = merge(outs)
            elif st.kind == 'block':
                o = run(st.body, cur)
                if o is None:
                    return None  # conservative for labelled blocks left by LEAVE: nothing after them is judged
                cur = o
            elif st.kind in ('loop', 'while'):
                first = run(st.body, cur)
                again = merge([cur] + ([first] if first is not None else []))
                second = run(st.body, again)
                again = merge([again] + ([second] if second is not None else []))
                if st.kind == 'while' and _writes_or_calls(st.body):
                    for v in _vars_in(st.cond, names):
                        report(st, v, again, 'decision')
                cur = again
            elif st.kind in ('leave', 'iterate', 'signal', 'resignal', 'return'):
                return None
        return cur

    run(routine.body, {})
    return found, locked
