"""String-building expressions as sequences of literal and expression parts.

    parts(e)  ->  [('lit', text) | ('expr', normalised source), ...]

Handles string constants, f-strings (without conversions / format specs), `+` concatenation and `str(x)` wrappers;
adjacent literals are merged.  Used to compare path / header templates of sibling implementations without evaluating them.
"""
from __future__ import annotations

import ast
from typing import List, Tuple

from . import pyfacts as pf
from .common import AnalysisError

Part = Tuple[str, str]


def parts(e: ast.AST) -> List[Part]:
    """A string-building expression as a sequence of ('lit', text) / ('expr', source)."""
    out: List[Part] = []

    def add(p: Part) -> None:
        if p[0] == 'lit' and out and out[-1][0] == 'lit':
            out[-1] = ('lit', out[-1][1] + p[1])
        elif not (p[0] == 'lit' and p[1] == ''):
            out.append(p)

    def rec(x: ast.AST) -> None:
        if isinstance(x, ast.Constant) and isinstance(x.value, str):
            add(('lit', x.value))
        elif isinstance(x, ast.JoinedStr):
            for v in x.values:
                if isinstance(v, ast.FormattedValue):
                    if v.conversion != -1 or v.format_spec is not None:
                        raise AnalysisError(f'formatted value with conversion in {pf.nsrc(x)}')
                    rec_val(v.value)
                else:
                    rec(v)
        elif isinstance(x, ast.BinOp) and isinstance(x.op, ast.Add):
            rec(x.left)
            rec(x.right)
        else:
            rec_val(x)

    def rec_val(x: ast.AST) -> None:
        if isinstance(x, ast.Call) and isinstance(x.func, ast.Name) and x.func.id == 'str' and len(x.args) == 1 and not x.keywords:
            x = x.args[0]
        if isinstance(x, (ast.Constant, ast.JoinedStr)) or (isinstance(x, ast.BinOp) and isinstance(x.op, ast.Add)):
            rec(x)
        else:
            add(('expr', pf.nsrc(x)))

    rec(e)
    return out


def expr_of(text: str) -> ast.AST:
    """Re-parse the source text of an ('expr', text) part."""
    return ast.parse(text, mode='eval').body
