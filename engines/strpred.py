"""strpred - translate Python string predicates (AST) into regular languages (engines/relang.py).

Used by C28 (validators), C25 (size regexes) and C31 (identifier regexes).  The translation is idiom by idiom over the syntax
tree; anything not recognised raises AnalysisError (decline), never a guess.  Nothing is imported or executed from the repository.

  resolve_regex(m, fn, expr)          a regex OBJECT expression -> RegexDef(pattern, flags, where)
  regex_call(m, fn, call)             `R.match(x)` / `re.fullmatch(p, x)` -> (RegexDef, mode, subject expr)
  Translator(m, fn, param).cond(e)    language of the strings `param` for which expression e is truthy
  function_language(m, fn, param, accept='bool'|'no-raise')
"""
from __future__ import annotations

import ast
import re as _re
from typing import Dict, List, Optional, Tuple

from . import pyfacts as pf
from . import relang as R
from .common import AnalysisError

_FLAG_NAMES = {
    'A': _re.A, 'ASCII': _re.ASCII, 'S': _re.S, 'DOTALL': _re.DOTALL, 'I': _re.I, 'IGNORECASE': _re.IGNORECASE,
    'M': _re.M, 'MULTILINE': _re.MULTILINE, 'X': _re.X, 'VERBOSE': _re.VERBOSE, 'U': _re.U, 'UNICODE': _re.UNICODE,
    'L': _re.L, 'LOCALE': _re.LOCALE,
}
_MODES = ('match', 'fullmatch', 'search')
# dotted package prefix -> repository-relative directory (absolute imports that can be followed)
PACKAGE_ROOTS = {'hailtop': 'hail/python/hailtop', 'hail': 'hail/python/hail', 'gear': 'gear/gear', 'web_common': 'web_common/web_common'}

_STRING_CONSTANTS = {
    'string.ascii_lowercase': 'abcdefghijklmnopqrstuvwxyz',
    'string.ascii_uppercase': 'ABCDEFGHIJKLMNOPQRSTUVWXYZ',
    'string.ascii_letters': 'abcdefghijklmnopqrstuvwxyzABCDEFGHIJKLMNOPQRSTUVWXYZ',
    'string.digits': '0123456789',
    'string.hexdigits': '0123456789abcdefABCDEF',
}
_CHAR_METHODS = ('isascii', 'isdigit', 'islower', 'isupper', 'isalpha', 'isalnum', 'isdecimal', 'isnumeric', 'isspace')
# whole-string str methods whose meaning is "non-empty and every character satisfies the predicate"
_ALL_CHARS_NONEMPTY = ('isdigit', 'isalpha', 'isalnum', 'isdecimal', 'isnumeric', 'isspace')


class RegexDef:
    def __init__(self, pattern: str, flags: int, where: str, node: ast.AST, rel: str, symbol: Optional[str]):
        self.pattern = pattern
        self.flags = flags
        self.where = where  # human readable origin
        self.node = node  # the defining expression (identity is used to compare "same object")
        self.rel = rel  # file of the definition
        self.symbol = symbol  # module-level name when the object is a module constant


_mc_cache: Dict[Tuple[int, str], ast.expr] = {}
_imports_cache: Dict[int, Dict[str, str]] = {}


def imports_of(m: pf.Module) -> Dict[str, str]:
    d = _imports_cache.get(id(m))
    if d is None:
        d = m.imports()
        _imports_cache[id(m)] = d
    return d


def module_const(m: pf.Module, name: str) -> ast.expr:
    """The unique module-level binding of `name` (no rebinding, no `global name`)."""
    hit = _mc_cache.get((id(m), name))
    if hit is not None:
        return hit
    vals: List[ast.expr] = []

    def scan(stmts):
        for st in stmts:
            if isinstance(st, ast.Assign):
                for t in st.targets:
                    for x in ast.walk(t):
                        if isinstance(x, ast.Name) and x.id == name:
                            vals.append(st.value if isinstance(t, ast.Name) else st)  # type: ignore[arg-type]
            elif isinstance(st, ast.AnnAssign) and isinstance(st.target, ast.Name) and st.target.id == name:
                vals.append(st.value if st.value is not None else st)  # type: ignore[arg-type]
            elif isinstance(st, ast.AugAssign) and isinstance(st.target, ast.Name) and st.target.id == name:
                vals.append(st)  # type: ignore[arg-type]
            elif isinstance(st, (ast.If, ast.Try, ast.With, ast.For, ast.While)):
                for fld in ('body', 'orelse', 'finalbody'):
                    scan(getattr(st, fld, []))
                for h in getattr(st, 'handlers', []):
                    scan(h.body)
            elif isinstance(st, (ast.Import, ast.ImportFrom)):
                for a in st.names:
                    if (a.asname or a.name.split('.')[0]) == name:
                        vals.append(st)  # type: ignore[arg-type]
            elif isinstance(st, (ast.FunctionDef, ast.AsyncFunctionDef, ast.ClassDef)) and st.name == name:
                vals.append(st)  # type: ignore[arg-type]

    scan(m.tree.body)
    for n in ast.walk(m.tree):
        if isinstance(n, ast.Global) and name in n.names:
            raise AnalysisError(f'{m.rel}: `global {name}` makes the module constant rebindable')
    if len(vals) != 1 or not isinstance(vals[0], ast.expr):
        raise AnalysisError(f'{m.rel}: expected exactly one plain module-level binding of {name}, found {len(vals)}')
    _mc_cache[(id(m), name)] = vals[0]
    return vals[0]


def _is_local(fn: Optional[pf.FuncDef], name: str) -> bool:
    return fn is not None and name in pf.assignments(fn)


def const_string(m: pf.Module, fn: Optional[pf.FuncDef], e: ast.AST, depth: int = 3) -> str:
    """A string expression resolved through literals, local single definitions and module constants."""
    s = pf.const_str(e)
    if s is not None:
        return s
    if isinstance(e, ast.Name) and depth > 0:
        if _is_local(fn, e.id):
            d = pf.single_def(fn, e.id)  # type: ignore[arg-type]
            if d is None or not isinstance(d, ast.expr):
                raise AnalysisError(f'{m.rel}: `{e.id}` is not a single-assignment local')
            return const_string(m, fn, d, depth - 1)
        if e.id in imports_of(m):
            r = resolve_import(m, e.id, PACKAGE_ROOTS)
            if r is None:
                raise AnalysisError(f'{m.rel}: cannot follow the import of `{e.id}`')
            return const_string(r[0], None, ast.Name(id=r[1], ctx=ast.Load()), depth - 1)
        return const_string(m, None, module_const(m, e.id), depth - 1)
    raise AnalysisError(f'{m.rel}: cannot resolve `{pf.nsrc(e)}` to a string literal')


def _re_module_names(m: pf.Module) -> Tuple[set, Dict[str, str]]:
    """(names bound to the `re` module, names bound to re functions -> function name)."""
    mods, funcs = set(), {}
    for local, origin in imports_of(m).items():
        if origin == 're':
            mods.add(local)
        elif origin.startswith('re.') and origin.count('.') == 1:
            funcs[local] = origin[3:]
    return mods, funcs


def flags_value(m: pf.Module, e: Optional[ast.AST]) -> int:
    if e is None:
        return 0
    mods, funcs = _re_module_names(m)
    if isinstance(e, ast.Constant) and isinstance(e.value, int) and not isinstance(e.value, bool):
        return e.value
    if isinstance(e, ast.BinOp) and isinstance(e.op, ast.BitOr):
        return flags_value(m, e.left) | flags_value(m, e.right)
    if isinstance(e, ast.Attribute) and isinstance(e.value, ast.Name) and e.value.id in mods and e.attr in _FLAG_NAMES:
        return int(_FLAG_NAMES[e.attr])
    if isinstance(e, ast.Name) and funcs.get(e.id) in _FLAG_NAMES:
        return int(_FLAG_NAMES[funcs[e.id]])
    raise AnalysisError(f'{m.rel}: cannot evaluate regex flags `{pf.nsrc(e)}`')


def _compile_call(m: pf.Module, fn: Optional[pf.FuncDef], e: ast.AST, where: str, symbol: Optional[str]) -> Optional[RegexDef]:
    mods, funcs = _re_module_names(m)
    if not isinstance(e, ast.Call):
        return None
    f = e.func
    is_compile = (isinstance(f, ast.Attribute) and isinstance(f.value, ast.Name) and f.value.id in mods and f.attr == 'compile') or \
                 (isinstance(f, ast.Name) and funcs.get(f.id) == 'compile' and not _is_local(fn, f.id))
    if not is_compile:
        return None
    kw = {k.arg: k.value for k in e.keywords}
    if None in kw or len(e.args) > 2 or not set(kw) <= {'pattern', 'flags'}:
        raise AnalysisError(f'{m.rel}: unrecognised re.compile call `{pf.nsrc(e)}`')
    pat_e = e.args[0] if e.args else kw.get('pattern')
    flg_e = e.args[1] if len(e.args) > 1 else kw.get('flags')
    if pat_e is None:
        raise AnalysisError(f'{m.rel}: re.compile without a pattern')
    return RegexDef(const_string(m, fn, pat_e), flags_value(m, flg_e), where, e, m.rel, symbol)


def resolve_import(m: pf.Module, local: str, package_roots: Dict[str, str]) -> Optional[Tuple[pf.Module, str]]:
    """`from pkg.mod import sym [as local]` -> (module of pkg.mod, sym), for packages listed in package_roots
    (dotted prefix -> repository-relative directory)."""
    origin = imports_of(m).get(local)
    if origin is None:
        return None
    if origin.startswith('.'):
        # relative import: find the ImportFrom statement itself (the dotted encoding is ambiguous for `from . import x`)
        import os as _os
        for st in ast.walk(m.tree):
            if isinstance(st, ast.ImportFrom) and st.level > 0 and st.module and any((a.asname or a.name) == local for a in st.names):
                base = _os.path.dirname(m.rel)
                for _i in range(st.level - 1):
                    base = _os.path.dirname(base)
                sym = [a.name for a in st.names if (a.asname or a.name) == local][0]
                rel = base + '/' + st.module.replace('.', '/')
                for cand in (rel + '.py', rel + '/__init__.py'):
                    try:
                        return pf.load(cand), sym
                    except AnalysisError:
                        continue
        return None
    modname, _, sym = origin.rpartition('.')
    for prefix, root in package_roots.items():
        if modname == prefix or modname.startswith(prefix + '.'):
            rest = modname[len(prefix):].lstrip('.')
            rel = root + ('/' + rest.replace('.', '/') if rest else '')
            for cand in (rel + '.py', rel + '/__init__.py'):
                try:
                    return pf.load(cand), sym
                except AnalysisError:
                    continue
    return None


def resolve_regex(m: pf.Module, fn: Optional[pf.FuncDef], e: ast.AST, package_roots: Optional[Dict[str, str]] = None) -> RegexDef:
    """The regex object an expression evaluates to: `re.compile(<resolvable literal>[, flags])` directly, through a
    single-assignment local, a module constant, or a `from x import NAME` of a module constant."""
    d = _compile_call(m, fn, e, f'{m.rel}: {pf.nsrc(e)}', None)
    if d is not None:
        return d
    if isinstance(e, ast.Name):
        if _is_local(fn, e.id):
            v = pf.single_def(fn, e.id)  # type: ignore[arg-type]
            if v is None or not isinstance(v, ast.expr):
                raise AnalysisError(f'{m.rel}: regex variable `{e.id}` is not a single-assignment local')
            d = _compile_call(m, fn, v, f'{m.rel}: {e.id} = {pf.nsrc(v)}', None)
            if d is None:
                return resolve_regex(m, fn, v, package_roots) if isinstance(v, ast.Name) else _fail(m, e)
            return d
        if e.id in imports_of(m):
            r = resolve_import(m, e.id, package_roots or PACKAGE_ROOTS)
            if r is None:
                _fail(m, e)
            m2, sym = r  # type: ignore[misc]
            return resolve_regex(m2, None, ast.Name(id=sym, ctx=ast.Load()), package_roots)
        v = module_const(m, e.id)
        d = _compile_call(m, None, v, f'{m.rel}: {e.id} = {pf.nsrc(v)}', e.id)
        if d is not None:
            return d
    return _fail(m, e)


def _fail(m: pf.Module, e: ast.AST) -> RegexDef:
    raise AnalysisError(f'{m.rel}: cannot resolve `{pf.nsrc(e)}` to a compiled regex with a literal pattern')


def regex_call(m: pf.Module, fn: Optional[pf.FuncDef], call: ast.AST, package_roots: Optional[Dict[str, str]] = None
               ) -> Optional[Tuple[RegexDef, str, ast.expr]]:
    """Recognise `R.match(x)` / `R.fullmatch(x)` / `R.search(x)` and `re.<mode>(pattern, x[, flags])`.
    Returns None when the call is not a regex matching call at all."""
    if not isinstance(call, ast.Call) or not isinstance(call.func, (ast.Attribute, ast.Name)):
        return None
    mods, funcs = _re_module_names(m)
    f = call.func
    if isinstance(f, ast.Attribute) and f.attr in _MODES:
        if isinstance(f.value, ast.Name) and f.value.id in mods:
            # re.match(pattern, string, flags=0)
            kw = {k.arg: k.value for k in call.keywords}
            args = list(call.args)
            if None in kw or not set(kw) <= {'pattern', 'string', 'flags'} or len(args) > 3:
                raise AnalysisError(f'{m.rel}: unrecognised call `{pf.nsrc(call)}`')
            pat_e = args[0] if args else kw.get('pattern')
            sub_e = args[1] if len(args) > 1 else kw.get('string')
            flg_e = args[2] if len(args) > 2 else kw.get('flags')
            if pat_e is None or sub_e is None:
                raise AnalysisError(f'{m.rel}: unrecognised call `{pf.nsrc(call)}`')
            rd: Optional[RegexDef] = None
            try:
                rd = resolve_regex(m, fn, pat_e, package_roots)  # a compiled object passed as pattern
            except AnalysisError:
                rd = None
            if rd is not None:
                if flg_e is not None:
                    raise AnalysisError(f'{m.rel}: flags together with a compiled pattern in `{pf.nsrc(call)}`')
            else:
                rd = RegexDef(const_string(m, fn, pat_e), flags_value(m, flg_e), f'{m.rel}: {pf.nsrc(call)}', call, m.rel, None)
            return rd, f.attr, sub_e
        # <regex object>.match(string)
        try:
            rd2 = resolve_regex(m, fn, f.value, package_roots)
        except AnalysisError:
            return None
        if call.keywords or len(call.args) != 1:
            raise AnalysisError(f'{m.rel}: regex call with pos/endpos is not supported: `{pf.nsrc(call)}`')
        return rd2, f.attr, call.args[0]
    if isinstance(f, ast.Name) and funcs.get(f.id) in _MODES and not _is_local(fn, f.id):
        if call.keywords or len(call.args) not in (2, 3):
            raise AnalysisError(f'{m.rel}: unrecognised call `{pf.nsrc(call)}`')
        rd = RegexDef(const_string(m, fn, call.args[0]), flags_value(m, call.args[2] if len(call.args) == 3 else None),
                      f'{m.rel}: {pf.nsrc(call)}', call, m.rel, None)
        return rd, funcs[f.id], call.args[1]
    return None


# --------------------------------------------------------------------------------------
# predicates on one string parameter
# --------------------------------------------------------------------------------------


class Translator:
    def __init__(self, m: pf.Module, fn: Optional[pf.FuncDef], param: str, package_roots: Optional[Dict[str, str]] = None):
        self.m = m
        self.fn = fn
        self.param = param
        self.roots = package_roots
        self.regex_uses: List[dict] = []  # for diagnostics: every regex call translated
        self.idioms: List[str] = []

    # ---- helpers
    def _is_param(self, e: ast.AST) -> bool:
        return isinstance(e, ast.Name) and e.id == self.param

    def _fail(self, e: ast.AST, what: str = 'string-predicate idiom'):
        raise AnalysisError(f'{self.m.rel}: unrecognised {what} `{pf.nsrc(e)}` (line {getattr(e, "lineno", "?")})')

    def _lits(self, e: ast.AST) -> List[str]:
        """A string literal or a tuple/list/set of them."""
        if isinstance(e, (ast.Tuple, ast.List, ast.Set)):
            return [const_string(self.m, self.fn, x) for x in e.elts]
        return [const_string(self.m, self.fn, e)]

    @staticmethod
    def _any_of(lits: List[str]) -> R.Re:
        return R.alt(*[R.lit(s) for s in lits]) if lits else R.chars(R.CharSet.empty())

    def _note(self, kind: str) -> None:
        if kind not in self.idioms:
            self.idioms.append(kind)

    # ---- character predicates  P(c)
    def charset(self, e: ast.AST, var: str) -> R.CharSet:
        def is_var(x: ast.AST) -> bool:
            return isinstance(x, ast.Name) and x.id == var

        def chars_of(x: ast.AST) -> R.CharSet:
            d = pf.dotted(x)
            if d in _STRING_CONSTANTS and d.split('.')[0] in imports_of(self.m) and imports_of(self.m)[d.split('.')[0]] == 'string':
                return R.CharSet.of(_STRING_CONSTANTS[d])
            if isinstance(x, (ast.Tuple, ast.List, ast.Set)):
                items = [const_string(self.m, self.fn, y) for y in x.elts]
                if any(len(s) != 1 for s in items):
                    self._fail(e, 'character predicate')
                return R.CharSet.of(items)
            return R.CharSet.of(const_string(self.m, self.fn, x))  # `c in 'abc'`: substring test of a 1-char string

        if isinstance(e, ast.BoolOp):
            sets = [self.charset(v, var) for v in e.values]
            out = sets[0]
            for s in sets[1:]:
                out = (out & s) if isinstance(e.op, ast.And) else (out | s)
            return out
        if isinstance(e, ast.UnaryOp) and isinstance(e.op, ast.Not):
            return ~self.charset(e.operand, var)
        if isinstance(e, ast.Constant) and isinstance(e.value, bool):
            return R.ANY if e.value else R.CharSet.empty()
        if isinstance(e, ast.Call) and isinstance(e.func, ast.Attribute) and is_var(e.func.value) and not e.args and not e.keywords \
                and e.func.attr in _CHAR_METHODS:
            self._note(f'c.{e.func.attr}()')
            return R.pred('str.' + e.func.attr)
        if isinstance(e, ast.Compare):
            if len(e.ops) == 1:
                op, left, right = e.ops[0], e.left, e.comparators[0]
                if isinstance(op, (ast.Eq, ast.NotEq)) and (is_var(left) or is_var(right)):
                    other = right if is_var(left) else left
                    s = const_string(self.m, self.fn, other)
                    cs = R.CharSet.of(s) if len(s) == 1 else R.CharSet.empty()
                    self._note("c == 'x'")
                    return cs if isinstance(op, ast.Eq) else ~cs
                if isinstance(op, (ast.In, ast.NotIn)) and is_var(left):
                    cs = chars_of(right)
                    self._note("c in 'xyz'")
                    return cs if isinstance(op, ast.In) else ~cs
            if len(e.ops) == 2 and is_var(e.comparators[0]) and all(isinstance(o, (ast.LtE, ast.Lt)) for o in e.ops):
                lo = const_string(self.m, self.fn, e.left)
                hi = const_string(self.m, self.fn, e.comparators[1])
                if len(lo) == 1 and len(hi) == 1:
                    a = ord(lo) + (1 if isinstance(e.ops[0], ast.Lt) else 0)
                    b = ord(hi) - (1 if isinstance(e.ops[1], ast.Lt) else 0)
                    self._note("'a' <= c <= 'z'")
                    return R.CharSet([(a, b)])
        self._fail(e, 'character predicate')
        raise AssertionError

    # ---- string predicates
    def cond(self, e: ast.AST) -> R.Lang:
        anyc = R.anychar()
        if isinstance(e, ast.BoolOp):
            ls = [self.cond(v) for v in e.values]
            out = ls[0]
            for x in ls[1:]:
                out = (out & x) if isinstance(e.op, ast.And) else (out | x)
            return out
        if isinstance(e, ast.UnaryOp) and isinstance(e.op, ast.Not):
            return ~self.cond(e.operand)
        if isinstance(e, ast.Constant):
            return R.everything() if e.value else R.nothing()
        if self._is_param(e):
            self._note('truthiness of the string')
            return R.lang(R.plus(anyc), 'non-empty')
        if isinstance(e, ast.Compare) and len(e.ops) == 1:
            op, left, right = e.ops[0], e.left, e.comparators[0]
            if self._is_param(left) and isinstance(right, ast.Constant) and right.value is None and isinstance(op, (ast.Is, ast.IsNot)):
                self._note('x is None')
                return R.nothing() if isinstance(op, ast.Is) else R.everything()
            # regex call compared with None
            if isinstance(right, ast.Constant) and right.value is None and isinstance(op, (ast.Is, ast.IsNot)) and isinstance(left, ast.Call):
                L = self._regex(left)
                if L is not None:
                    return ~L if isinstance(op, ast.Is) else L
            if isinstance(op, (ast.In, ast.NotIn)):
                if self._is_param(right):
                    s = const_string(self.m, self.fn, left)
                    self._note("'lit' in s")
                    L = R.lang(R.seq(R.star(anyc), R.lit(s), R.star(anyc)), f'contains {s!r}')
                    return L if isinstance(op, ast.In) else ~L
                if self._is_param(left) and isinstance(right, (ast.Tuple, ast.List, ast.Set)):
                    lits = self._lits(right)
                    self._note("s in ('a', 'b')")
                    L = R.lang(self._any_of(lits), f'one of {lits!r}')
                    return L if isinstance(op, ast.In) else ~L
            if isinstance(op, (ast.Eq, ast.NotEq)) and (self._is_param(left) or self._is_param(right)):
                s = const_string(self.m, self.fn, right if self._is_param(left) else left)
                self._note("s == 'lit'")
                L = R.lang(R.lit(s), f'== {s!r}')
                return L if isinstance(op, ast.Eq) else ~L
            # len(s) <op> n
            if isinstance(left, ast.Call) and pf.dotted(left.func) == 'len' and len(left.args) == 1 and self._is_param(left.args[0]) \
                    and isinstance(right, ast.Constant) and isinstance(right.value, int) and not isinstance(right.value, bool) \
                    and 0 <= right.value <= 400:
                n = right.value
                self._note('len(s) <op> n')
                table = {ast.Lt: (0, n - 1), ast.LtE: (0, n), ast.Gt: (n + 1, None), ast.GtE: (n, None), ast.Eq: (n, n)}
                if type(op) in table:
                    lo, hi = table[type(op)]
                    if hi is not None and hi < 0:
                        return R.nothing()
                    return R.lang(R.rep(anyc, lo, hi), f'len in [{lo},{hi}]')
                if isinstance(op, ast.NotEq):
                    return ~R.lang(R.rep(anyc, n, n), f'len == {n}')
        if isinstance(e, ast.Call):
            L = self._regex(e)
            if L is not None:
                return L
            f = e.func
            name = pf.dotted(f)
            if name == 'bool' and len(e.args) == 1 and not e.keywords:
                return self.cond(e.args[0])
            if name == 'len' and len(e.args) == 1 and self._is_param(e.args[0]):
                return R.lang(R.plus(anyc), 'non-empty')
            if name == 'isinstance' and len(e.args) == 2 and self._is_param(e.args[0]) and pf.dotted(e.args[1]) == 'str':
                self._note('isinstance(s, str)')
                return R.everything()
            if isinstance(f, ast.Attribute) and self._is_param(f.value) and not e.keywords:
                if f.attr in ('startswith', 'endswith') and len(e.args) == 1:
                    lits = self._lits(e.args[0])
                    self._note(f's.{f.attr}(lit)')
                    body = self._any_of(lits)
                    r = R.seq(body, R.star(anyc)) if f.attr == 'startswith' else R.seq(R.star(anyc), body)
                    return R.lang(r, f'{f.attr} {lits!r}')
                if not e.args and f.attr == 'isascii':
                    self._note('s.isascii()')
                    return R.lang(R.star(R.chars(R.pred('str.isascii'))), 'isascii')
                if not e.args and f.attr in _ALL_CHARS_NONEMPTY:
                    self._note(f's.{f.attr}()')
                    return R.lang(R.plus(R.chars(R.pred('str.' + f.attr))), f.attr)
            if name in ('all', 'any') and len(e.args) == 1 and not e.keywords and isinstance(e.args[0], (ast.GeneratorExp, ast.ListComp)):
                g = e.args[0]
                if len(g.generators) == 1 and not g.generators[0].is_async and isinstance(g.generators[0].target, ast.Name) \
                        and self._is_param(g.generators[0].iter):
                    var = g.generators[0].target.id
                    cs = self.charset(g.elt, var)
                    filt = R.ANY
                    for cnd in g.generators[0].ifs:
                        filt = filt & self.charset(cnd, var)
                    self._note(f'{name}(P(c) for c in s)')
                    if name == 'all':
                        return R.lang(R.star(R.chars(cs | ~filt)), f'all chars in {cs.describe(4)}')
                    return R.lang(R.seq(R.star(anyc), R.chars(cs & filt), R.star(anyc)), f'some char in {cs.describe(4)}')
        self._fail(e)
        raise AssertionError

    def _regex(self, call: ast.Call) -> Optional[R.Lang]:
        rc = regex_call(self.m, self.fn, call, self.roots)
        if rc is None:
            return None
        rd, mode, subject = rc
        if not self._is_param(subject):
            raise AnalysisError(f'{self.m.rel}: regex `{pf.nsrc(call)}` is applied to `{pf.nsrc(subject)}`, not to the parameter {self.param}')
        self.regex_uses.append({'call': pf.nsrc(call), 'mode': mode, 'pattern': rd.pattern, 'flags': rd.flags, 'defined': rd.where,
                                'line': getattr(call, 'lineno', 0)})
        self._note(f'regex.{mode}')
        return R.from_regex(rd.pattern, rd.flags, mode)


def function_language(m: pf.Module, fn: pf.FuncDef, param: str, accept: str, package_roots: Optional[Dict[str, str]] = None
                      ) -> Tuple[R.Lang, Translator]:
    """Language of the strings accepted by a validator function of one string parameter.
       accept='bool'      accepted = the function returns a truthy value
       accept='no-raise'  accepted = the function returns (anything) without raising
    Recognised statements: docstring, pass, if/elif/else, return, raise, assert, and single-assignment bindings of regex objects
    or string literals.  Anything else -> AnalysisError."""
    if accept not in ('bool', 'no-raise'):
        raise AnalysisError('function_language: bad accept mode')
    tr = Translator(m, fn, param, package_roots)
    params = [a.arg for a in fn.args.args + fn.args.posonlyargs + fn.args.kwonlyargs]
    if param not in params:
        raise AnalysisError(f'{m.rel}::{fn.name}: no parameter named {param}')
    if len(pf.assignments(fn).get(param, [])) != 1:
        raise AnalysisError(f'{m.rel}::{fn.name}: parameter {param} is rebound in the body')
    budget = [4000]

    def simple_value(v: Optional[ast.AST]) -> bool:
        return v is None or isinstance(v, (ast.Constant, ast.Name))

    def T(stmts: List[ast.stmt]) -> R.Lang:
        budget[0] -= 1
        if budget[0] < 0:
            raise AnalysisError(f'{m.rel}::{fn.name}: too many paths for the decision-list translation')
        if not stmts:
            return R.nothing() if accept == 'bool' else R.everything()
        st, rest = stmts[0], list(stmts[1:])
        if isinstance(st, ast.Expr) and isinstance(st.value, ast.Constant):
            return T(rest)
        if isinstance(st, ast.Pass):
            return T(rest)
        if isinstance(st, ast.If):
            c = tr.cond(st.test)
            return (c & T(list(st.body) + rest)) | (~c & T(list(st.orelse) + rest))
        if isinstance(st, ast.Return):
            if accept == 'no-raise':
                if not simple_value(st.value):
                    raise AnalysisError(f'{m.rel}::{fn.name}: `{pf.nsrc(st)}` may raise; not recognised')
                return R.everything()
            if st.value is None:
                return R.nothing()
            return tr.cond(st.value)
        if isinstance(st, ast.Raise):
            return R.nothing()
        if isinstance(st, ast.Assert):
            return tr.cond(st.test) & T(rest)
        if isinstance(st, (ast.Assign, ast.AnnAssign)):
            tgt = st.targets[0] if isinstance(st, ast.Assign) and len(st.targets) == 1 else getattr(st, 'target', None)
            if isinstance(tgt, ast.Name) and tgt.id != param and st.value is not None and pf.single_def(fn, tgt.id) is st.value:
                # must be a regex object or a string literal; uses are resolved through def-use when they occur
                try:
                    resolve_regex(m, fn, st.value, package_roots)
                except AnalysisError:
                    const_string(m, fn, st.value)
                return T(rest)
        raise AnalysisError(f'{m.rel}::{fn.name}: unrecognised statement `{pf.nsrc(st)[:80]}` (line {st.lineno})')

    return T(list(fn.body)), tr
