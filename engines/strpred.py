"""strpred - translate Python string predicates (AST) into regular languages (engines/relang.py).

Used by C28 (validators), C25 (size regexes) and C31 (identifier regexes).  The translation is idiom by idiom over the syntax
tree; anything not recognised raises AnalysisError (decline), never a guess.  Nothing is imported or executed from the repository.

  resolve_regex(m, fn, expr)          a regex OBJECT expression -> RegexDef(pattern, flags, where)
  regex_call(m, fn, call)             `R.match(x)` / `re.fullmatch(p, x)` -> (RegexDef, mode, subject expr)
  Translator(m, fn, param).cond(e)    language of the strings `param` for which expression e is truthy
  Translator(m, fn, param).cond2(e)   (truthy language, falsy language); strings in neither make the evaluation raise
  function_language(m, fn, param, accept='bool'|'no-raise')

Idioms (all decided exactly, as regular languages over all Unicode strings):
  * regex calls in the three matching modes, on the parameter or on a normalised copy of it
  * str predicates isascii/isdigit/isalpha/isalnum/isdecimal/isnumeric/isspace/isprintable/islower/isupper/isidentifier as
    code-point tables of the running interpreter; startswith/endswith/in/==/len comparisons; s[0], s[-1], s[k]
  * all()/any() over the characters, or over the parts of `re.split(<one-character class>, s)` / `s.split('<c>')`, with an
    arbitrary per-element predicate (a nested translation); `for` loops over the same with raise/return/continue bodies
  * normalisation before the test - s.lower() / .upper() / .casefold() / .strip() / .lstrip() / .rstrip() / .replace('<c>', t) /
    constant slices - as the PREIMAGE of the tested language, whether written inline, through a local, or by rebinding the parameter;
    `s == s.lower()` etc. as fixed-point languages
  * set(s) <= set(ALLOWED) and friends; locals holding a match object or a boolean
"""
from __future__ import annotations

import ast
import re as _re
from typing import Dict, List, Optional, Tuple

from . import pyfacts as pf
from . import relang as R
from .common import AnalysisError

_FLAG_NAMES = {
    'A': _re.A, 'ASCII': _re.ASCII, 'S': _re.S, 'DOTALL': _re.DOTALL, 'I': _re.I, 'IGNORECASE': _re.IGNORECASE,
    'M': _re.M, 'MULTILINE': _re.MULTILINE, 'X': _re.X, 'VERBOSE': _re.VERBOSE, 'U': _re.U, 'UNICODE': _re.UNICODE,
    'L': _re.L, 'LOCALE': _re.LOCALE,
}
_MODES = ('match', 'fullmatch', 'search')
# dotted package prefix -> repository-relative directory (absolute imports that can be followed)
PACKAGE_ROOTS = {'hailtop': 'hail/python/hailtop', 'hail': 'hail/python/hail', 'gear': 'gear/gear', 'web_common': 'web_common/web_common'}

_STRING_CONSTANTS = {
    'string.ascii_lowercase': 'abcdefghijklmnopqrstuvwxyz',
    'string.ascii_uppercase': 'ABCDEFGHIJKLMNOPQRSTUVWXYZ',
    'string.ascii_letters': 'abcdefghijklmnopqrstuvwxyzABCDEFGHIJKLMNOPQRSTUVWXYZ',
    'string.digits': '0123456789',
    'string.hexdigits': '0123456789abcdefABCDEF',
    'string.octdigits': '01234567',
    'string.punctuation': '!"#$%&\'()*+,-./:;<=>?@[\\]^_`{|}~',
    'string.whitespace': ' \t\n\r\x0b\x0c',
}
_CHAR_METHODS = ('isascii', 'isdigit', 'islower', 'isupper', 'isalpha', 'isalnum', 'isdecimal', 'isnumeric', 'isspace')
# whole-string str methods whose meaning is "non-empty and every character satisfies the predicate"
_ALL_CHARS_NONEMPTY = ('isdigit', 'isalpha', 'isalnum', 'isdecimal', 'isnumeric', 'isspace')


class RegexDef:
    def __init__(self, pattern: str, flags: int, where: str, node: ast.AST, rel: str, symbol: Optional[str]):
        self.pattern = pattern
        self.flags = flags
        self.where = where  # human readable origin
        self.node = node  # the defining expression (identity is used to compare "same object")
        self.rel = rel  # file of the definition
        self.symbol = symbol  # module-level name when the object is a module constant


_mc_cache: Dict[Tuple[int, str], ast.expr] = {}
_imports_cache: Dict[int, Dict[str, str]] = {}


def imports_of(m: pf.Module) -> Dict[str, str]:
    d = _imports_cache.get(id(m))
    if d is None:
        d = m.imports()
        _imports_cache[id(m)] = d
    return d


def module_bindings(m: pf.Module, name: str) -> List[ast.AST]:
    """Every module-level binding of `name`: the value expression of a plain assignment, else the binding statement."""
    vals: List[ast.AST] = []

    def scan(stmts):
        for st in stmts:
            if isinstance(st, ast.Assign):
                for t in st.targets:
                    for x in ast.walk(t):
                        if isinstance(x, ast.Name) and x.id == name:
                            vals.append(st.value if isinstance(t, ast.Name) else st)
            elif isinstance(st, ast.AnnAssign) and isinstance(st.target, ast.Name) and st.target.id == name:
                vals.append(st.value if st.value is not None else st)
            elif isinstance(st, ast.AugAssign) and isinstance(st.target, ast.Name) and st.target.id == name:
                vals.append(st)
            elif isinstance(st, (ast.If, ast.Try, ast.With, ast.For, ast.While)):
                for fld in ('body', 'orelse', 'finalbody'):
                    scan(getattr(st, fld, []))
                for h in getattr(st, 'handlers', []):
                    scan(h.body)
            elif isinstance(st, (ast.Import, ast.ImportFrom)):
                for a in st.names:
                    if (a.asname or a.name.split('.')[0]) == name:
                        vals.append(st)
            elif isinstance(st, (ast.FunctionDef, ast.AsyncFunctionDef, ast.ClassDef)) and st.name == name:
                vals.append(st)

    scan(m.tree.body)
    for n in ast.walk(m.tree):
        if isinstance(n, ast.Global) and name in n.names:
            raise AnalysisError(f'{m.rel}: `global {name}` makes the module constant rebindable')
    return vals


def module_const(m: pf.Module, name: str) -> ast.expr:
    """The unique module-level binding of `name` (no rebinding, no `global name`)."""
    hit = _mc_cache.get((id(m), name))
    if hit is not None:
        return hit
    vals = module_bindings(m, name)
    if len(vals) != 1 or not isinstance(vals[0], ast.expr):
        raise AnalysisError(f'{m.rel}: expected exactly one plain module-level binding of {name}, found {len(vals)}')
    _mc_cache[(id(m), name)] = vals[0]
    return vals[0]


def _is_local(fn: Optional[pf.FuncDef], name: str) -> bool:
    return fn is not None and name in pf.assignments(fn)


def const_string(m: pf.Module, fn: Optional[pf.FuncDef], e: ast.AST, depth: int = 3) -> str:
    """A string expression resolved through literals, local single definitions and module constants."""
    s = pf.const_str(e)
    if s is not None:
        return s
    if isinstance(e, ast.BinOp) and isinstance(e.op, ast.Add) and depth > 0:
        return const_string(m, fn, e.left, depth) + const_string(m, fn, e.right, depth)
    if isinstance(e, ast.Attribute) and isinstance(e.value, ast.Name) and not _is_local(fn, e.value.id) \
            and imports_of(m).get(e.value.id) == 'string' and 'string.' + e.attr in _STRING_CONSTANTS:
        return _STRING_CONSTANTS['string.' + e.attr]
    if isinstance(e, ast.Name) and not _is_local(fn, e.id) and imports_of(m).get(e.id, '') in _STRING_CONSTANTS:
        return _STRING_CONSTANTS[imports_of(m)[e.id]]
    if isinstance(e, ast.Name) and depth > 0:
        if _is_local(fn, e.id):
            d = pf.single_def(fn, e.id)  # type: ignore[arg-type]
            if d is None or not isinstance(d, ast.expr):
                raise AnalysisError(f'{m.rel}: `{e.id}` is not a single-assignment local')
            return const_string(m, fn, d, depth - 1)
        if e.id in imports_of(m):
            r = resolve_import(m, e.id, PACKAGE_ROOTS)
            if r is None:
                raise AnalysisError(f'{m.rel}: cannot follow the import of `{e.id}`')
            return const_string(r[0], None, ast.Name(id=r[1], ctx=ast.Load()), depth - 1)
        return const_string(m, None, module_const(m, e.id), depth - 1)
    raise AnalysisError(f'{m.rel}: cannot resolve `{pf.nsrc(e)}` to a string literal')


def _re_module_names(m: pf.Module) -> Tuple[set, Dict[str, str]]:
    """(names bound to the `re` module, names bound to re functions -> function name)."""
    mods, funcs = set(), {}
    for local, origin in imports_of(m).items():
        if origin == 're':
            mods.add(local)
        elif origin.startswith('re.') and origin.count('.') == 1:
            funcs[local] = origin[3:]
    return mods, funcs


def flags_value(m: pf.Module, e: Optional[ast.AST]) -> int:
    if e is None:
        return 0
    mods, funcs = _re_module_names(m)
    if isinstance(e, ast.Constant) and isinstance(e.value, int) and not isinstance(e.value, bool):
        return e.value
    if isinstance(e, ast.BinOp) and isinstance(e.op, ast.BitOr):
        return flags_value(m, e.left) | flags_value(m, e.right)
    if isinstance(e, ast.Attribute) and isinstance(e.value, ast.Name) and e.value.id in mods and e.attr in _FLAG_NAMES:
        return int(_FLAG_NAMES[e.attr])
    if isinstance(e, ast.Name) and funcs.get(e.id) in _FLAG_NAMES:
        return int(_FLAG_NAMES[funcs[e.id]])
    raise AnalysisError(f'{m.rel}: cannot evaluate regex flags `{pf.nsrc(e)}`')


def _compile_call(m: pf.Module, fn: Optional[pf.FuncDef], e: ast.AST, where: str, symbol: Optional[str]) -> Optional[RegexDef]:
    mods, funcs = _re_module_names(m)
    if not isinstance(e, ast.Call):
        return None
    f = e.func
    is_compile = (isinstance(f, ast.Attribute) and isinstance(f.value, ast.Name) and f.value.id in mods and f.attr == 'compile') or \
                 (isinstance(f, ast.Name) and funcs.get(f.id) == 'compile' and not _is_local(fn, f.id))
    if not is_compile:
        return None
    kw = {k.arg: k.value for k in e.keywords}
    if None in kw or len(e.args) > 2 or not set(kw) <= {'pattern', 'flags'}:
        raise AnalysisError(f'{m.rel}: unrecognised re.compile call `{pf.nsrc(e)}`')
    pat_e = e.args[0] if e.args else kw.get('pattern')
    flg_e = e.args[1] if len(e.args) > 1 else kw.get('flags')
    if pat_e is None:
        raise AnalysisError(f'{m.rel}: re.compile without a pattern')
    return RegexDef(const_string(m, fn, pat_e), flags_value(m, flg_e), where, e, m.rel, symbol)


def resolve_import(m: pf.Module, local: str, package_roots: Dict[str, str]) -> Optional[Tuple[pf.Module, str]]:
    """`from pkg.mod import sym [as local]` -> (module of pkg.mod, sym), for packages listed in package_roots
    (dotted prefix -> repository-relative directory)."""
    origin = imports_of(m).get(local)
    if origin is None:
        return None
    if origin.startswith('.'):
        # relative import: find the ImportFrom statement itself (the dotted encoding is ambiguous for `from . import x`)
        import os as _os
        for st in ast.walk(m.tree):
            if isinstance(st, ast.ImportFrom) and st.level > 0 and st.module and any((a.asname or a.name) == local for a in st.names):
                base = _os.path.dirname(m.rel)
                for _i in range(st.level - 1):
                    base = _os.path.dirname(base)
                sym = [a.name for a in st.names if (a.asname or a.name) == local][0]
                rel = base + '/' + st.module.replace('.', '/')
                for cand in (rel + '.py', rel + '/__init__.py'):
                    try:
                        return pf.load(cand), sym
                    except AnalysisError:
                        continue
        return None
    modname, _, sym = origin.rpartition('.')
    for prefix, root in package_roots.items():
        if modname == prefix or modname.startswith(prefix + '.'):
            rest = modname[len(prefix):].lstrip('.')
            rel = root + ('/' + rest.replace('.', '/') if rest else '')
            for cand in (rel + '.py', rel + '/__init__.py'):
                try:
                    return pf.load(cand), sym
                except AnalysisError:
                    continue
    return None


def resolve_regex(m: pf.Module, fn: Optional[pf.FuncDef], e: ast.AST, package_roots: Optional[Dict[str, str]] = None) -> RegexDef:
    """The regex object an expression evaluates to: `re.compile(<resolvable literal>[, flags])` directly, through a
    single-assignment local, a module constant, or a `from x import NAME` of a module constant."""
    d = _compile_call(m, fn, e, f'{m.rel}: {pf.nsrc(e)}', None)
    if d is not None:
        return d
    if isinstance(e, ast.Name):
        if _is_local(fn, e.id):
            v = pf.single_def(fn, e.id)  # type: ignore[arg-type]
            if v is None or not isinstance(v, ast.expr):
                raise AnalysisError(f'{m.rel}: regex variable `{e.id}` is not a single-assignment local')
            d = _compile_call(m, fn, v, f'{m.rel}: {e.id} = {pf.nsrc(v)}', None)
            if d is None:
                return resolve_regex(m, fn, v, package_roots) if isinstance(v, ast.Name) else _fail(m, e)
            return d
        if e.id in imports_of(m):
            r = resolve_import(m, e.id, package_roots or PACKAGE_ROOTS)
            if r is None:
                _fail(m, e)
            m2, sym = r  # type: ignore[misc]
            return resolve_regex(m2, None, ast.Name(id=sym, ctx=ast.Load()), package_roots)
        v = module_const(m, e.id)
        d = _compile_call(m, None, v, f'{m.rel}: {e.id} = {pf.nsrc(v)}', e.id)
        if d is not None:
            return d
    return _fail(m, e)


def _fail(m: pf.Module, e: ast.AST) -> RegexDef:
    raise AnalysisError(f'{m.rel}: cannot resolve `{pf.nsrc(e)}` to a compiled regex with a literal pattern')


def regex_call(m: pf.Module, fn: Optional[pf.FuncDef], call: ast.AST, package_roots: Optional[Dict[str, str]] = None
               ) -> Optional[Tuple[RegexDef, str, ast.expr]]:
    """Recognise `R.match(x)` / `R.fullmatch(x)` / `R.search(x)` and `re.<mode>(pattern, x[, flags])`.
    Returns None when the call is not a regex matching call at all."""
    if not isinstance(call, ast.Call) or not isinstance(call.func, (ast.Attribute, ast.Name)):
        return None
    mods, funcs = _re_module_names(m)
    f = call.func
    if isinstance(f, ast.Attribute) and f.attr in _MODES:
        if isinstance(f.value, ast.Name) and f.value.id in mods:
            # re.match(pattern, string, flags=0)
            kw = {k.arg: k.value for k in call.keywords}
            args = list(call.args)
            if None in kw or not set(kw) <= {'pattern', 'string', 'flags'} or len(args) > 3:
                raise AnalysisError(f'{m.rel}: unrecognised call `{pf.nsrc(call)}`')
            pat_e = args[0] if args else kw.get('pattern')
            sub_e = args[1] if len(args) > 1 else kw.get('string')
            flg_e = args[2] if len(args) > 2 else kw.get('flags')
            if pat_e is None or sub_e is None:
                raise AnalysisError(f'{m.rel}: unrecognised call `{pf.nsrc(call)}`')
            rd: Optional[RegexDef] = None
            try:
                rd = resolve_regex(m, fn, pat_e, package_roots)  # a compiled object passed as pattern
            except AnalysisError:
                rd = None
            if rd is not None:
                if flg_e is not None:
                    raise AnalysisError(f'{m.rel}: flags together with a compiled pattern in `{pf.nsrc(call)}`')
            else:
                rd = RegexDef(const_string(m, fn, pat_e), flags_value(m, flg_e), f'{m.rel}: {pf.nsrc(call)}', call, m.rel, None)
            return rd, f.attr, sub_e
        # <regex object>.match(string)
        try:
            rd2 = resolve_regex(m, fn, f.value, package_roots)
        except AnalysisError:
            return None
        if call.keywords or len(call.args) != 1:
            raise AnalysisError(f'{m.rel}: regex call with pos/endpos is not supported: `{pf.nsrc(call)}`')
        return rd2, f.attr, call.args[0]
    if isinstance(f, ast.Name) and funcs.get(f.id) in _MODES and not _is_local(fn, f.id):
        if call.keywords or len(call.args) not in (2, 3):
            raise AnalysisError(f'{m.rel}: unrecognised call `{pf.nsrc(call)}`')
        rd = RegexDef(const_string(m, fn, call.args[0]), flags_value(m, call.args[2] if len(call.args) == 3 else None),
                      f'{m.rel}: {pf.nsrc(call)}', call, m.rel, None)
        return rd, funcs[f.id], call.args[1]
    return None


# --------------------------------------------------------------------------------------
# predicates on one string parameter
# --------------------------------------------------------------------------------------

_CASE_MAPS = {'lower': str.lower, 'upper': str.upper, 'casefold': str.casefold}
_SIGMA = 0x3A3  # the only code point whose str.lower() image depends on its context (final sigma)
_LEN_LIMIT = 400

Pair = Tuple[R.Lang, R.Lang]


def _total(L: R.Lang) -> Pair:
    return L, ~L


def _any_n(n: int) -> R.Re:
    return R.rep(R.anychar(), n, n)


def _one_char() -> R.Lang:
    return R.lang(R.anychar(), 'one character')


def _int_const(e: ast.AST) -> Optional[int]:
    if isinstance(e, ast.Constant) and isinstance(e.value, int) and not isinstance(e.value, bool):
        return e.value
    if isinstance(e, ast.UnaryOp) and isinstance(e.op, ast.USub) and isinstance(e.operand, ast.Constant) \
            and isinstance(e.operand.value, int) and not isinstance(e.operand.value, bool):
        return -e.operand.value
    return None


def fixed_points(kind: str) -> R.CharSet:
    """code points c with c.lower() == c (resp. upper / casefold)."""
    f = _CASE_MAPS[kind]
    return R.tabulate(f'str.{kind}.fixed', lambda c: f(c) == c)


def whole_string_predicate(attr: str) -> Optional[R.Lang]:
    """The language of the strings s with s.<attr>() true, for the str predicate methods, from code-point tables of the running
    interpreter (CPython semantics of the method on strings of any length)."""
    if attr == 'isascii':
        return R.lang(R.star(R.chars(R.pred('str.isascii'))), 'isascii')
    if attr == 'isprintable':
        return R.lang(R.star(R.chars(R.pred('str.isprintable'))), 'isprintable')
    if attr in _ALL_CHARS_NONEMPTY:
        return R.lang(R.plus(R.chars(R.pred('str.' + attr))), attr)
    if attr in ('islower', 'isupper'):
        # at least one cased character of the right case, and no character that spoils it (upper/title resp. lower/title case):
        # a character spoils iff appending it to a string that satisfies the predicate makes it false
        good = 'a' if attr == 'islower' else 'A'
        meth = getattr(str, attr)
        spoil = R.tabulate(f'str.{attr}.spoils', lambda c: not meth(good + c))
        cased = R.pred('str.' + attr) - spoil
        ok = R.chars(~spoil)
        return R.lang(R.seq(R.star(ok), R.chars(cased), R.star(ok)), attr)
    if attr == 'isidentifier':
        start = R.pred('str.isidentifier')
        cont = R.tabulate('str.isidentifier.continue', lambda c: ('a' + c).isidentifier())
        return R.lang(R.seq(R.chars(start), R.star(R.chars(cont))), 'isidentifier')
    return None


class Translator:
    """Translation of expressions over ONE string variable `param` into regular languages.

    env (per control-flow path, maintained by function_language): local name ->
        ('alias', chain)               the local holds chain(param), chain = tuple of normalising transforms
        ('parts', chain, sep, plus)    the local holds the list chain(param) split on the characters of sep (runs of them when plus)
        ('match', T, F)                the local holds a match object (T) or None (F)
        ('bool', T, F)                 the local holds a value that is truthy on T and falsy on F
    """

    _fresh = [0]

    def __init__(self, m: pf.Module, fn: Optional[pf.FuncDef], param: str, package_roots: Optional[Dict[str, str]] = None,
                 parent: Optional['Translator'] = None):
        self.m = m
        self.fn = fn
        self.param = param
        self.roots = package_roots if parent is None else parent.roots
        self.regex_uses: List[dict] = [] if parent is None else parent.regex_uses  # for diagnostics: every regex call translated
        self.idioms: List[str] = [] if parent is None else parent.idioms
        self.display: Dict[str, str] = {} if parent is None else parent.display  # internal variable -> the source text it stands for
        self.env: Dict[str, tuple] = {}

    # ---- helpers
    def _is_param(self, e: ast.AST) -> bool:
        if isinstance(e, ast.Name):
            if e.id == self.param:
                return True
            ent = self.env.get(e.id)
            return ent is not None and ent[0] == 'alias' and not ent[1]
        return False

    def _text(self, e: ast.AST) -> str:
        t = pf.nsrc(e)
        for k in sorted(self.display, key=len, reverse=True):
            t = t.replace(k, self.display[k])
        return t

    def _fail(self, e: ast.AST, what: str = 'string-predicate idiom'):
        raise AnalysisError(f'{self.m.rel}: unrecognised {what} `{self._text(e)[:100]}` (line {getattr(e, "lineno", "?")})')

    def chain_of(self, e: ast.AST) -> Optional[tuple]:
        """() when e is the parameter itself, a non-empty tuple of transforms when e is a normalised copy of it
        (s.strip().lower(), s[1:], ...), None when e is something else."""
        return self._chain(e)

    def _lits(self, e: ast.AST) -> List[str]:
        """A string literal or a tuple/list/set of them."""
        if isinstance(e, (ast.Tuple, ast.List, ast.Set)):
            return [const_string(self.m, self.fn, x) for x in e.elts]
        return [const_string(self.m, self.fn, e)]

    @staticmethod
    def _any_of(lits: List[str]) -> R.Re:
        return R.alt(*[R.lit(s) for s in lits]) if lits else R.chars(R.CharSet.empty())

    def _note(self, kind: str) -> None:
        if kind not in self.idioms:
            self.idioms.append(kind)

    def _sub(self, var: str, env: Optional[Dict[str, tuple]] = None) -> 'Translator':
        t = Translator(self.m, self.fn, var, parent=self)
        t.env = dict(env or {})
        return t

    def _charset_of(self, x: ast.AST, e: ast.AST) -> R.CharSet:
        """The characters of a string constant / of a collection of one-character strings (`c in X`, set(X))."""
        if isinstance(x, ast.Call) and pf.dotted(x.func) in ('set', 'frozenset', 'list', 'tuple') and len(x.args) == 1 and not x.keywords:
            return self._charset_of(x.args[0], e)
        if isinstance(x, (ast.Tuple, ast.List, ast.Set)):
            items = [const_string(self.m, self.fn, y) for y in x.elts]
            if any(len(s) != 1 for s in items):
                self._fail(e, 'character collection')
            return R.CharSet.of(items)
        if isinstance(x, ast.Name) and not _is_local(self.fn, x.id) and x.id not in imports_of(self.m):
            try:
                v = module_const(self.m, x.id)
            except AnalysisError:
                v = None
            if v is not None and not isinstance(v, ast.Name) and (isinstance(v, (ast.Tuple, ast.List, ast.Set, ast.Call))):
                return self._charset_of(v, e)
        return R.CharSet.of(const_string(self.m, self.fn, x))

    # ---- normalising transforms -------------------------------------------------------------------------------------------
    def _chain(self, e: ast.AST) -> Optional[tuple]:
        """e == chain(param) for a tuple of transforms (possibly empty), else None."""
        if isinstance(e, ast.Name):
            if e.id == self.param:
                return ()
            ent = self.env.get(e.id)
            if ent is not None and ent[0] == 'alias':
                return ent[1]
            return None
        if isinstance(e, ast.Call) and isinstance(e.func, ast.Attribute) and not e.keywords:
            a = e.func.attr
            if a in _CASE_MAPS and not e.args:
                base = self._chain(e.func.value)
                return None if base is None else base + (('map', a),)
            if a in ('strip', 'lstrip', 'rstrip') and len(e.args) <= 1:
                base = self._chain(e.func.value)
                if base is None:
                    return None
                if not e.args or (isinstance(e.args[0], ast.Constant) and e.args[0].value is None):
                    cs = R.pred('str.isspace')
                else:
                    cs = R.CharSet.of(const_string(self.m, self.fn, e.args[0]))
                return base + (('strip', a != 'rstrip', a != 'lstrip', cs),)
            if a == 'replace' and len(e.args) == 2:
                base = self._chain(e.func.value)
                if base is None:
                    return None
                x, y = const_string(self.m, self.fn, e.args[0]), const_string(self.m, self.fn, e.args[1])
                if len(x) != 1:
                    raise AnalysisError(f'{self.m.rel}: `{pf.nsrc(e)}` replaces a multi-character substring; not recognised')
                return base + (('replace', x, y),)
            return None
        if isinstance(e, ast.Subscript) and isinstance(e.slice, ast.Slice) and e.slice.step is None:
            base = self._chain(e.value)
            if base is None:
                return None
            lo = None if e.slice.lower is None else _int_const(e.slice.lower)
            hi = None if e.slice.upper is None else _int_const(e.slice.upper)
            if (e.slice.lower is not None and lo is None) or (e.slice.upper is not None and hi is None):
                raise AnalysisError(f'{self.m.rel}: non-constant slice `{pf.nsrc(e)}`')
            out = base
            if lo is not None and lo != 0:
                if abs(lo) > _LEN_LIMIT:
                    raise AnalysisError(f'{self.m.rel}: slice bound too large in `{pf.nsrc(e)}`')
                if lo < 0:
                    if hi is not None:
                        raise AnalysisError(f'{self.m.rel}: slice `{pf.nsrc(e)}` not recognised')
                    return out + (('last', -lo),)
                out = out + (('drop', lo),)
            if hi is not None:
                if abs(hi) > _LEN_LIMIT:
                    raise AnalysisError(f'{self.m.rel}: slice bound too large in `{pf.nsrc(e)}`')
                if hi < 0:
                    out = out + (('droplast', -hi),)
                else:
                    if lo is not None and lo > 0:
                        if hi < lo:
                            raise AnalysisError(f'{self.m.rel}: slice `{pf.nsrc(e)}` not recognised')
                        out = out + (('first', hi - lo),)
                    else:
                        out = out + (('first', hi),)
            return out
        return None

    def _pre1(self, L: R.Lang, t: tuple) -> R.Lang:
        anyc = R.anychar()
        if t[0] == 'map':
            f = _CASE_MAPS[t[1]]
            exc = R.char_map('str.' + t[1], f)
            alts = {_SIGMA: ['ς', 'σ']} if t[1] == 'lower' else None
            return R.preimage(L, exc, t[1], alts)
        if t[0] == 'strip':
            return R.strip_preimage(L, t[3], t[1], t[2])
        if t[0] == 'replace':
            return R.preimage(L, {ord(t[1]): t[2]}, f'replace({t[1]!r},{t[2]!r})')
        eps_in = L & R.lang(R.EPS, 'empty')
        if t[0] == 'drop':  # s[k:]
            k = t[1]
            return R.lang(R.seq(_any_n(k), R.as_re(L)), f'[{k}:]^-1') | R.lang(R.seq(R.rep(anyc, 0, k - 1), R.as_re(eps_in)), 'short')
        if t[0] == 'droplast':  # s[:-k]
            k = t[1]
            return R.lang(R.seq(R.as_re(L), _any_n(k)), f'[:-{k}]^-1') | R.lang(R.seq(R.rep(anyc, 0, k - 1), R.as_re(eps_in)), 'short')
        if t[0] == 'first':  # s[:k]
            k = t[1]
            short = L & R.lang(R.rep(anyc, 0, k), f'len<={k}')
            exact = L & R.lang(_any_n(k), f'len=={k}')
            return short | R.lang(R.seq(R.as_re(exact), R.star(anyc)), f'[:{k}]^-1')
        if t[0] == 'last':  # s[-k:]
            k = t[1]
            short = L & R.lang(R.rep(anyc, 0, k), f'len<={k}')
            exact = L & R.lang(_any_n(k), f'len=={k}')
            return short | R.lang(R.seq(R.star(anyc), R.as_re(exact)), f'[-{k}:]^-1')
        raise AnalysisError(f'strpred internal: transform {t[0]}')

    def preimage(self, L: R.Lang, chain: tuple) -> R.Lang:
        """{ s : chain(s) in L }"""
        for t in reversed(chain):
            L = self._pre1(L, t)
        if chain:
            self._note('normalised before the test: ' + '.'.join(x[0] if x[0] != 'map' else x[1] for x in chain))
        return L

    def _fixed(self, chain: tuple, e: ast.AST) -> R.Lang:
        """{ s : chain(s) == s } for a single transform."""
        if len(chain) != 1:
            self._fail(e, 'comparison of a string with its normalised form')
        t = chain[0]
        anyc = R.anychar()
        if t[0] == 'map':
            self._note(f's == s.{t[1]}()')
            return R.lang(R.star(R.chars(fixed_points(t[1]))), f'fixed by {t[1]}')
        if t[0] == 'strip':
            self._note('s == s.strip()')
            inner = R.chars(~t[3])
            mid = R.star(anyc)
            if t[1] and t[2]:
                return R.lang(R.alt(R.EPS, inner, R.seq(inner, mid, inner)), 'no padding')
            if t[1]:
                return R.lang(R.alt(R.EPS, R.seq(inner, mid)), 'no leading padding')
            return R.lang(R.alt(R.EPS, R.seq(mid, inner)), 'no trailing padding')
        if t[0] == 'replace':
            if t[1] == t[2]:
                return R.everything()
            return R.lang(R.star(R.chars(~R.CharSet.of(t[1]))), f'without {t[1]!r}')
        self._fail(e, 'comparison of a string with its normalised form')
        raise AssertionError

    # ---- splitting ----------------------------------------------------------------------------------------------------------
    def _sep_of_regex(self, rd: RegexDef, e: ast.AST) -> Tuple[R.CharSet, bool]:
        if R.regex_groups(rd.pattern, rd.flags):
            raise AnalysisError(f'{self.m.rel}: split pattern {rd.pattern!r} has capture groups (`{pf.nsrc(e)[:80]}`); not recognised')

        def sets(node) -> Optional[R.CharSet]:
            if node[0] == 'set':
                return node[1]
            if node[0] == 'alt':
                parts = [sets(x) for x in node[1]]
                if all(p is not None for p in parts):
                    out = R.CharSet.empty()
                    for p in parts:
                        out = out | p  # type: ignore[operator]
                    return out
            if node[0] == 'cat' and len(node[1]) == 1:
                return sets(node[1][0])
            return None

        node = R.regex_to_re(rd.pattern, rd.flags)
        cs = sets(node)
        if cs is not None and cs:
            return cs, False
        if node[0] == 'rep' and node[2] == 1 and node[3] is None:
            cs = sets(node[1])
            if cs is not None and cs:
                return cs, True
        raise AnalysisError(f'{self.m.rel}: split pattern {rd.pattern!r} is not a single character class (optionally with +); not recognised')

    def _split_call(self, e: ast.AST) -> Optional[Tuple[ast.AST, R.CharSet, bool]]:
        """`re.split(<char class>, X)` / `<regex>.split(X)` / `X.split('<c>')` -> (X, separators, runs?)"""
        if not isinstance(e, ast.Call) or not isinstance(e.func, ast.Attribute) or e.func.attr != 'split':
            return None
        mods, _funcs = _re_module_names(self.m)
        f = e.func
        if isinstance(f.value, ast.Name) and f.value.id in mods and not _is_local(self.fn, f.value.id):
            kw = {k.arg: k.value for k in e.keywords}
            args = list(e.args)
            if None in kw or not set(kw) <= {'pattern', 'string', 'flags'} or not 2 <= len(args) + len([k for k in kw if k != 'flags']) or len(args) > 2:
                raise AnalysisError(f'{self.m.rel}: unrecognised call `{pf.nsrc(e)[:80]}` (maxsplit?)')
            pat_e = args[0] if args else kw.get('pattern')
            sub_e = args[1] if len(args) > 1 else kw.get('string')
            if pat_e is None or sub_e is None:
                raise AnalysisError(f'{self.m.rel}: unrecognised call `{pf.nsrc(e)[:80]}`')
            try:
                rd = resolve_regex(self.m, self.fn, pat_e, self.roots)
                if 'flags' in kw:
                    raise AnalysisError(f'{self.m.rel}: flags together with a compiled pattern in `{pf.nsrc(e)[:80]}`')
            except AnalysisError:
                rd = RegexDef(const_string(self.m, self.fn, pat_e), flags_value(self.m, kw.get('flags')), f'{self.m.rel}: {pf.nsrc(e)}', e, self.m.rel, None)
            cs, plus = self._sep_of_regex(rd, e)
            self._note('re.split(<class>, s)')
            return sub_e, cs, plus
        # <regex object>.split(X)
        try:
            rd2: Optional[RegexDef] = resolve_regex(self.m, self.fn, f.value, self.roots)
        except AnalysisError:
            rd2 = None
        if rd2 is not None:
            if e.keywords or len(e.args) != 1:
                raise AnalysisError(f'{self.m.rel}: unrecognised call `{pf.nsrc(e)[:80]}` (maxsplit?)')
            cs, plus = self._sep_of_regex(rd2, e)
            self._note('regex.split(s)')
            return e.args[0], cs, plus
        # X.split('<c>')
        if not e.keywords and len(e.args) == 1:
            sep = const_string(self.m, self.fn, e.args[0])
            if len(sep) != 1:
                raise AnalysisError(f'{self.m.rel}: `{pf.nsrc(e)[:80]}` splits on a multi-character separator; not recognised')
            self._note("s.split('c')")
            return f.value, R.CharSet.of(sep), False
        if not e.keywords and not e.args:
            raise AnalysisError(f'{self.m.rel}: whitespace split `{pf.nsrc(e)[:80]}` is not recognised')
        return None

    def parts_spec(self, e: ast.AST) -> Optional[Tuple[tuple, R.CharSet, bool]]:
        """e is a list of parts of chain(param): -> (chain, separator characters, runs?)"""
        if isinstance(e, ast.Name):
            ent = self.env.get(e.id)
            if ent is not None and ent[0] == 'parts':
                return ent[1], ent[2], ent[3]
            return None
        sc = self._split_call(e)
        if sc is None:
            return None
        subj, cs, plus = sc
        ch = self._chain(subj)
        if ch is None:
            raise AnalysisError(f'{self.m.rel}: `{pf.nsrc(e)[:80]}` does not split the string {self.param}; not recognised')
        return ch, cs, plus

    def iterate(self, kind: str, passing: R.Lang, hit: R.Lang, sep: Optional[R.CharSet] = None, plus: bool = False) -> Pair:
        """Scan of the elements of the string in order (kind 'chars': its characters; 'parts': its parts between separators):
        -> (every element is in `passing`,  some element is in `hit` and all elements before it are in `passing`)."""
        anyc = R.anychar()
        if kind == 'chars':
            one = _one_char()
            p1, h1 = R.as_re(passing & one), R.as_re(hit & one)
            return R.lang(R.star(p1), 'all chars pass'), R.lang(R.seq(R.star(p1), h1, R.star(anyc)), 'first hit')
        assert sep is not None
        nosep = R.lang(R.star(R.chars(~sep)), 'no separator')
        S = R.chars(sep)
        if not plus:
            p, h, a = R.as_re(passing & nosep), R.as_re(hit & nosep), R.as_re(nosep)
            return (R.lang(R.seq(p, R.star(R.seq(S, p))), 'all parts pass'),
                    R.lang(R.seq(R.star(R.seq(p, S)), h, R.star(R.seq(S, a))), 'first hit'))
        # runs of separators: interior parts are never empty, the first and the last may be
        SS = R.plus(S)
        ne = R.lang(R.plus(R.chars(~sep)), 'non-empty, no separator')
        eps = R.lang(R.EPS, 'empty')
        p0, pne, peps = R.as_re(passing & nosep), R.as_re(passing & ne), R.as_re(passing & eps)
        h0, hne, heps = R.as_re(hit & nosep), R.as_re(hit & ne), R.as_re(hit & eps)
        ane = R.as_re(ne)
        allpass = R.seq(p0, R.star(R.seq(SS, pne)), R.opt(R.seq(SS, peps)))
        tail = R.seq(R.star(R.seq(SS, ane)), R.opt(SS))
        prefix = R.seq(p0, R.star(R.seq(SS, pne)), SS)
        hitl = R.alt(R.seq(h0, tail), R.seq(prefix, hne, tail), R.seq(prefix, heps))
        return R.lang(allpass, 'all parts pass'), R.lang(hitl, 'first hit')

    def iter_spec(self, it: ast.AST) -> Optional[Tuple[tuple, str, Optional[R.CharSet], bool]]:
        """What a loop / comprehension iterates over: (chain, 'chars'|'parts', separators, runs?)"""
        ch = self._chain(it)
        if ch is not None:
            return ch, 'chars', None, False
        ps = self.parts_spec(it)
        if ps is not None:
            return ps[0], 'parts', ps[1], ps[2]
        return None

    # ---- character predicates  P(c)
    def charset(self, e: ast.AST, var: str) -> R.CharSet:
        def is_var(x: ast.AST) -> bool:
            return isinstance(x, ast.Name) and x.id == var

        def chars_of(x: ast.AST) -> R.CharSet:
            d = pf.dotted(x)
            if d in _STRING_CONSTANTS and d.split('.')[0] in imports_of(self.m) and imports_of(self.m)[d.split('.')[0]] == 'string':
                return R.CharSet.of(_STRING_CONSTANTS[d])
            return self._charset_of(x, e)

        if isinstance(e, ast.BoolOp):
            sets = [self.charset(v, var) for v in e.values]
            out = sets[0]
            for s in sets[1:]:
                out = (out & s) if isinstance(e.op, ast.And) else (out | s)
            return out
        if isinstance(e, ast.UnaryOp) and isinstance(e.op, ast.Not):
            return ~self.charset(e.operand, var)
        if isinstance(e, ast.Constant) and isinstance(e.value, bool):
            return R.ANY if e.value else R.CharSet.empty()
        if isinstance(e, ast.Call) and isinstance(e.func, ast.Attribute) and is_var(e.func.value) and not e.args and not e.keywords \
                and e.func.attr in _CHAR_METHODS:
            self._note(f'c.{e.func.attr}()')
            return R.pred('str.' + e.func.attr)
        if isinstance(e, ast.Compare):
            if len(e.ops) == 1:
                op, left, right = e.ops[0], e.left, e.comparators[0]
                if isinstance(op, (ast.Eq, ast.NotEq)) and (is_var(left) or is_var(right)):
                    other = right if is_var(left) else left
                    if isinstance(other, ast.Call) and isinstance(other.func, ast.Attribute) and is_var(other.func.value) \
                            and other.func.attr in _CASE_MAPS and not other.args and not other.keywords:
                        cs = fixed_points(other.func.attr)
                        self._note(f'c == c.{other.func.attr}()')
                        return cs if isinstance(op, ast.Eq) else ~cs
                    s = const_string(self.m, self.fn, other)
                    cs = R.CharSet.of(s) if len(s) == 1 else R.CharSet.empty()
                    self._note("c == 'x'")
                    return cs if isinstance(op, ast.Eq) else ~cs
                if isinstance(op, (ast.In, ast.NotIn)) and is_var(left):
                    cs = chars_of(right)
                    self._note("c in 'xyz'")
                    return cs if isinstance(op, ast.In) else ~cs
            if len(e.ops) == 2 and is_var(e.comparators[0]) and all(isinstance(o, (ast.LtE, ast.Lt)) for o in e.ops):
                lo = const_string(self.m, self.fn, e.left)
                hi = const_string(self.m, self.fn, e.comparators[1])
                if len(lo) == 1 and len(hi) == 1:
                    a = ord(lo) + (1 if isinstance(e.ops[0], ast.Lt) else 0)
                    b = ord(hi) - (1 if isinstance(e.ops[1], ast.Lt) else 0)
                    self._note("'a' <= c <= 'z'")
                    return R.CharSet([(a, b)])
            # ord(c) <op> n  /  a <= ord(c) <= b
            def is_ord(x: ast.AST) -> bool:
                return isinstance(x, ast.Call) and pf.dotted(x.func) == 'ord' and len(x.args) == 1 and not x.keywords and is_var(x.args[0])
            if len(e.ops) == 1 and is_ord(e.left) and _int_const(e.comparators[0]) is not None:
                n = _int_const(e.comparators[0])
                assert n is not None
                table = {ast.Lt: (0, n - 1), ast.LtE: (0, n), ast.Gt: (n + 1, R.MAXCP), ast.GtE: (n, R.MAXCP), ast.Eq: (n, n)}
                if type(e.ops[0]) in table:
                    a, b = table[type(e.ops[0])]
                    self._note('ord(c) <op> n')
                    return R.CharSet([(max(a, 0), min(b, R.MAXCP))])
                if isinstance(e.ops[0], ast.NotEq):
                    return ~R.CharSet([(max(n, 0), min(n, R.MAXCP))]) if 0 <= n <= R.MAXCP else R.ANY
            if len(e.ops) == 2 and is_ord(e.comparators[0]) and all(isinstance(o, (ast.LtE, ast.Lt)) for o in e.ops) \
                    and _int_const(e.left) is not None and _int_const(e.comparators[1]) is not None:
                a = _int_const(e.left) + (1 if isinstance(e.ops[0], ast.Lt) else 0)  # type: ignore[operator]
                b = _int_const(e.comparators[1]) - (1 if isinstance(e.ops[1], ast.Lt) else 0)  # type: ignore[operator]
                self._note('a <= ord(c) <= b')
                return R.CharSet([(max(a, 0), min(b, R.MAXCP))])
        self._fail(e, 'character predicate')
        raise AssertionError

    # ---- string predicates
    def cond(self, e: ast.AST) -> R.Lang:
        """Language of the values of `param` for which e is truthy."""
        return self.cond2(e)[0]

    def cond2(self, e: ast.AST) -> Pair:
        """(language on which e is truthy, language on which e is falsy); on all other strings the evaluation raises."""
        if isinstance(e, ast.BoolOp):
            T, F = self.cond2(e.values[0])
            for v in e.values[1:]:
                T2, F2 = self.cond2(v)
                if isinstance(e.op, ast.And):
                    T, F = T & T2, F | (T & F2)
                else:
                    T, F = T | (F & T2), F & F2
            return T, F
        if isinstance(e, ast.UnaryOp) and isinstance(e.op, ast.Not):
            T, F = self.cond2(e.operand)
            return F, T
        if isinstance(e, ast.Constant):
            return (R.everything(), R.nothing()) if e.value else (R.nothing(), R.everything())
        if isinstance(e, ast.IfExp):
            Tt, Ft = self.cond2(e.test)
            Ta, Fa = self.cond2(e.body)
            Tb, Fb = self.cond2(e.orelse)
            return (Tt & Ta) | (Ft & Tb), (Tt & Fa) | (Ft & Fb)
        return self._atomic(e)

    def _scan(self, e: ast.AST) -> List[tuple]:
        """The chains of the maximal sub-expressions of e that are normalised copies of the parameter (and of the split locals)."""
        out: List[tuple] = []
        bound = {self.param} | set(self.env)

        def walk(n: ast.AST) -> None:
            ch = self._chain(n)
            if ch is not None:
                out.append(ch)
                return
            if isinstance(n, ast.Name):
                ent = self.env.get(n.id)
                if ent is not None and ent[0] == 'parts':
                    out.append(ent[1])
                elif ent is not None:
                    out.append(())
                return
            if isinstance(n, ast.comprehension):
                for x in ast.walk(n.target):
                    if isinstance(x, ast.Name) and x.id in bound:
                        raise AnalysisError(f'{self.m.rel}: comprehension variable shadows `{x.id}` (line {getattr(x, "lineno", "?")})')
            if isinstance(n, ast.Lambda):
                raise AnalysisError(f'{self.m.rel}: lambda inside a string predicate (line {n.lineno})')
            for c in ast.iter_child_nodes(n):
                walk(c)

        walk(e)
        return out

    def _atomic(self, e: ast.AST) -> Pair:
        chains = self._scan(e)
        if chains:
            n = 0
            first = chains[0]
            while n < len(first) and all(len(c) > n and c[n] == first[n] for c in chains):
                n += 1
            prefix = first[:n]
            if prefix:
                # every use of the parameter in e goes through the same normalisation: translate over the normalised value v and
                # take the preimage
                import copy
                Translator._fresh[0] += 1
                fresh = f'_v{Translator._fresh[0]}'
                outer = self

                class Sub(ast.NodeTransformer):
                    def visit(self, node):  # noqa: N802
                        if isinstance(node, ast.expr) and outer._chain(node) == prefix:
                            outer.display.setdefault(fresh, outer._text(node))
                            return ast.copy_location(ast.Name(id=fresh, ctx=ast.Load()), node)
                        return self.generic_visit(node)

                e2 = Sub().visit(copy.deepcopy(e))
                env2: Dict[str, tuple] = {}
                for name, ent in self.env.items():
                    if ent[0] in ('alias', 'parts') and ent[1][:n] == prefix and len(ent[1]) >= n:
                        if ent[0] == 'alias' and len(ent[1]) == n:
                            continue  # replaced by the fresh variable
                        env2[name] = (ent[0], ent[1][n:]) + tuple(ent[2:])
                sub = self._sub(fresh, env2)
                T, F = sub.cond2(e2)
                return self.preimage(T, prefix), self.preimage(F, prefix)
        return self._base(e)

    def _elementwise(self, e: ast.AST) -> Optional[Pair]:
        """e mentions the parameter only as s[k] for one constant index k: a predicate on that character (IndexError otherwise)."""
        idx: List[int] = []
        other = [False]

        def walk(n: ast.AST) -> None:
            if isinstance(n, ast.Subscript) and self._is_param(n.value) and not isinstance(n.slice, ast.Slice):
                k = _int_const(n.slice)
                if k is None:
                    other[0] = True
                else:
                    idx.append(k)
                return
            if self._is_param(n):
                other[0] = True
                return
            for c in ast.iter_child_nodes(n):
                walk(c)

        walk(e)
        if not idx or other[0] or len(set(idx)) != 1 or abs(idx[0]) > _LEN_LIMIT:
            return None
        k = idx[0]
        import copy
        Translator._fresh[0] += 1
        fresh = f'_c{Translator._fresh[0]}'
        outer = self

        class Sub(ast.NodeTransformer):
            def visit_Subscript(self, node):  # noqa: N802
                if outer._is_param(node.value) and _int_const(node.slice) == k:
                    outer.display.setdefault(fresh, outer._text(node))
                    return ast.copy_location(ast.Name(id=fresh, ctx=ast.Load()), node)
                return self.generic_visit(node)

        e2 = Sub().visit(copy.deepcopy(e))
        sub = self._sub(fresh)
        T, F = sub.cond2(e2)
        one = _one_char()
        anyc = R.anychar()
        self._note(f's[{k}]')

        def place(L: R.Lang) -> R.Lang:
            c = R.as_re(L & one)
            if k >= 0:
                return R.lang(R.seq(_any_n(k), c, R.star(anyc)), f's[{k}] in {L.label}')
            return R.lang(R.seq(R.star(anyc), c, _any_n(-k - 1)), f's[{k}] in {L.label}')
        return place(T), place(F)

    def _len_cmp(self, op: ast.cmpop, n: int) -> Optional[R.Lang]:
        anyc = R.anychar()
        if not -1 <= n <= _LEN_LIMIT:
            return None
        table = {ast.Lt: (0, n - 1), ast.LtE: (0, n), ast.Gt: (n + 1, None), ast.GtE: (n, None), ast.Eq: (n, n)}
        if type(op) in table:
            lo, hi = table[type(op)]
            lo = max(lo, 0)
            if hi is not None and hi < 0:
                return R.nothing()
            return R.lang(R.rep(anyc, lo, hi), f'len in [{lo},{hi}]')
        if isinstance(op, ast.NotEq):
            if n < 0:
                return R.everything()
            return ~R.lang(R.rep(anyc, n, n), f'len == {n}')
        return None

    def _is_len(self, x: ast.AST) -> bool:
        return isinstance(x, ast.Call) and pf.dotted(x.func) == 'len' and len(x.args) == 1 and not x.keywords and self._is_param(x.args[0])

    def _is_set_of_param(self, x: ast.AST) -> bool:
        return isinstance(x, ast.Call) and pf.dotted(x.func) in ('set', 'frozenset') and len(x.args) == 1 and not x.keywords \
            and self._is_param(x.args[0])

    def _base(self, e: ast.AST) -> Pair:
        anyc = R.anychar()
        el = self._elementwise(e)
        if el is not None:
            return el
        if isinstance(e, ast.Name):
            ent = self.env.get(e.id)
            if ent is not None and ent[0] in ('match', 'bool'):
                return ent[1], ent[2]
        if self._is_param(e):
            self._note('truthiness of the string')
            return _total(R.lang(R.plus(anyc), 'non-empty'))
        if isinstance(e, ast.Compare) and len(e.ops) == 1:
            op, left, right = e.ops[0], e.left, e.comparators[0]
            is_none = isinstance(right, ast.Constant) and right.value is None and isinstance(op, (ast.Is, ast.IsNot, ast.Eq, ast.NotEq))
            negate = isinstance(op, (ast.Is, ast.Eq))
            if is_none and isinstance(left, ast.Constant):
                v = (left.value is None) == negate
                return (R.everything(), R.nothing()) if v else (R.nothing(), R.everything())
            if is_none and self._is_param(left):
                self._note('x is None')
                return (R.nothing(), R.everything()) if negate else (R.everything(), R.nothing())
            if is_none and isinstance(left, ast.Name) and self.env.get(left.id, ('',))[0] == 'match':
                _k, T, F = self.env[left.id]
                return (F, T) if negate else (T, F)
            # regex call compared with None
            if is_none and isinstance(left, ast.Call):
                L = self._regex(left)
                if L is not None:
                    return _total(~L if negate else L)
            if isinstance(op, (ast.In, ast.NotIn)):
                if self._is_param(right):
                    s = const_string(self.m, self.fn, left)
                    self._note("'lit' in s")
                    L = R.lang(R.seq(R.star(anyc), R.lit(s), R.star(anyc)), f'contains {s!r}')
                    return _total(L if isinstance(op, ast.In) else ~L)
                if self._is_param(left):
                    lits: Optional[List[str]] = None
                    if isinstance(right, (ast.Tuple, ast.List, ast.Set)):
                        lits = self._lits(right)
                    elif isinstance(right, ast.Name) and not _is_local(self.fn, right.id):
                        v2 = None
                        try:
                            v2 = module_const(self.m, right.id) if right.id not in imports_of(self.m) else None
                        except AnalysisError:
                            v2 = None
                        if isinstance(v2, (ast.Tuple, ast.List, ast.Set)):
                            lits = [const_string(self.m, None, x) for x in v2.elts]
                        elif isinstance(v2, ast.Call) and pf.dotted(v2.func) in ('set', 'frozenset', 'tuple', 'list') and len(v2.args) == 1 \
                                and isinstance(v2.args[0], (ast.Tuple, ast.List, ast.Set)):
                            lits = [const_string(self.m, None, x) for x in v2.args[0].elts]
                    if lits is not None:
                        self._note("s in ('a', 'b')")
                        L = R.lang(self._any_of(lits), f'one of {lits!r}')
                        return _total(L if isinstance(op, ast.In) else ~L)
                    # `s in 'literal'`: substring test
                    w = const_string(self.m, self.fn, right)
                    if len(w) > 128:
                        raise AnalysisError(f'{self.m.rel}: substring test against a long literal `{pf.nsrc(e)[:60]}`')
                    alts = [R.EPS]
                    for i in range(len(w)):
                        r: R.Re = R.EPS
                        for j in range(len(w) - 1, i, -1):
                            r = R.opt(R.seq(R.lit(w[j]), r))
                        alts.append(R.seq(R.lit(w[i]), r))
                    self._note("s in 'literal'")
                    L = R.lang(R.alt(*alts), f'substring of {w!r}')
                    return _total(L if isinstance(op, ast.In) else ~L)
            if isinstance(op, (ast.Eq, ast.NotEq)) and (self._is_param(left) or self._is_param(right)):
                other = right if self._is_param(left) else left
                ch = self._chain(other)
                if ch is not None:
                    L = R.everything() if not ch else self._fixed(ch, e)
                else:
                    s = const_string(self.m, self.fn, other)
                    self._note("s == 'lit'")
                    L = R.lang(R.lit(s), f'== {s!r}')
                return _total(L if isinstance(op, ast.Eq) else ~L)
            # len(s) <op> n   /   n <op> len(s)
            if self._is_len(left) and _int_const(right) is not None:
                L2 = self._len_cmp(op, _int_const(right))  # type: ignore[arg-type]
                if L2 is not None:
                    self._note('len(s) <op> n')
                    return _total(L2)
            if self._is_len(right) and _int_const(left) is not None:
                flip = {ast.Lt: ast.Gt, ast.LtE: ast.GtE, ast.Gt: ast.Lt, ast.GtE: ast.LtE, ast.Eq: ast.Eq, ast.NotEq: ast.NotEq}
                if type(op) in flip:
                    L2 = self._len_cmp(flip[type(op)](), _int_const(left))  # type: ignore[arg-type]
                    if L2 is not None:
                        self._note('len(s) <op> n')
                        return _total(L2)
            # set(s) <= set(ALLOWED) and friends
            if isinstance(op, (ast.LtE, ast.Lt, ast.GtE, ast.Gt)):
                sub_e, sup_e = (left, right) if isinstance(op, (ast.LtE, ast.Lt)) else (right, left)
                if self._is_set_of_param(sub_e) and isinstance(op, (ast.LtE, ast.GtE)):
                    cs = self._charset_of(sup_e, e)
                    self._note('set(s) <= set(ALLOWED)')
                    return _total(R.lang(R.star(R.chars(cs)), f'all chars in {cs.describe(4)}'))
        if isinstance(e, ast.Compare) and len(e.ops) == 2 and self._is_len(e.comparators[0]) \
                and _int_const(e.left) is not None and _int_const(e.comparators[1]) is not None:
            flip = {ast.Lt: ast.Gt, ast.LtE: ast.GtE, ast.Gt: ast.Lt, ast.GtE: ast.LtE, ast.Eq: ast.Eq}
            if type(e.ops[0]) in flip and type(e.ops[1]) in flip:
                a = self._len_cmp(flip[type(e.ops[0])](), _int_const(e.left))  # type: ignore[arg-type]
                b = self._len_cmp(e.ops[1], _int_const(e.comparators[1]))  # type: ignore[arg-type]
                if a is not None and b is not None:
                    self._note('a <= len(s) <= b')
                    return _total(a & b)
        if isinstance(e, ast.BinOp) and isinstance(e.op, (ast.Sub, ast.BitAnd)) and self._is_set_of_param(e.left):
            cs = self._charset_of(e.right, e)
            hit = cs if isinstance(e.op, ast.BitAnd) else ~cs
            self._note('set(s) - set(ALLOWED)')
            return _total(R.lang(R.seq(R.star(anyc), R.chars(hit), R.star(anyc)), f'some char in {hit.describe(4)}'))
        if isinstance(e, ast.Compare) and len(e.ops) == 1 and isinstance(e.ops[0], (ast.In, ast.NotIn)) and not self._is_param(e.comparators[0]):
            ps = self.parts_spec(e.comparators[0])
            if ps is not None and not ps[0]:
                w = const_string(self.m, self.fn, e.left)
                hit = R.lang(R.lit(w), f'== {w!r}')
                allpass, hitl = self.iterate('parts', ~hit, hit, ps[1], ps[2])
                self._note("'lit' in <parts of s>")
                return (hitl, allpass) if isinstance(e.ops[0], ast.In) else (allpass, hitl)
        if isinstance(e, ast.Call):
            L = self._regex(e)
            if L is not None:
                return _total(L)
            f = e.func
            name = pf.dotted(f)
            if name in ('all', 'any') and len(e.args) == 1 and not e.keywords and not isinstance(e.args[0], (ast.GeneratorExp, ast.ListComp)):
                ps = self.parts_spec(e.args[0])
                if ps is not None and not ps[0]:
                    nonempty = R.lang(R.plus(anyc), 'non-empty')
                    if name == 'all':
                        allpass, hitl = self.iterate('parts', nonempty, ~nonempty, ps[1], ps[2])
                        return allpass, hitl
                    allpass, hitl = self.iterate('parts', ~nonempty, nonempty, ps[1], ps[2])
                    return hitl, allpass
            helper = self._helper(e)
            if helper is not None:
                return helper
            if name == 'bool' and len(e.args) == 1 and not e.keywords:
                return self.cond2(e.args[0])
            if name == 'len' and len(e.args) == 1 and self._is_param(e.args[0]):
                return _total(R.lang(R.plus(anyc), 'non-empty'))
            if name == 'isinstance' and len(e.args) == 2 and self._is_param(e.args[0]) and pf.dotted(e.args[1]) == 'str':
                self._note('isinstance(s, str)')
                return R.everything(), R.nothing()
            if isinstance(f, ast.Attribute) and self._is_set_of_param(f.value) and len(e.args) == 1 and not e.keywords \
                    and f.attr in ('issubset', 'isdisjoint'):
                cs = self._charset_of(e.args[0], e)
                self._note(f'set(s).{f.attr}(ALLOWED)')
                return _total(R.lang(R.star(R.chars(cs if f.attr == 'issubset' else ~cs)), f'{f.attr} {cs.describe(4)}'))
            if isinstance(f, ast.Attribute) and f.attr == 'issuperset' and len(e.args) == 1 and not e.keywords \
                    and (self._is_param(e.args[0]) or self._is_set_of_param(e.args[0])) \
                    and isinstance(f.value, ast.Call) and pf.dotted(f.value.func) in ('set', 'frozenset'):
                cs = self._charset_of(f.value, e)
                self._note('set(ALLOWED).issuperset(s)')
                return _total(R.lang(R.star(R.chars(cs)), f'all chars in {cs.describe(4)}'))
            if isinstance(f, ast.Attribute) and self._is_param(f.value) and not e.keywords:
                if f.attr in ('startswith', 'endswith') and len(e.args) == 1:
                    lits = self._lits(e.args[0])
                    self._note(f's.{f.attr}(lit)')
                    body = self._any_of(lits)
                    r = R.seq(body, R.star(anyc)) if f.attr == 'startswith' else R.seq(R.star(anyc), body)
                    return _total(R.lang(r, f'{f.attr} {lits!r}'))
                if not e.args:
                    W = whole_string_predicate(f.attr)
                    if W is not None:
                        self._note(f's.{f.attr}()')
                        return _total(W)
            if name in ('all', 'any') and len(e.args) == 1 and not e.keywords and isinstance(e.args[0], (ast.GeneratorExp, ast.ListComp)):
                g = e.args[0]
                if len(g.generators) == 1 and not g.generators[0].is_async and isinstance(g.generators[0].target, ast.Name):
                    gen = g.generators[0]
                    var = gen.target.id  # type: ignore[union-attr]
                    if self._is_param(gen.iter):
                        # fast path: pure character predicates
                        try:
                            cs = self.charset(g.elt, var)
                            filt = R.ANY
                            for cnd in gen.ifs:
                                filt = filt & self.charset(cnd, var)
                            self._note(f'{name}(P(c) for c in s)')
                            if name == 'all':
                                return _total(R.lang(R.star(R.chars(cs | ~filt)), f'all chars in {cs.describe(4)}'))
                            return _total(R.lang(R.seq(R.star(anyc), R.chars(cs & filt), R.star(anyc)), f'some char in {cs.describe(4)}'))
                        except AnalysisError:
                            pass
                    spec = self.iter_spec(gen.iter)
                    if spec is not None and not spec[0]:
                        _chain, kind, sep, plus = spec
                        sub = self._sub(var)
                        Te, Fe = sub.cond2(g.elt)
                        Tq, Fq = R.everything(), R.nothing()
                        for cnd in gen.ifs:
                            T2, F2 = sub.cond2(cnd)
                            Tq, Fq = Tq & T2, Fq | (Tq & F2)
                        if name == 'all':
                            passing, hit = Fq | (Tq & Te), Tq & Fe
                        else:
                            passing, hit = Fq | (Tq & Fe), Tq & Te
                        allpass, hitl = self.iterate(kind, passing, hit, sep, plus)
                        self._note(f'{name}(P(x) for x in <{kind} of s>)')
                        return (allpass, hitl) if name == 'all' else (hitl, allpass)
        self._fail(e)
        raise AssertionError

    _helper_depth = [0]

    def helper_function(self, e: ast.AST) -> Optional[pf.FuncDef]:
        """e is `f(<the parameter>)` for a plain module-level function f of this module with one parameter -> f"""
        if not (isinstance(e, ast.Call) and isinstance(e.func, ast.Name) and len(e.args) == 1 and not e.keywords and self._is_param(e.args[0])):
            return None
        name = e.func.id
        if _is_local(self.fn, name) or name in imports_of(self.m) or not self.m.has_func(name):
            return None
        h = self.m.func(name)
        a = h.args
        if not isinstance(h, ast.FunctionDef) or h.decorator_list or len(a.args) + len(a.posonlyargs) != 1 or a.vararg or a.kwarg or a.kwonlyargs:
            raise AnalysisError(f'{self.m.rel}: helper `{name}` has a shape that is not recognised')
        b = module_bindings(self.m, name)
        if len(b) != 1 or b[0] is not h:
            raise AnalysisError(f'{self.m.rel}: `{name}` has more than one module-level binding')
        return h

    def helper_languages(self, h: pf.FuncDef) -> Pair:
        """(argument strings for which the helper returns a truthy value, ... returns a falsy value); it raises on the rest."""
        if Translator._helper_depth[0] >= 3:
            raise AnalysisError(f'{self.m.rel}: helper calls nested too deeply at `{h.name}`')
        Translator._helper_depth[0] += 1
        try:
            hp = (h.args.posonlyargs + h.args.args)[0].arg
            T, tr1 = function_language(self.m, h, hp, 'bool', self.roots)
            NR, _tr2 = function_language(self.m, h, hp, 'no-raise', self.roots)
        finally:
            Translator._helper_depth[0] -= 1
        for u in tr1.regex_uses:
            self.regex_uses.append(u)
        for i in tr1.idioms:
            self._note(i)
        self._note(f'helper {h.name}()')
        return T, NR & ~T

    def _helper(self, e: ast.AST) -> Optional[Pair]:
        h = self.helper_function(e)
        return None if h is None else self.helper_languages(h)

    def _regex(self, call: ast.Call) -> Optional[R.Lang]:
        rc = regex_call(self.m, self.fn, call, self.roots)
        if rc is None:
            return None
        rd, mode, subject = rc
        if not self._is_param(subject):
            raise AnalysisError(f'{self.m.rel}: regex `{self._text(call)}` is applied to `{self._text(subject)}`, not to the parameter {self.param}')
        self.regex_uses.append({'call': self._text(call), 'mode': mode, 'pattern': rd.pattern, 'flags': rd.flags, 'defined': rd.where,
                                'line': getattr(call, 'lineno', 0)})
        self._note(f'regex.{mode}')
        return R.from_regex(rd.pattern, rd.flags, mode)


def function_language(m: pf.Module, fn: pf.FuncDef, param: str, accept: str, package_roots: Optional[Dict[str, str]] = None
                      ) -> Tuple[R.Lang, Translator]:
    """Language of the strings accepted by a validator function of one string parameter.
       accept='bool'      accepted = the function returns a truthy value
       accept='no-raise'  accepted = the function returns (anything) without raising
    Recognised statements: docstring, pass, if/elif/else, return, raise, assert, `for` over the characters / split parts of the
    string (bodies of the same statements plus continue), bindings of regex objects, string literals, normalised copies of the
    parameter (also rebinding the parameter itself), split results, match objects and booleans.  Anything else -> AnalysisError."""
    if accept not in ('bool', 'no-raise'):
        raise AnalysisError('function_language: bad accept mode')
    tr = Translator(m, fn, param, package_roots)
    params = [a.arg for a in fn.args.args + fn.args.posonlyargs + fn.args.kwonlyargs]
    if param not in params:
        raise AnalysisError(f'{m.rel}::{fn.name}: no parameter named {param}')
    for b in pf.assignments(fn).get(param, []):
        if not isinstance(b, (ast.arg, ast.expr)):
            raise AnalysisError(f'{m.rel}::{fn.name}: parameter {param} is rebound by a statement that is not a plain assignment')
    budget = [4000]
    where = f'{m.rel}::{fn.name}'
    nothing, everything = R.nothing(), R.everything()

    def bind(t: Translator, st: ast.stmt, name: str, value: ast.expr, env: Dict[str, tuple]) -> Optional[Dict[str, tuple]]:
        """Environment after `name = value` when the value is something the translation can follow, else None."""
        t.env = env
        ch = t._chain(value)
        if ch is not None:
            return {**env, name: ('alias', ch)}
        ps = t.parts_spec(value)
        if ps is not None:
            return {**env, name: ('parts',) + ps}
        if isinstance(value, ast.Call) and regex_call(m, fn, value, package_roots) is not None:
            T, F = t.cond2(value)
            return {**env, name: ('match', T, F)}
        return None

    def run(t: Translator, stmts: List[ast.stmt], env: Dict[str, tuple], in_loop: bool) -> Tuple[R.Lang, R.Lang]:
        """(A, C): values of t.param for which executing stmts ends in an accepting return / falls off the end (or `continue`s)."""
        budget[0] -= 1
        if budget[0] < 0:
            raise AnalysisError(f'{where}: too many paths for the decision-list translation')
        if not stmts:
            return nothing, everything
        st, rest = stmts[0], list(stmts[1:])
        t.env = env
        if isinstance(st, ast.Expr) and isinstance(st.value, ast.Constant):
            return run(t, rest, env, in_loop)
        if isinstance(st, ast.Pass):
            return run(t, rest, env, in_loop)
        if isinstance(st, ast.If):
            Tt, Ft = t.cond2(st.test)
            A1, C1 = run(t, list(st.body) + rest, env, in_loop)
            A2, C2 = run(t, list(st.orelse) + rest, env, in_loop)
            return (Tt & A1) | (Ft & A2), (Tt & C1) | (Ft & C2)
        if isinstance(st, ast.Return):
            v = st.value
            if v is None or (isinstance(v, ast.Constant)):
                ok = accept == 'no-raise' or bool(v is not None and v.value)  # type: ignore[union-attr]
                return (everything if ok else nothing), nothing
            if accept == 'no-raise' and isinstance(v, ast.Name):
                return everything, nothing
            T, F = t.cond2(v)
            return ((T | F) if accept == 'no-raise' else T), nothing
        if isinstance(st, ast.Raise):
            return nothing, nothing
        if isinstance(st, ast.Continue) and in_loop:
            return nothing, everything
        if isinstance(st, ast.Assert):
            Tt, _Ft = t.cond2(st.test)
            A, C = run(t, rest, env, in_loop)
            return Tt & A, Tt & C
        if isinstance(st, (ast.Assign, ast.AnnAssign)):
            tgt = st.targets[0] if isinstance(st, ast.Assign) and len(st.targets) == 1 else getattr(st, 'target', None)
            if isinstance(tgt, ast.Name) and st.value is not None:
                if tgt.id == t.param:
                    ch = t._chain(st.value)
                    if ch is None or env:
                        raise AnalysisError(f'{where}: `{pf.nsrc(st)[:80]}` rebinds the validated variable in a way that is not recognised (line {st.lineno})')
                    A, C = run(t, rest, {}, in_loop)
                    return t.preimage(A, ch), t.preimage(C, ch)
                env2 = bind(t, st, tgt.id, st.value, env)
                if env2 is not None:
                    return run(t, rest, env2, in_loop)
                if pf.single_def(fn, tgt.id) is st.value:
                    # a regex object or a string literal; uses are resolved through def-use when they occur
                    try:
                        resolve_regex(m, fn, st.value, package_roots)
                        return run(t, rest, env, in_loop)
                    except AnalysisError:
                        pass
                    try:
                        const_string(m, fn, st.value)
                        return run(t, rest, env, in_loop)
                    except AnalysisError:
                        pass
                # a boolean computed from the string
                T, F = t.cond2(st.value)
                A, C = run(t, rest, {**env, tgt.id: ('bool', T, F)}, in_loop)
                ok = T | F
                return ok & A, ok & C
        if isinstance(st, ast.Expr) and isinstance(st.value, ast.Call) and isinstance(st.value.func, ast.Name) \
                and m.has_func(st.value.func.id) and not _is_local(fn, st.value.func.id):
            # a checking helper called for its exception: the statement passes where the call returns anything
            Th, Fh = t.cond2(st.value)
            ok = Th | Fh
            A, C = run(t, rest, env, in_loop)
            return ok & A, ok & C
        if isinstance(st, ast.For) and isinstance(st.target, ast.Name):
            spec = t.iter_spec(st.iter)
            if spec is None:
                raise AnalysisError(f'{where}: cannot tell what `for {pf.nsrc(st.target)} in {pf.nsrc(st.iter)[:60]}` iterates over (line {st.lineno})')
            chain, kind, sep, plus = spec
            for x in ast.walk(st):
                if isinstance(x, ast.Break):
                    raise AnalysisError(f'{where}: `break` inside a loop over the string is not recognised (line {x.lineno})')
            var = st.target.id
            if var == t.param or var in env:
                raise AnalysisError(f'{where}: loop variable {var} shadows a tracked name (line {st.lineno})')
            sub = t._sub(var)
            Ab, Cb = run(sub, list(st.body), {}, True)
            t.env = env
            allc, hitl = t.iterate(kind, Cb, Ab, sep, plus)
            allc, hitl = t.preimage(allc, chain), t.preimage(hitl, chain)
            t._note(f'for x in <{kind} of s>')
            A, C = run(t, list(st.orelse) + rest, env, in_loop)
            return hitl | (allc & A), allc & C
        raise AnalysisError(f'{where}: unrecognised statement `{pf.nsrc(st)[:80]}` (line {st.lineno})')

    A, C = run(tr, list(fn.body), {}, False)
    return (A | C if accept == 'no-raise' else A), tr
