"""typerules - the engines for C36 ("front-end types agree with the IR it emits").

Part 1  RELATIONAL TYPING RULES, PYTHON vs SCALA  (sibling agreement)
    The Python front end computes the type of every Table/Matrix IR node in `_compute_type`; the engine computes it in the Scala
    `typ` member of the case class with the same name.  Both are translated into one normal form over a tiny algebra of ordered
    struct operations

        comp(child, global|row|col|entry)      a component struct of a relational child             key(child, row|col)
        concat(s1, s2, ...)  (ordered)         sel(s, k)  key fields of s in key order              drop(s, k)  s without the fields k
        field(name, t)                         rename(s, map)          mapty(s, array)              inspath(s, path, t)
        typ(p)  type of a value-IR child       array(t) elt(t) ftype(s, name) atpath(s, path)       names(s)  kcat kdrop kren opt klit

    in which a struct is an ORDERED list of field groups: comp(c,row) is NOT interchangeable with sel(comp(c,row),key(c,row)) ++
    drop(comp(c,row),key(c,row)) (they coincide only when the key fields lead the row).  `insert field` is normalised to
    `concat(s, field)` (fresh-name assumption, stated by the caller).  Conditions on node parameters (`product`, `joinType ==
    "inner"`) are enumerated as valuations and both sides are evaluated under each.  A component that either side cannot be
    translated for is reported as untranslated - never as a disagreement.

    The Python side is an `ast` interpreter of `_compute_type` (+ the property/method definitions of ttable / tmatrix).  The Scala
    side is a small tokenizer + Pratt parser for the expression subset that occurs in the `typ` members (blocks with val/def,
    if/else, named arguments, lambdas, infix `++` / `->`, `match` on `Field(...)`) and an interpreter that resolves names through
    the case-class parameters, the members of the class and the members of TableType / MatrixType.

Part 2  BINDER TYPING  (the type a bound variable is created with vs the type of the value the emitted IR binds to that name)
    see `BinderTable` and `Flow` below.

Part 3  STATIC INDEX DOMAIN (R11)   lower-bound analysis of the python int that indexes a tuple type at every GetTupleElement construction
Part 4  CHILDREN AGREE (R12)        agreement facts, path by path, for the children of union-like relational nodes vs TypeCheck.scala

Nothing is imported or executed from the repository.  Unknown shapes become opaque terms ('?', reason) / AnalysisError - never a verdict.
"""
from __future__ import annotations

import ast
import re
from typing import Any, Callable, Dict, FrozenSet, Iterable, List, Optional, Sequence, Set, Tuple

from . import irclasses as ic
from . import pyfacts as pf
from . import scalalite as sl
from .common import AnalysisError

Term = Any

# ======================================================================================================================
# Part 1a: terms
# ======================================================================================================================

EMPTY: Term = ('empty',)


def opaque(reason: str) -> Term:
    return ('?', reason)


def has_opaque(t: Term) -> Optional[str]:
    if isinstance(t, tuple):
        if t and t[0] == '?':
            return t[1]
        for x in t:
            r = has_opaque(x)
            if r:
                return r
    elif isinstance(t, (list, frozenset)):
        for x in t:
            r = has_opaque(x)
            if r:
                return r
    return None


def s_concat(*parts: Term) -> Term:
    out: List[Term] = []
    for p in parts:
        if p == EMPTY:
            continue
        if isinstance(p, tuple) and p and p[0] == 'concat':
            out.extend(p[1])
        elif isinstance(p, tuple) and p and p[0] == 'lit' and not p[1]:
            continue
        else:
            out.append(p)
    if not out:
        return EMPTY
    if len(out) == 1:
        return out[0]
    return ('concat', tuple(out))


def s_field(name: Term, typ: Term) -> Term:
    return ('field', name, typ)


def s_insert(s: Term, name: Term, typ: Term) -> Term:
    """insert / append one field: normalised to an append (fresh-name assumption)."""
    return s_concat(s, s_field(name, typ))


def s_lit(fields: Sequence[Tuple[Term, Term]]) -> Term:
    return s_concat(*[s_field(n, t) for n, t in fields])


def s_inspath(s: Term, path: Term, typ: Term) -> Term:
    if isinstance(path, tuple) and path[0] == 'klit' and len(path[1]) == 1:
        return s_insert(s, path[1][0], typ)
    return ('inspath', s, path, typ)


def k_cat(*parts: Term) -> Term:
    out: List[Term] = []
    for p in parts:
        if isinstance(p, tuple) and p[0] == 'klit':
            # adjacent literals merge
            if out and out[-1][0] == 'klit':
                out[-1] = ('klit', out[-1][1] + p[1])
            elif p[1]:
                out.append(p)
        elif isinstance(p, tuple) and p[0] == 'kcat':
            for q in p[1]:
                out.append(q)
        else:
            out.append(p)
    if not out:
        return ('klit', ())
    if len(out) == 1:
        return out[0]
    return ('kcat', tuple(out))


def t_elt(t: Term) -> Term:
    if isinstance(t, tuple) and t[0] in ('array', 'stream', 'set'):
        return t[1]
    return ('elt', t)


def t_ftype(s: Term, name: Term) -> Term:
    # field type of a literal / concat whose last matching group is a single field of that name
    if isinstance(s, tuple) and s[0] == 'field' and s[1] == name:
        return s[2]
    if isinstance(s, tuple) and s[0] == 'concat':
        for g in s[1]:
            if g[0] == 'field' and g[1] == name:
                return g[2]
    return ('ftype', s, name)


def show(t: Term) -> str:
    """Readable rendering of a term (messages only)."""
    if not isinstance(t, tuple) or not t:
        return repr(t)
    h = t[0]
    if h == 'p':
        return t[1]
    if h == 's':
        return repr(t[1])
    if h == 'at':
        return f'{show(t[1])}[{t[2]}]'
    if h == 'comp':
        return f'{show(t[1])}.{t[2]}'
    if h == 'key':
        return f'{show(t[1])}.{t[2]}_key'
    if h == 'typ':
        return f'typeof({show(t[1])})'
    if h == 'concat':
        return ' ++ '.join(show(x) for x in t[1])
    if h == 'sel':
        return f'{show(t[1])}[{show(t[2])}]'
    if h == 'drop':
        return f'({show(t[1])} minus {show(t[2])})'
    if h == 'field':
        return '{' + f'{show(t[1])}: {show(t[2])}' + '}'
    if h == 'empty':
        return '{}'
    if h == 'klit':
        return '[' + ', '.join(show(x) for x in t[1]) + ']'
    if h == 'kcat':
        return ' + '.join(show(x) for x in t[1])
    if h == 'kdrop':
        return f'{show(t[1])}[{show(t[2])}:]'
    if h == 'ktake':
        return f'{show(t[1])}[:{show(t[2])}]'
    if h == 'kren':
        return f'rename({show(t[1])}, {show(t[2])})'
    if h == 'rename':
        return f'rename({show(t[1])}, {show(t[2])})'
    if h == 'names':
        return f'fieldnames({show(t[1])})'
    if h == 'opt':
        return f'({show(t[1])} or else {show(t[2])})'
    if h in ('array', 'stream', 'set', 'elt'):
        return f'{h}({show(t[1])})'
    if h == 'mapty':
        return f'each_field_{t[2]}({show(t[1])})'
    if h == 'ftype':
        return f'{show(t[1])}.{show(t[2])}'
    if h == 'prim':
        return t[1]
    if h == '?':
        return f'<?{t[1]}>'
    return h + '(' + ', '.join(show(x) if isinstance(x, tuple) else repr(x) for x in t[1:]) + ')'


# ======================================================================================================================
# Part 1b: Scala subset - tokenizer and parser
# ======================================================================================================================

Tok = Tuple[str, str, int]  # kind (id num str op p nl), text, offset

_OPCH = set('+-*/%<>=!&|^~:?#@\\')
_KW = {'if', 'else', 'val', 'var', 'def', 'lazy', 'match', 'case', 'new', 'throw', 'private', 'protected', 'override', 'final',
       'implicit', 'true', 'false', 'null', 'this', 'extends', 'with', 'class', 'object', 'trait', 'import', 'for', 'while', 'yield',
       'return', 'try', 'catch', 'finally', 'abstract', 'sealed', 'type'}


class ScalaSyntax(AnalysisError):
    pass


def sc_tokenize(text: str, base: int = 0, where: str = 'scala') -> List[Tok]:
    toks: List[Tok] = []
    i, n = 0, len(text)
    while i < n:
        c = text[i]
        if c == '\n':
            toks.append(('nl', '\n', base + i))
            i += 1
        elif c in ' \t\r':
            i += 1
        elif c == '"' or (c in 'sf' and text.startswith('"', i + 1)) or (text.startswith('raw"', i)):
            j = text.index('"', i)
            interp = j > i
            if text.startswith('"""', j):
                k = text.find('"""', j + 3)
                if k < 0:
                    raise ScalaSyntax(f'{where}: unterminated triple-quoted string')
                toks.append(('str', text[j + 3:k], base + i))
                i = k + 3
                continue
            k = j + 1
            while k < n:
                d = text[k]
                if d == '\\':
                    k += 2
                    continue
                if d == '"':
                    break
                if interp and d == '$' and k + 1 < n and text[k + 1] == '{':
                    depth = 0
                    while k < n:
                        if text[k] == '{':
                            depth += 1
                        elif text[k] == '}':
                            depth -= 1
                            if depth == 0:
                                break
                        k += 1
                if d == '\n':
                    raise ScalaSyntax(f'{where}: newline in string literal')
                k += 1
            if k >= n:
                raise ScalaSyntax(f'{where}: unterminated string literal')
            toks.append(('istr' if interp else 'str', text[j + 1:k], base + i))
            i = k + 1
        elif c == "'" and i + 2 < n and (text[i + 2] == "'" or (text[i + 1] == '\\' and i + 3 < n and text[i + 3] == "'")):
            k = i + (3 if text[i + 2] == "'" else 4)
            toks.append(('str', text[i + 1:k - 1], base + i))
            i = k
        elif c.isdigit():
            j = i
            while j < n and (text[j].isalnum() or text[j] == '.' and j + 1 < n and text[j + 1].isdigit()):
                j += 1
            toks.append(('num', text[i:j], base + i))
            i = j
        elif c.isalpha() or c == '_' or c == '$':
            j = i
            while j < n and (text[j].isalnum() or text[j] in '_$'):
                j += 1
            w = text[i:j]
            toks.append(('kw' if w in _KW else 'id', w, base + i))
            i = j
        elif c == '`':
            j = text.index('`', i + 1)
            toks.append(('id', text[i + 1:j], base + i))
            i = j + 1
        elif c in _OPCH:
            j = i
            while j < n and text[j] in _OPCH:
                j += 1
            toks.append(('op', text[i:j], base + i))
            i = j
        elif c in '()[]{},.;':
            toks.append(('p', c, base + i))
            i += 1
        else:
            raise ScalaSyntax(f'{where}: unexpected character {c!r}')
    return toks


class ScalaParser:
    """Pratt parser for the expression subset.  Trees:
    ('id', n) ('str', s) ('num', s) ('sel', e, n) ('call', f, [(kw|None, e)...]) ('bin', op, l, r) ('not', e) ('if', c, a, b|None)
    ('block', [stmt...]) ('lam', [names], body) ('tuple', [e...]) ('match', e, [(pat, body)...]) ('throw',) ('varargs', e) ('new',)
    stmts: ('val', pattern, e) ('def', name, [params], e) ('expr', e)
    patterns: ('pid', n) ('pwild',) ('pctor', n, [p...]) ('pbind', n, p) ('ptuple', [p...]) ('plit', s)"""

    PREC = {'||': 1, '&&': 2, '==': 4, '!=': 4, '<': 5, '>': 5, '<=': 5, '>=': 5, '->': 6, '++': 7, '+': 7, '-': 7, ':+': 7, '+:': 7,
            '*': 8, '/': 8, '%': 8}

    def __init__(self, toks: Sequence[Tok], where: str):
        self.t = list(toks)
        self.i = 0
        self.where = where

    # -- token helpers
    def err(self, msg: str):
        nxt = ' '.join(x[1] for x in self.t[self.i:self.i + 8])
        raise ScalaSyntax(f'{self.where}: {msg}; next tokens: {nxt!r}')

    def peek(self, k: int = 0, skip_nl: bool = False) -> Optional[Tok]:
        j = self.i
        while True:
            while skip_nl and j < len(self.t) and self.t[j][0] == 'nl':
                j += 1
            if k == 0:
                return self.t[j] if j < len(self.t) else None
            k -= 1
            j += 1

    def skip_nl(self) -> None:
        while self.i < len(self.t) and self.t[self.i][0] == 'nl':
            self.i += 1

    def at(self, kind: str, text: Optional[str] = None, skip_nl: bool = False) -> bool:
        tk = self.peek(0, skip_nl)
        return tk is not None and tk[0] == kind and (text is None or tk[1] == text)

    def eat(self, kind: str, text: Optional[str] = None) -> Tok:
        self.skip_nl()
        tk = self.peek()
        if tk is None or tk[0] != kind or (text is not None and tk[1] != text):
            self.err(f'expected {text or kind}')
        self.i += 1
        return tk  # type: ignore[return-value]

    def match_close(self, i: int) -> int:
        pairs = {'(': ')', '[': ']', '{': '}'}
        stack: List[str] = []
        j = i
        while j < len(self.t):
            k, t, _ = self.t[j]
            if k == 'p' and t in pairs:
                stack.append(pairs[t])
            elif k == 'p' and t in ')]}':
                if not stack or stack[-1] != t:
                    self.err('unbalanced bracket')
                stack.pop()
                if not stack:
                    return j
            j += 1
        self.err('unterminated bracket')
        return -1

    def skip_type(self) -> None:
        """After ':' : skip a type up to a top-level `=` / `,` / `)` / `}` / newline / `=>`-less end."""
        depth = 0
        while self.i < len(self.t):
            k, t, _ = self.t[self.i]
            if k == 'p' and t in '([':
                depth += 1
            elif k == 'p' and t in ')]':
                if depth == 0:
                    return
                depth -= 1
            elif depth == 0 and ((k == 'op' and t == '=') or (k == 'p' and t in ',{}') or k == 'nl'):
                return
            self.i += 1

    # -- statements / blocks
    def block_items(self) -> List[tuple]:
        out: List[tuple] = []
        while True:
            self.skip_nl()
            while self.at('p', ';'):
                self.i += 1
                self.skip_nl()
            if self.i >= len(self.t) or self.at('p', '}'):
                return out
            out.append(self.stmt())

    def stmt(self) -> tuple:
        self.skip_nl()
        while self.at('kw') and self.peek()[1] in ('lazy', 'private', 'protected', 'override', 'final', 'implicit'):  # type: ignore[index]
            self.i += 1
            if self.at('p', '['):
                self.i = self.match_close(self.i) + 1
        if self.at('kw', 'val') or self.at('kw', 'var'):
            self.i += 1
            pat = self.pattern()
            if self.at('op', ':'):
                self.i += 1
                self.skip_type()
            self.eat('op', '=')
            return ('val', pat, self.expr())
        if self.at('kw', 'def'):
            self.i += 1
            name = self.eat('id')[1]
            if self.at('p', '['):
                self.i = self.match_close(self.i) + 1
            params: List[str] = []
            while self.at('p', '('):
                close = self.match_close(self.i)
                params += _param_names(self.t[self.i + 1:close])
                self.i = close + 1
            if self.at('op', ':'):
                self.i += 1
                self.skip_type()
            self.eat('op', '=')
            return ('def', name, params, self.expr())
        return ('expr', self.expr())

    # -- patterns
    def pattern(self) -> tuple:
        self.skip_nl()
        if self.at('p', '('):
            self.i += 1
            ps = []
            while not self.at('p', ')', True):
                ps.append(self.pattern())
                if self.at('p', ',', True):
                    self.eat('p', ',')
            self.eat('p', ')')
            return ('ptuple', ps) if len(ps) != 1 else ps[0]
        if self.at('str') or self.at('num'):
            return ('plit', self.t[self.i][1], self._adv())
        tk = self.eat('id') if self.at('id') else self.err('pattern expected')
        name = tk[1]  # type: ignore[index]
        while self.at('p', '.') and self.peek(1) and self.peek(1)[0] == 'id':  # type: ignore[index]
            self.i += 1
            name += '.' + self.eat('id')[1]
        if name == '_':
            p: tuple = ('pwild',)
        elif self.at('p', '('):
            self.i += 1
            ps = []
            while not self.at('p', ')', True):
                ps.append(self.pattern())
                if self.at('p', ',', True):
                    self.eat('p', ',')
            self.eat('p', ')')
            p = ('pctor', name, ps)
        else:
            p = ('pid', name)
        if self.at('op', '@'):
            self.i += 1
            inner = self.pattern()
            return ('pbind', name, inner)
        if self.at('op', ':'):
            self.i += 1
            # typed pattern: skip the type (stops at `=>`, `,`, `)`, `=`)
            depth = 0
            while self.i < len(self.t):
                k, t, _ = self.t[self.i]
                if k == 'p' and t in '([':
                    depth += 1
                elif k == 'p' and t in ')]':
                    if depth == 0:
                        break
                    depth -= 1
                elif depth == 0 and ((k == 'op' and t in ('=', '=>')) or (k == 'p' and t == ',')):
                    break
                self.i += 1
        return p

    def _adv(self) -> int:
        self.i += 1
        return 0

    # -- expressions
    def expr(self, min_prec: int = 0) -> tuple:
        self.skip_nl()
        # lambda:  x => e   |  (x, y) => e  |  _ => e
        lam = self.try_lambda()
        if lam is not None:
            return lam
        left = self.unary()
        while True:
            tk = self.peek()
            # an infix operator may start the next line
            if tk is not None and tk[0] == 'nl':
                nx = self.peek(0, True)
                if nx is not None and nx[0] == 'op' and nx[1] in self.PREC and nx[1] not in ('-', '+'):
                    self.skip_nl()
                    tk = self.peek()
                elif nx is not None and nx[0] == 'kw' and nx[1] == 'match':
                    self.skip_nl()
                    tk = self.peek()
            if tk is None:
                break
            k, t, _ = tk
            if k == 'kw' and t == 'match' and min_prec == 0:
                self.i += 1
                left = self.match_(left)
                continue
            if k == 'op' and t == ':' and min_prec == 0:
                # ascription  e: T   /   e: _*
                if self.peek(1) and self.peek(1)[1] == '_' and self.peek(2) and self.peek(2)[1] == '*':  # type: ignore[index]
                    self.i += 3
                    left = ('varargs', left)
                else:
                    self.i += 1
                    self.skip_type()
                continue
            if k == 'id' and min_prec == 0 and t in ('zip', 'intersect', 'union', 'diff', 'until', 'to', 'max', 'min'):
                self.i += 1
                right = self.expr(9)
                left = ('call', ('sel', left, t), [(None, right)])
                continue
            if k != 'op' or t in ('=', '=>', '<-', ':', '@'):
                break
            prec = self.PREC.get(t)
            if prec is None:
                self.err(f'operator {t!r} outside the subset')
            if prec < min_prec:
                break
            self.i += 1
            right = self.expr(prec + 1)
            left = ('bin', t, left, right)
        return left

    def try_lambda(self) -> Optional[tuple]:
        save = self.i
        names: Optional[List[str]] = None
        if self.at('id') and self.peek(1) is not None and self.peek(1)[0] == 'op' and self.peek(1)[1] == '=>':  # type: ignore[index]
            names = [self.t[self.i][1]]
            self.i += 2
        elif self.at('p', '('):
            close = self.match_close(self.i)
            if close + 1 < len(self.t) and self.t[close + 1][0] == 'op' and self.t[close + 1][1] == '=>':
                try:
                    names = _param_names(self.t[self.i + 1:close])
                except ScalaSyntax:
                    names = None
                if names is not None:
                    self.i = close + 2
        if names is None:
            self.i = save
            return None
        body = self.expr()
        return ('lam', names, body)

    def unary(self) -> tuple:
        self.skip_nl()
        if self.at('op', '!'):
            self.i += 1
            return ('not', self.unary())
        if self.at('op', '-'):
            self.i += 1
            return ('bin', '-', ('num', '0'), self.unary())
        return self.postfix(self.primary())

    def args(self) -> List[Tuple[Optional[str], tuple]]:
        self.eat('p', '(')
        out: List[Tuple[Optional[str], tuple]] = []
        while True:
            self.skip_nl()
            if self.at('p', ')'):
                self.i += 1
                return out
            kw = None
            if self.at('id') and self.peek(1) is not None and self.peek(1)[0] == 'op' and self.peek(1)[1] == '=':  # type: ignore[index]
                kw = self.t[self.i][1]
                self.i += 2
            out.append((kw, self.expr()))
            self.skip_nl()
            if self.at('p', ','):
                self.i += 1

    def brace(self) -> tuple:
        """`{ ... }`: a block, or a case-lambda `{ case p => e ... }`."""
        self.eat('p', '{')
        self.skip_nl()
        if self.at('kw', 'case'):
            cases = self.cases()
            self.eat('p', '}')
            return ('lam', ['$m'], ('match', ('id', '$m'), cases))
        lam = self.try_lambda_head()
        if lam is not None:
            items = self.block_items()
            self.eat('p', '}')
            return ('lam', lam, ('block', items))
        items = self.block_items()
        self.eat('p', '}')
        return ('block', items)

    def try_lambda_head(self) -> Optional[List[str]]:
        if self.at('id') and self.peek(1) is not None and self.peek(1)[0] == 'op' and self.peek(1)[1] == '=>':  # type: ignore[index]
            n = self.t[self.i][1]
            self.i += 2
            return [n]
        return None

    def cases(self) -> List[Tuple[tuple, tuple]]:
        out = []
        while self.at('kw', 'case', True):
            self.eat('kw', 'case')
            pat = self.pattern()
            if self.at('kw', 'if'):
                self.err('guarded case outside the subset')
            self.eat('op', '=>')
            # body: statements up to the next `case` / `}`
            items: List[tuple] = []
            while True:
                self.skip_nl()
                if self.i >= len(self.t) or self.at('p', '}') or self.at('kw', 'case'):
                    break
                items.append(self.stmt())
            out.append((pat, ('block', items)))
        return out

    def match_(self, scrut: tuple) -> tuple:
        self.eat('p', '{')
        cs = self.cases()
        self.eat('p', '}')
        return ('match', scrut, cs)

    def primary(self) -> tuple:
        self.skip_nl()
        tk = self.peek()
        if tk is None:
            self.err('expression expected')
        k, t, _ = tk  # type: ignore[misc]
        if k in ('str', 'istr'):
            self.i += 1
            return ('str', t) if k == 'str' else ('istr', t)
        if k == 'num':
            self.i += 1
            return ('num', t)
        if k == 'id':
            self.i += 1
            return ('id', t)
        if k == 'kw' and t in ('true', 'false', 'null', 'this'):
            self.i += 1
            return ('id', t)
        if k == 'kw' and t == 'if':
            self.i += 1
            self.eat('p', '(')
            c = self.expr()
            self.eat('p', ')')
            a = self.expr()
            b = None
            if self.at('kw', 'else', True):
                self.eat('kw', 'else')
                b = self.expr()
            return ('if', c, a, b)
        if k == 'kw' and t == 'throw':
            self.i += 1
            self.expr()
            return ('throw',)
        if k == 'kw' and t == 'new':
            self.i += 1
            self.eat('id')
            while self.at('p', '.'):
                self.i += 1
                self.eat('id')
            if self.at('p', '['):
                self.i = self.match_close(self.i) + 1
            if self.at('p', '('):
                self.args()
            if self.at('p', '{'):
                self.i = self.match_close(self.i) + 1
            return ('new',)
        if k == 'p' and t == '(':
            self.i += 1
            es = []
            while not self.at('p', ')', True):
                es.append(self.expr())
                if self.at('p', ',', True):
                    self.eat('p', ',')
            self.eat('p', ')')
            return es[0] if len(es) == 1 else ('tuple', es)
        if k == 'p' and t == '{':
            return self.brace()
        self.err('expression outside the subset')
        return ('?',)

    def postfix(self, e: tuple) -> tuple:
        while True:
            tk = self.peek()
            if tk is None:
                return e
            # a leading `.` may start the next line
            if tk[0] == 'nl':
                nx = self.peek(0, True)
                if nx is not None and nx[0] == 'p' and nx[1] == '.':
                    self.skip_nl()
                    tk = self.peek()
                else:
                    return e
            k, t, _ = tk  # type: ignore[misc]
            if k == 'p' and t == '.':
                self.i += 1
                self.skip_nl()
                nt = self.peek()
                if nt is None or nt[0] not in ('id', 'kw'):
                    self.err('member name expected')
                self.i += 1
                e = ('sel', e, nt[1])  # type: ignore[index]
            elif k == 'p' and t == '[':
                # type arguments are dropped
                self.i = self.match_close(self.i) + 1
                e = ('targs', e)
            elif k == 'p' and t == '(':
                e = ('call', e, self.args())
            elif k == 'p' and t == '{':
                b = self.brace()
                e = ('call', e, [(None, b)])
            else:
                return e


def _param_names(toks: Sequence[Tok]) -> List[str]:
    """Names of a parameter list `a: T, b: U = d` / lambda parameters `a, b`."""
    out: List[str] = []
    depth = 0
    expect_name = True
    for k, t, _ in toks:
        if k == 'nl':
            continue
        if k == 'p' and t in '([{':
            depth += 1
        elif k == 'p' and t in ')]}':
            depth -= 1
        elif depth == 0 and k == 'p' and t == ',':
            expect_name = True
        elif depth == 0 and expect_name:
            if k == 'kw' and t in ('val', 'var', 'implicit', 'private', 'override', 'final', 'protected'):
                continue
            if k == 'op' and t == '@':
                continue
            if k != 'id':
                raise ScalaSyntax(f'parameter name expected, found {t!r}')
            out.append(t)
            expect_name = False
    return out


# ======================================================================================================================
# Part 1c: Scala classes
# ======================================================================================================================

TABLE_SCALA = 'hail/hail/src/is/hail/expr/ir/TableIR.scala'
MATRIX_SCALA = 'hail/hail/src/is/hail/expr/ir/MatrixIR.scala'
BLOCKMATRIX_SCALA = 'hail/hail/src/is/hail/expr/ir/BlockMatrixIR.scala'
TABLETYPE_SCALA = 'hail/hail/src/is/hail/types/virtual/TableType.scala'
MATRIXTYPE_SCALA = 'hail/hail/src/is/hail/types/virtual/MatrixType.scala'


class ScalaClass:
    """One `case class` / `class` / `object`: constructor parameters (name, type text) and lazily parsed members."""

    def __init__(self, S: sl.ScalaSource, kind: str, name: str, params: List[Tuple[str, str]], parents: str, body: Optional[Tuple[int, int]], line: int):
        self.S = S
        self.kind = kind
        self.name = name
        self.params = params
        self.parents = parents
        self.body = body
        self.line = line
        self._toks: Optional[List[Tok]] = None
        self._members: Optional[Dict[str, List[Tuple[int, str]]]] = None  # name -> [(token index of the name, decl kind)]
        self._parsed: Dict[str, Any] = {}

    def where(self) -> str:
        return f'{self.S.rel}::{self.name}'

    def tokens(self) -> List[Tok]:
        if self._toks is None:
            if self.body is None:
                self._toks = []
            else:
                lo, hi = self.body
                self._toks = sc_tokenize(self.S.nocomment[lo:hi], lo, self.where())
        return self._toks

    def members(self) -> Dict[str, List[Tuple[int, str]]]:
        """Declarations at brace depth 0 of the body: name -> [(index of the token after the name / pattern start, kind)]."""
        if self._members is not None:
            return self._members
        toks = self.tokens()
        out: Dict[str, List[Tuple[int, str]]] = {}
        depth = 0
        i = 0
        while i < len(toks):
            k, t, _ = toks[i]
            if k == 'p' and t in '([{':
                depth += 1
            elif k == 'p' and t in ')]}':
                depth -= 1
            elif depth == 0 and k == 'kw' and t in ('val', 'def') and i + 1 < len(toks):
                nk, nt, _ = toks[i + 1]
                if nk == 'id':
                    out.setdefault(nt, []).append((i, t))
                elif nk == 'p' and nt == '(' and t == 'val':
                    # val (a, _) = ...
                    j = i + 2
                    pos = 0
                    while j < len(toks) and not (toks[j][0] == 'p' and toks[j][1] == ')'):
                        if toks[j][0] == 'id' and toks[j][1] != '_':
                            out.setdefault(toks[j][1], []).append((i, f'tuple{pos}'))
                        if toks[j][0] == 'p' and toks[j][1] == ',':
                            pos += 1
                        j += 1
            i += 1
        self._members = out
        return out

    def member(self, name: str, n_args: Optional[int] = None) -> Optional[tuple]:
        """Parsed member: ('val', expr) | ('def', [params], expr) | ('tuple', k, expr).  None if the class has no such member.
        Overloads are selected by the number of parameters."""
        key = f'{name}/{n_args}'
        if key in self._parsed:
            return self._parsed[key]
        decls = self.members().get(name)
        if not decls:
            self._parsed[key] = None
            return None
        res = []
        for idx, kind in decls:
            p = ScalaParser(self.tokens(), f'{self.where()}.{name}')
            p.i = idx
            st = p.stmt()
            if st[0] == 'val':
                if kind.startswith('tuple'):
                    res.append(('tuple', int(kind[5:]), st[2]))
                else:
                    res.append(('val', st[2]))
            elif st[0] == 'def':
                res.append(('def', st[2], st[3]))
        if n_args is not None:
            sel = [r for r in res if (r[0] == 'def' and len(r[1]) == n_args) or (r[0] != 'def' and n_args == 0)]
            if sel:
                res = sel
        if len(res) != 1:
            raise ScalaSyntax(f'{self.where()}: {len(res)} definitions of `{name}` (arity {n_args})')
        self._parsed[key] = res[0]
        return res[0]


_CLASS_RE = re.compile(r'(?m)^[ \t]*((?:(?:sealed|abstract|final|private)\s+)*)(case\s+class|class|object|trait)\s+([A-Za-z_]\w*)')


def scala_classes(rel: str) -> Dict[str, List[ScalaClass]]:
    """All top-level-ish `case class` / `class` / `object` declarations of a file (by name; class and companion object may share one)."""
    S = sl.load(rel)
    code = S.code
    out: Dict[str, List[ScalaClass]] = {}
    for m in _CLASS_RE.finditer(code):
        kind = ' '.join(m.group(2).split())
        name = m.group(3)
        i = m.end()
        n = len(code)
        params: List[Tuple[str, str]] = []
        # optional type parameters, then parameter lists
        while i < n and code[i] in ' \t':
            i += 1
        if i < n and code[i] == '[':
            i = S.match_bracket(i) + 1
        first = True
        while i < n and code[i] == '(':
            close = S.match_bracket(i)
            if first:
                params = _split_params(S.nocomment[i + 1:close])
                first = False
            i = close + 1
            while i < n and code[i] in ' \t':
                i += 1
        # header up to `{` or end of declaration
        j = i
        while j < n and code[j] not in '{\n':
            if code[j] in '([':
                j = S.match_bracket(j)
            j += 1
        # allow the `extends ...` clause on following lines
        hdr_end = j
        k = j
        while k < n and code[k] in ' \t\r\n':
            k += 1
        if j < n and code[j] == '\n' and (code.startswith('extends', k) or code.startswith('with', k)):
            j = k
            while j < n and code[j] != '{' and not (code[j] == '\n' and not code[j + 1:j + 200].lstrip().startswith(('with', 'extends'))):
                if code[j] in '([':
                    j = S.match_bracket(j)
                j += 1
            hdr_end = j
        parents = ' '.join(code[i:hdr_end].split())
        body = None
        if j < n and code[j] == '{':
            body = (j + 1, S.match_bracket(j))
        out.setdefault(name, []).append(ScalaClass(S, kind, name, params, parents, body, S.line_of(m.start())))
    return out


def _split_params(text: str) -> List[Tuple[str, str]]:
    out: List[Tuple[str, str]] = []
    depth = 0
    cur = ''
    parts: List[str] = []
    for ch in text:
        if ch in '([{':
            depth += 1
        elif ch in ')]}':
            depth -= 1
        if ch == ',' and depth == 0:
            parts.append(cur)
            cur = ''
        else:
            cur += ch
    if cur.strip():
        parts.append(cur)
    for p in parts:
        p = ' '.join(p.split())
        if not p:
            continue
        m = re.match(r'(?:(?:override|private|protected|final|implicit|val|var)\s+)*([A-Za-z_]\w*)\s*:\s*(.*)$', p)
        if not m:
            raise ScalaSyntax(f'unrecognised constructor parameter `{p}`')
        typ = m.group(2)
        # drop a default value
        d = 0
        for idx, ch in enumerate(typ):
            if ch in '([':
                d += 1
            elif ch in ')]':
                d -= 1
            elif ch == '=' and d == 0 and typ[idx:idx + 2] != '=>':
                typ = typ[:idx].strip()
                break
        out.append((m.group(1), typ))
    return out


# ======================================================================================================================
# Part 1d: Scala interpreter (typ members -> terms)
# ======================================================================================================================

PRIMS_SCALA = {'TInt32': 'int32', 'TInt64': 'int64', 'TFloat32': 'float32', 'TFloat64': 'float64', 'TString': 'str', 'TBoolean': 'bool',
               'TCall': 'call'}
PRIMS_PY = {'tint32': 'int32', 'tint64': 'int64', 'tfloat32': 'float32', 'tfloat64': 'float64', 'tstr': 'str', 'tbool': 'bool',
            'tcall': 'call', 'tint': 'int32', 'tfloat': 'float64'}

REL_KINDS = {'TableIR': 'table', 'MatrixIR': 'matrix', 'BlockMatrixIR': 'blockmatrix'}


class NeedCond(Exception):
    def __init__(self, atom: Term):
        self.atom = atom


def table_value(child: Term) -> Term:
    return ('ttable', ('comp', child, 'global'), ('comp', child, 'row'), ('key', child, 'row'))


def matrix_value(child: Term) -> Term:
    return ('tmatrix', ('comp', child, 'global'), ('key', child, 'col'), ('comp', child, 'col'), ('key', child, 'row'),
            ('comp', child, 'row'), ('comp', child, 'entry'))


TT_FIELDS = ('globalType', 'rowType', 'key')          # order inside our ('ttable', g, r, k) term
TM_FIELDS = ('globalType', 'colKey', 'colType', 'rowKey', 'rowType', 'entryType')
_TT_IDX = {'globalType': 1, 'rowType': 2, 'key': 3}
_TM_IDX = {'globalType': 1, 'colKey': 2, 'colType': 3, 'rowKey': 4, 'rowType': 5, 'entryType': 6}


class Closure:
    def __init__(self, params: List[str], body: tuple, env: 'Env', what: str = ''):
        self.params = params
        self.body = body
        self.env = env
        self.what = what


class Env:
    def __init__(self, vars: Dict[str, Any], parent: Optional['Env'] = None, cls: Optional[ScalaClass] = None, this: Optional[Term] = None):
        self.vars = vars
        self.parent = parent
        self.cls = cls
        self.this = this

    def lookup(self, n: str) -> Tuple[bool, Any]:
        e: Optional[Env] = self
        while e is not None:
            if n in e.vars:
                return True, e.vars[n]
            e = e.parent
        return False, None


class ScalaRel:
    """Interpreter of the `typ` members."""

    def __init__(self) -> None:
        self.files = {r: scala_classes(r) for r in (TABLE_SCALA, MATRIX_SCALA, TABLETYPE_SCALA, MATRIXTYPE_SCALA)}
        self.valuation: Dict[Term, bool] = {}
        self.depth = 0

    # -- class lookup
    def cls(self, rel: str, name: str, kind: str) -> Optional[ScalaClass]:
        for c in self.files[rel].get(name, []):
            if (kind == 'object') == (c.kind == 'object'):
                return c
        return None

    def node_classes(self, rel: str, root: str) -> List[ScalaClass]:
        out = []
        for name, cs in self.files[rel].items():
            for c in cs:
                if c.kind == 'case class' and re.search(r'\bextends\s+' + root + r'\b', c.parents):
                    out.append(c)
        return out

    # -- node typ
    def node_typ(self, c: ScalaClass, valuation: Dict[Term, bool]) -> Term:
        self.valuation = valuation
        self.depth = 0
        pvars: Dict[str, Any] = {}
        for n, t in c.params:
            pvars[n] = self.param_value(n, t)
        env = Env(pvars, None, c, None)
        if any(n == 'typ' for n, _ in c.params):
            return opaque('the type is a constructor parameter (read from a file / literal)')
        m = c.member('typ', 0)
        if m is None:
            return opaque('no typ member')
        return self.member_value(m, env)

    def param_value(self, n: str, t: str) -> Any:
        base = t.replace(' ', '')
        if base in REL_KINDS:
            return ('rel', REL_KINDS[base], ('p', n))
        m = re.match(r'(?:IndexedSeq|Seq|Array)\[(\w+)\]$', base)
        if m and m.group(1) in REL_KINDS:
            return ('relseq', REL_KINDS[m.group(1)], ('p', n))
        if base == 'IR':
            return ('ir', ('p', n))
        if base == 'Boolean':
            return ('flag', ('p', n))
        return ('p', n)

    def member_value(self, m: tuple, env: Env) -> Any:
        if m[0] == 'val':
            return self.ev(m[1], env)
        if m[0] == 'tuple':
            v = self.ev(m[2], env)
            return self.tuple_at(v, m[1])
        if m[0] == 'def':
            if m[1]:
                return Closure(m[1], m[2], env)
            return self.ev(m[2], env)
        raise ScalaSyntax('bad member')

    def tuple_at(self, v: Any, k: int) -> Any:
        if isinstance(v, tuple) and v and v[0] == 'pair':
            return v[1 + k] if 1 + k < len(v) else opaque('tuple index')
        if isinstance(v, tuple) and v and v[0] == 'tuple':
            return v[1][k]
        return opaque(f'component {k} of a non-tuple')

    # -- evaluation
    def ev(self, e: tuple, env: Env) -> Any:
        self.depth += 1
        if self.depth > 4000:
            raise ScalaSyntax('evaluation too deep')
        h = e[0]
        if h == 'str':
            return ('s', e[1])
        if h == 'istr':
            return opaque('interpolated string')
        if h == 'num':
            return ('n', int(e[1].rstrip('L'))) if e[1].rstrip('L').isdigit() else opaque('number')
        if h == 'id':
            return self.ev_id(e[1], env)
        if h == 'targs':
            return self.ev(e[1], env)
        if h == 'varargs':
            return self.ev(e[1], env)
        if h == 'throw':
            return ('throw',)
        if h == 'new':
            return opaque('new')
        if h == 'not':
            v = self.ev(e[1], env)
            return ('not', v)
        if h == 'tuple':
            return ('tuple', tuple(self.ev(x, env) for x in e[1]))
        if h == 'lam':
            return Closure(e[1], e[2], env)
        if h == 'block':
            return self.ev_block(e[1], env)
        if h == 'if':
            return self.ev_if(e, env)
        if h == 'bin':
            return self.ev_bin(e, env)
        if h == 'sel':
            return self.ev_sel(e, env)
        if h == 'call':
            return self.ev_call(e, env)
        if h == 'match':
            return self.ev_match(e, env)
        return opaque(f'expression {h}')

    def ev_id(self, n: str, env: Env) -> Any:
        ok, v = env.lookup(n)
        if ok:
            return v
        # a member of the enclosing class (searched outward)
        e: Optional[Env] = env
        while e is not None:
            if e.cls is not None:
                m = e.cls.member(n, None) if n in e.cls.members() else None
                if m is not None:
                    return self.member_value(m, self.class_env(e))
                if e.this is not None:
                    f = self.rel_field(e.this, n)
                    if f is not None:
                        return f
            e = e.parent
        if n in PRIMS_SCALA:
            return ('prim', PRIMS_SCALA[n])
        if n in ('true', 'false'):
            return ('bool', n == 'true')
        if n in ('TableType', 'MatrixType', 'TStruct', 'TArray', 'TStream', 'TSet', 'FastSeq', 'ArraySeq', 'IndexedSeq', 'Array', 'Seq', 'TIterable',
                 'TypeCheck', 'Field', 'TTuple', 'TDict', 'TInterval', 'Set', 'Map', 'None', 'Some'):
            return ('obj', n)
        return opaque(f'unbound name {n}')

    def class_env(self, e: Env) -> Env:
        """The environment in which members of e.cls are evaluated (its parameters + this)."""
        cur: Optional[Env] = e
        while cur is not None and cur.cls is None:
            cur = cur.parent
        return cur if cur is not None else e

    def ev_block(self, items: List[tuple], env: Env) -> Any:
        loc = Env({}, env)
        last: Any = ('unit',)
        for st in items:
            if st[0] == 'val':
                v = self.ev(st[2], loc)
                self.bind_pattern(st[1], v, loc)
                last = ('unit',)
            elif st[0] == 'def':
                if st[2]:
                    loc.vars[st[1]] = Closure(st[2], st[3], loc)
                else:
                    loc.vars[st[1]] = LazyDef(st[3], loc)
                last = ('unit',)
            else:
                ex = st[1]
                # require / assert / `if (..) throw ..` statements have no value
                if ex[0] == 'call' and ex[1][0] == 'id' and ex[1][1] in ('require', 'assert'):
                    continue
                if ex[0] == 'if' and ex[3] is None:
                    continue
                last = self.ev(ex, loc)
        return last

    def bind_pattern(self, pat: tuple, v: Any, env: Env) -> bool:
        h = pat[0]
        if h == 'pwild':
            return True
        if h == 'pid':
            env.vars[pat[1]] = v
            return True
        if h == 'ptuple':
            for k, p in enumerate(pat[1]):
                self.bind_pattern(p, self.tuple_at(v, k), env)
            return True
        if h == 'pbind':
            env.vars[pat[1]] = v
            return self.bind_pattern(pat[2], v, env)
        if h == 'pctor':
            name = pat[1]
            if name == 'Field' and isinstance(v, tuple) and v[0] == 'fieldof' and len(pat[2]) == 3:
                self.bind_pattern(pat[2][0], v[2], env)
                self.bind_pattern(pat[2][1], t_ftype(v[1], v[2]), env)
                self.bind_pattern(pat[2][2], ('fieldidx', v[1], v[2]), env)
                return True
            if name == 'TArray' and len(pat[2]) == 1:
                return self.bind_pattern(pat[2][0], t_elt(v), env)
            if name == 'TStruct':
                return True
            return False
        return False

    def ev_match(self, e: tuple, env: Env) -> Any:
        v = self.ev(e[1], env)
        for pat, body in e[2]:
            loc = Env({}, env)
            if self.bind_pattern(pat, v, loc):
                r = self.ev(body, loc)
                if r == ('throw',):
                    continue
                return r
            return opaque('match pattern outside the subset')
        return opaque('no case applies')

    def cond_atom(self, c: tuple, env: Env) -> Optional[Tuple[Term, bool]]:
        """A condition on node parameters -> (atom, polarity)."""
        if c[0] == 'not':
            r = self.cond_atom(c[1], env)
            return (r[0], not r[1]) if r else None
        if c[0] == 'bin' and c[1] in ('==', '!='):
            l, r = self.ev(c[2], env), self.ev(c[3], env)
            for a, b in ((l, r), (r, l)):
                if isinstance(a, tuple) and a[0] == 'p' and isinstance(b, tuple) and b[0] == 's':
                    return ('eq', a, b), c[1] == '=='
            return None
        v = self.ev(c, env)
        if isinstance(v, tuple) and v[0] == 'flag':
            return ('flag', v[1]), True
        return None

    def ev_if(self, e: tuple, env: Env) -> Any:
        at = self.cond_atom(e[1], env)
        if at is None:
            a = self.ev(e[2], env)
            b = self.ev(e[3], env) if e[3] is not None else ('unit',)
            if a == ('throw',):
                return b
            if b == ('throw',):
                return a
            return opaque('condition outside the subset')
        atom, pol = at
        if atom not in self.valuation:
            raise NeedCond(atom)
        take = self.valuation[atom] == pol
        if take:
            return self.ev(e[2], env)
        return self.ev(e[3], env) if e[3] is not None else ('unit',)

    def ev_bin(self, e: tuple, env: Env) -> Any:
        op = e[1]
        l, r = self.ev(e[2], env), self.ev(e[3], env)
        if op == '++':
            if self.is_keyish(l) or self.is_keyish(r):
                return k_cat(self.as_key(l), self.as_key(r))
            if isinstance(l, tuple) and l[0] == 'fields' and isinstance(r, tuple) and r[0] == 'fields':
                return ('fields', s_concat(l[1], r[1]))
            return s_concat(self.as_struct(l), self.as_struct(r))
        if op == '->':
            return ('pair', l, r)
        if op in ('==', '!='):
            return ('cmp', op, l, r)
        return opaque(f'operator {op}')

    def is_keyish(self, v: Any) -> bool:
        return isinstance(v, tuple) and v and v[0] in ('key', 'klit', 'kcat', 'kdrop', 'ktake', 'kren', 'names', 'opt')

    def as_key(self, v: Any) -> Term:
        if self.is_keyish(v):
            return v
        if isinstance(v, tuple) and v and v[0] == 'p':
            return v
        return opaque('not a key list')

    def as_struct(self, v: Any) -> Term:
        if isinstance(v, LazyDef):
            return self.force(v)
        return v

    def force(self, v: Any) -> Any:
        while isinstance(v, LazyDef):
            v = self.ev(v.body, v.env)
        return v

    # -- member selection
    def rel_field(self, v: Term, n: str) -> Optional[Any]:
        if isinstance(v, tuple) and v and v[0] == 'ttable' and n in _TT_IDX:
            return v[_TT_IDX[n]]
        if isinstance(v, tuple) and v and v[0] == 'tmatrix' and n in _TM_IDX:
            return v[_TM_IDX[n]]
        return None

    def ev_sel(self, e: tuple, env: Env) -> Any:
        n = e[2]
        # object members: TableType.keyType etc. are handled by ev_call; plain values here
        base = self.force(self.ev(e[1], env))
        return self.select(base, n, env)

    def select(self, base: Any, n: str, env: Env) -> Any:
        if isinstance(base, tuple) and base:
            h = base[0]
            if h == '?':
                return base
            if n in ('asInstanceOf', 'toFastSeq', 'toIndexedSeq', 'toSet', 'toSeq', 'toArray', 'toList', 'result'):
                return base
            if h == 'rel':
                if n == 'typ':
                    return table_value(base[2]) if base[1] == 'table' else (matrix_value(base[2]) if base[1] == 'matrix' else opaque('block matrix type'))
                return opaque(f'member {n} of a relational child')
            if h == 'relseq':
                if n == 'head':
                    return ('rel', base[1], ('at', base[2], 0))
                return ('relseq.' + n, base)
            if h == 'ir':
                if n == 'typ':
                    return ('typ', base[1])
                return opaque(f'member {n} of a value child')
            if h in ('ttable', 'tmatrix'):
                f = self.rel_field(base, n)
                if f is not None:
                    return f
                if n == 'copy':
                    return ('method', base, 'copy')
                return self.type_member(base, n, [], env)
            if h == 'obj':
                if base[1] == 'TStruct' and n == 'empty':
                    return EMPTY
                if base[1] in ('ArraySeq', 'FastSeq', 'IndexedSeq', 'Array', 'Seq') and n == 'empty':
                    return ('klit', ())
                return ('method', base, n)
            if h == 'pair' and n in ('_1', '_2'):
                return base[1 if n == '_1' else 2]
            if h == 'tuple' and re.match(r'_\d$', n):
                return base[1][int(n[1:]) - 1]
            if h == 'fieldof':
                if n == 'typ':
                    return t_ftype(base[1], base[2])
                if n == 'name':
                    return base[2]
                if n == 'index':
                    return ('fieldidx', base[1], base[2])
            if h == 'fieldat':
                if n == 'typ':
                    return ('atpath', base[1], base[2])
            if h == 'lamfield':
                # the parameter of a `fields.map(f => ...)` lambda
                if n in ('typ', 'name'):
                    return ('lamfield.' + n,)
            if n == 'fieldNames' and self.structish(base):
                return ('names', base)
            if n == 'fields' and self.structish(base):
                return ('fields', base)
            if n == 'elementType':
                return t_elt(base)
            if n in ('length', 'size') and self.is_keyish(base):
                return ('klen', base)
            if n == 'head' and h == 'klit' and base[1]:
                return base[1][0]
        return ('method', base, n)

    def structish(self, v: Any) -> bool:
        return isinstance(v, tuple) and v and v[0] in ('comp', 'concat', 'sel', 'drop', 'field', 'rename', 'typ', 'empty', 'mapty', 'inspath', 'elt',
                                                       'ftype', 'atpath', 'lit')

    def type_member(self, this: Term, n: str, args: List[Any], env: Env) -> Any:
        """A member of TableType / MatrixType evaluated on a symbolic table / matrix type."""
        rel, cname = (TABLETYPE_SCALA, 'TableType') if this[0] == 'ttable' else (MATRIXTYPE_SCALA, 'MatrixType')
        c = self.cls(rel, cname, 'class')
        if c is None:
            return opaque(f'class {cname} not found')
        if n not in c.members():
            return opaque(f'{cname} has no member {n}')
        m = c.member(n, len(args))
        cenv = Env({}, None, c, this)
        v = self.member_value(m, cenv)  # type: ignore[arg-type]
        if isinstance(v, Closure):
            return self.apply(v, args)
        return v

    # -- calls
    def apply(self, f: Closure, args: List[Any], kwargs: Optional[Dict[str, Any]] = None) -> Any:
        loc = Env({}, f.env)
        if len(args) > len(f.params):
            return opaque('too many arguments')
        for p, a in zip(f.params, args):
            loc.vars[p] = a
        for k, a in (kwargs or {}).items():
            loc.vars[k] = a
        return self.force(self.ev(f.body, loc))

    def ev_call(self, e: tuple, env: Env) -> Any:
        fn = e[1]
        while fn[0] == 'targs':
            fn = fn[1]
        args_raw = e[2]
        # special forms that must see unevaluated arguments
        if fn[0] == 'id' and fn[1] in ('tcoerce', 'coerce'):
            return self.force(self.ev(args_raw[-1][1], env))
        if fn[0] == 'sel' and fn[2] == 'coerce':
            return self.force(self.ev(args_raw[-1][1], env))
        if fn[0] == 'sel' and fn[2] == 'asInstanceOf':
            return self.force(self.ev(fn[1], env))
        args = [self.force(self.ev(a, env)) for kw, a in args_raw if kw is None]
        kwargs = {kw: self.force(self.ev(a, env)) for kw, a in args_raw if kw is not None}
        if fn[0] == 'id':
            ok, v = env.lookup(fn[1])
            if ok and isinstance(v, Closure):
                return self.apply(v, args, kwargs)
            f = self.ev_id(fn[1], env)
            if isinstance(f, Closure):
                return self.apply(f, args, kwargs)
            if isinstance(f, tuple) and f[0] == 'obj':
                return self.obj_apply(f[1], args, kwargs)
            if isinstance(f, tuple) and f[0] == 'relseq' and len(args) == 1 and args[0][0] == 'n':
                return ('rel', f[1], ('at', f[2], args[0][1]))
            return opaque(f'call of {fn[1]}')
        if fn[0] == 'sel':
            base = self.force(self.ev(fn[1], env))
            return self.method(base, fn[2], args, kwargs, env)
        f = self.ev(fn, env)
        if isinstance(f, Closure):
            return self.apply(f, args, kwargs)
        if isinstance(f, tuple) and f and f[0] == 'method':
            return self.method(f[1], f[2], args, kwargs, env)
        if isinstance(f, tuple) and f and f[0] == 'relseq' and len(args) == 1 and args[0][0] == 'n':
            return ('rel', f[1], ('at', f[2], args[0][1]))
        return opaque('call of a computed function')

    def obj_apply(self, name: str, args: List[Any], kwargs: Dict[str, Any]) -> Any:
        if name == 'TableType':
            vals = dict(zip(('rowType', 'key', 'globalType'), args))   # case class TableType(rowType, key, globalType)
            vals.update(kwargs)
            if set(vals) != {'rowType', 'key', 'globalType'}:
                return opaque('TableType(...) arguments')
            return ('ttable', vals['globalType'], vals['rowType'], vals['key'])
        if name == 'MatrixType':
            order = ('globalType', 'colKey', 'colType', 'rowKey', 'rowType', 'entryType')
            vals = dict(zip(order, args))
            vals.update(kwargs)
            if set(vals) != set(order):
                return opaque('MatrixType(...) arguments')
            return ('tmatrix',) + tuple(vals[k] for k in order)
        if name == 'TStruct':
            if not args:
                return EMPTY
            if len(args) == 1 and isinstance(args[0], tuple) and args[0][0] == 'fields':
                return args[0][1]
            if all(isinstance(a, tuple) and a[0] == 'pair' for a in args):
                return s_lit([(a[1], a[2]) for a in args])
            return opaque('TStruct(...) arguments')
        if name == 'TArray' and len(args) == 1:
            return ('array', args[0])
        if name == 'TStream' and len(args) == 1:
            return ('stream', args[0])
        if name == 'TSet' and len(args) == 1:
            return ('set', args[0])
        if name in ('FastSeq', 'ArraySeq', 'IndexedSeq', 'Array', 'Seq'):
            return ('klit', tuple(args))
        if name == 'Some' and len(args) == 1:
            return args[0]
        return opaque(f'{name}(...)')

    def method(self, base: Any, n: str, args: List[Any], kwargs: Dict[str, Any], env: Env) -> Any:
        if isinstance(base, tuple) and base and base[0] == '?':
            return base
        h = base[0] if isinstance(base, tuple) and base else None
        # companion-object functions
        if h == 'obj':
            o = base[1]
            if o in ('TableType', 'MatrixType'):
                rel = TABLETYPE_SCALA if o == 'TableType' else MATRIXTYPE_SCALA
                c = self.cls(rel, o, 'object')
                if c is not None and n in c.members():
                    m = c.member(n, len(args))
                    v = self.member_value(m, Env({}, None, c, None))  # type: ignore[arg-type]
                    if isinstance(v, Closure):
                        return self.apply(v, args, kwargs)
                    return v
                if n == 'apply':
                    return self.obj_apply(o, args, kwargs)
                return opaque(f'{o}.{n}')
            if o == 'TIterable' and n == 'elementType' and len(args) == 1:
                return t_elt(args[0])
            if o == 'TStruct' and n == 'apply':
                return self.obj_apply('TStruct', args, kwargs)
            return opaque(f'{o}.{n}(...)')
        if h in ('ttable', 'tmatrix'):
            if n == 'copy':
                idx = _TT_IDX if h == 'ttable' else _TM_IDX
                if args:
                    return opaque('positional copy')
                out = list(base)
                for k, v in kwargs.items():
                    if k not in idx:
                        return opaque(f'copy({k} = ...)')
                    out[idx[k]] = v
                return tuple(out)
            return self.type_member(base, n, args, env)
        if h == 'relseq' and n == 'apply' and len(args) == 1 and args[0][0] == 'n':
            return ('rel', base[1], ('at', base[2], args[0][1]))
        # struct methods
        if self.structish(base):
            if n == 'appendKey' and len(args) == 2:
                return s_insert(base, args[0], args[1])
            if n == 'structInsert' and len(args) == 2:
                return s_inspath(base, args[1], args[0])
            if n == 'insertFields' and len(args) == 1 and isinstance(args[0], tuple) and args[0][0] == 'klit' and all(isinstance(x, tuple) and x[0] == 'pair' for x in args[0][1]):
                out = base
                for x in args[0][1]:
                    out = s_insert(out, x[1], x[2])
                return out
            if n == 'deleteKey' and len(args) in (1, 2):
                return ('drop', base, ('klit', (args[0],)))
            if n == 'rename' and len(args) == 1:
                return ('rename', base, args[0])
            if n == 'filterSet' and len(args) >= 1:
                inc = kwargs.get('include', args[1] if len(args) > 1 else ('bool', True))
                if inc == ('bool', False):
                    return ('pair', ('drop', base, args[0]), ('fn',))
                if inc == ('bool', True):
                    return ('pair', ('filt', base, args[0]), ('fn',))
                return opaque('filterSet include')
            if n == 'typeAfterSelect' and len(args) == 1 and isinstance(args[0], tuple) and args[0][0] == 'idxs' and args[0][1] == base:
                return ('sel', base, args[0][2])
            if n in ('select',) and len(args) == 1:
                return ('pair', ('sel', base, args[0]), ('fn',))
            if n in ('typeAfterSelectNames', 'selectFields') and len(args) == 1:
                return ('sel', base, args[0])
            if n == 'fieldType' and len(args) == 1:
                return t_ftype(base, args[0])
            if n == 'field' and len(args) == 1:
                return ('fieldof', base, args[0])
            if n == 'fieldIdx' and len(args) == 1:
                return ('fieldidx', base, args[0])
            if n == 'fieldOption' and len(args) == 1:
                return ('fieldat', base, args[0])
            if n == 'queryTyped' and len(args) == 1:
                return ('pair', ('atpath', base, args[0]), ('fn',))
            if n == 'hasField':
                return opaque('hasField')
        if h == 'fieldat' and n == 'getOrElse':
            return base
        if h == 'fields':
            if n == 'map' and len(args) == 1 and isinstance(args[0], Closure):
                r = self.map_fields(args[0])
                if r == 'id':
                    return base
                if r is not None:
                    return ('fields', ('mapty', base[1], r))
                return opaque('fields.map with an unrecognised function')
        # key-list methods
        if self.is_keyish(base) or h == 'p':
            if n == 'drop' and len(args) == 1:
                return ('kdrop', base, args[0])
            if n == 'take' and len(args) == 1:
                return ('ktake', base, args[0])
            if n == 'map' and len(args) == 1:
                a = args[0]
                if isinstance(a, tuple) and a and a[0] == 'method' and a[2] == 'fieldIdx':
                    return ('idxs', a[1], base)
                if isinstance(a, Closure) and len(a.params) == 1:
                    r = self.apply(a, [('lamkey',)])
                    if isinstance(r, tuple) and r[0] == 'getorelse' and r[2] == ('lamkey',) and r[3] == ('lamkey',):
                        return ('kren', base, r[1])
                    if isinstance(r, tuple) and r[0] == 'fieldidx' and r[2] == ('lamkey',):
                        return ('idxs', r[1], base)
                return opaque('key map with an unrecognised function')
            if n == 'getOrElse' and len(args) == 1 and h == 'p':
                return ('opt', base, args[0])
            if n == 'getOrElse' and len(args) == 2 and h == 'p':
                return ('getorelse', base, args[0], args[1])
            if n in ('startsWith', 'forall', 'foreach', 'contains', 'nonEmpty', 'isEmpty'):
                return opaque(n)
        if h == 'method' and n == 'apply':
            return self.method(base[1], base[2], args, kwargs, env)
        return opaque(f'method {n} on {show(base) if isinstance(base, tuple) else type(base).__name__}')

    def map_fields(self, f: Closure) -> Optional[str]:
        """Classify `f => f.copy(typ = X)` / `f => f.name -> f.typ`: 'id', 'array', or None."""
        if len(f.params) != 1:
            return None
        p = f.params[0]
        b = f.body
        while b[0] == 'block' and len(b[1]) == 1 and b[1][0][0] == 'expr':
            b = b[1][0][1]
        def is_attr(x: tuple, a: str) -> bool:
            return x[0] == 'sel' and x[1] == ('id', p) and x[2] == a
        if b[0] == 'bin' and b[1] == '->' and is_attr(b[2], 'name') and is_attr(b[3], 'typ'):
            return 'id'
        if b[0] == 'tuple' and len(b[1]) == 2 and is_attr(b[1][0], 'name') and is_attr(b[1][1], 'typ'):
            return 'id'
        if b[0] == 'call' and b[1][0] == 'sel' and b[1][1] == ('id', p) and b[1][2] == 'copy' and len(b[2]) == 1 and b[2][0][0] == 'typ':
            x = b[2][0][1]
            if is_attr(x, 'typ'):
                return 'id'
            if x[0] == 'call' and x[1] == ('id', 'TArray') and len(x[2]) == 1 and is_attr(x[2][0][1], 'typ'):
                return 'array'
        return None


class LazyDef:
    """A parameterless local `def`: evaluated at each use."""

    def __init__(self, body: tuple, env: Env):
        self.body = body
        self.env = env


# ======================================================================================================================
# Part 1e: Python interpreter (_compute_type -> terms)
# ======================================================================================================================

PY_TYPE_FILES = {'table': ('hail/python/hail/expr/table_type.py', 'ttable'), 'matrix': ('hail/python/hail/expr/matrix_type.py', 'tmatrix')}
# python attribute of ttable / tmatrix -> our component index
_PY_TT = {'global_type': 1, 'row_type': 2, 'row_key': 3}
_PY_TM = {'global_type': 1, 'col_key': 2, 'col_type': 3, 'row_key': 4, 'row_type': 5, 'entry_type': 6}


def camel(n: str) -> str:
    parts = n.split('_')
    return parts[0] + ''.join(p[:1].upper() + p[1:] for p in parts[1:])


class PyTypeClass:
    """ttable / tmatrix: constructor parameter order, properties and methods (parsed, never imported)."""

    def __init__(self, kind: str):
        rel, cname = PY_TYPE_FILES[kind]
        self.kind = kind
        self.rel = rel
        self.name = cname
        m = pf.load(rel)
        self.cls = m.cls(cname)
        self.methods: Dict[str, ast.FunctionDef] = {}
        for st in self.cls.body:
            if isinstance(st, ast.FunctionDef):
                self.methods.setdefault(st.name, st)
        init = self.methods.get('__init__')
        if init is None:
            raise AnalysisError(f'{rel}::{cname}: no constructor')
        self.params = [a.arg for a in init.args.args[1:]]
        idx = _PY_TT if kind == 'table' else _PY_TM
        if set(self.params) != set(idx):
            raise AnalysisError(f'{rel}::{cname}.__init__: parameters {self.params} are not the expected type components {sorted(idx)}')
        # the constructor must store every parameter under its own name
        stored = {}
        for st in pf.walk_shallow(init):
            if isinstance(st, ast.Assign) and len(st.targets) == 1 and isinstance(st.value, ast.Name):
                a = ic._self_attr(st.targets[0])
                if a is not None:
                    stored[a] = st.value.id
        for p in self.params:
            if stored.get(p) != p:
                raise AnalysisError(f'{rel}::{cname}.__init__ does not store `{p}` as self.{p}')

    def is_property(self, n: str) -> bool:
        f = self.methods.get(n)
        return f is not None and any(pf.dotted(d) == 'property' for d in f.decorator_list)


class PyRel:
    def __init__(self, table: ic.Table):
        self.t = table
        self.types = {k: PyTypeClass(k) for k in PY_TYPE_FILES}
        self.valuation: Dict[Term, bool] = {}
        self.cur_cls: Optional[ic.Cls] = None
        self.helper_depth = 0

    # -- classes
    def node_classes(self, root: str) -> List[ic.Cls]:
        return [c for c in self.t.ir_classes() if c.is_a(root)]

    def init_params(self, cls: ic.Cls) -> Tuple[List[str], Optional[str], Dict[str, str]]:
        """(positional parameter names, vararg name, parameter -> relational kind / 'ir' / 'flag' from @typecheck_method)."""
        r = cls.resolve('__init__')
        if r is None:
            raise AnalysisError(f'{cls.key()}: no constructor')
        fn = r[1]
        names = [a.arg for a in fn.args.args[1:]]
        var = fn.args.vararg.arg if fn.args.vararg else None
        kinds: Dict[str, str] = {}
        for dec in fn.decorator_list:
            if isinstance(dec, ast.Call) and pf.dotted(dec.func) in ('typecheck_method', 'typecheck'):
                for kw in dec.keywords:
                    if kw.arg is None:
                        continue
                    ids = {n.id for n in ast.walk(kw.value) if isinstance(n, ast.Name)}
                    seq = isinstance(kw.value, ast.Call) and pf.dotted(kw.value.func) in ('sequenceof', 'tupleof')
                    for k, v in REL_KINDS.items():
                        if k in ids:
                            kinds[kw.arg] = ('seq:' if seq or kw.arg == var else '') + v
                    if 'IR' in ids and kw.arg not in kinds:
                        kinds[kw.arg] = 'ir'
                    if ids == {'bool'}:
                        kinds[kw.arg] = 'flag'
        return names, var, kinds

    # -- evaluation of one node
    def node_typ(self, cls: ic.Cls, kinds: Dict[str, str], valuation: Dict[Term, bool]) -> Term:
        r = cls.resolve_nonroot('_compute_type')
        if r is None:
            return opaque('no _compute_type')
        self.valuation = valuation
        self.kinds = kinds
        self.cur_cls = cls
        self.helper_depth = 0
        self.where = r[0].key('_compute_type')
        self.own_kind = 'table' if cls.is_a('TableIR') else 'matrix'
        v = self.block(r[1].body, {})
        if v is None:
            return opaque('falls off the end')
        return self.as_rel(v)

    def as_rel(self, v: Any) -> Term:
        if isinstance(v, tuple) and v and v[0] == 'reltyp':
            return table_value(v[2]) if v[1] == 'table' else (matrix_value(v[2]) if v[1] == 'matrix' else opaque('block matrix type'))
        return v

    def block(self, stmts: Sequence[ast.stmt], env: Dict[str, Any]) -> Optional[Any]:
        for st in stmts:
            if isinstance(st, (ast.Expr, ast.Assert, ast.Pass)):
                continue
            if isinstance(st, ast.Assign) and len(st.targets) == 1:
                t = st.targets[0]
                if isinstance(t, ast.Name):
                    env[t.id] = self.ev(st.value, env)
                else:
                    for x in ast.walk(t):
                        if isinstance(x, ast.Name):
                            env[x.id] = opaque(f'tuple assignment `{pf.nsrc(st)[:60]}`')
                continue
            if isinstance(st, ast.For):
                if all(isinstance(s, (ast.Expr, ast.Assert, ast.Pass)) for s in st.body) and not st.orelse:
                    continue
                return opaque('loop')
            if isinstance(st, ast.If):
                at = self.cond_atom(st.test, env)
                if at is None:
                    # an undecidable test: every branch that returns must be opaque
                    return opaque(f'condition `{pf.nsrc(st.test)[:50]}`')
                atom, pol = at
                if atom not in self.valuation:
                    raise NeedCond(atom)
                br = st.body if self.valuation[atom] == pol else st.orelse
                r = self.block(br, env)
                if r is not None:
                    return r
                continue
            if isinstance(st, ast.Return):
                if st.value is None:
                    return opaque('bare return')
                return self.ev(st.value, env)
            if isinstance(st, ast.Raise):
                return opaque('raise')
            return opaque(f'statement {type(st).__name__}')
        return None

    def cond_atom(self, e: ast.AST, env: Dict[str, Any]) -> Optional[Tuple[Term, bool]]:
        if isinstance(e, ast.UnaryOp) and isinstance(e.op, ast.Not):
            r = self.cond_atom(e.operand, env)
            return (r[0], not r[1]) if r else None
        if isinstance(e, ast.Compare) and len(e.ops) == 1 and isinstance(e.ops[0], (ast.Eq, ast.NotEq)):
            l, r = self.ev(e.left, env), self.ev(e.comparators[0], env)
            for a, b in ((l, r), (r, l)):
                if isinstance(a, tuple) and a[0] == 'p' and isinstance(b, tuple) and b[0] == 's':
                    return ('eq', a, b), isinstance(e.ops[0], ast.Eq)
            return None
        a = ic._self_attr(e)
        if a is not None and self.kinds.get(a) == 'flag':
            return ('flag', ('p', a)), True
        return None

    def param(self, a: str) -> Any:
        k = self.kinds.get(a)
        if k in ('table', 'matrix', 'blockmatrix'):
            return ('rel', k, ('p', a))
        if k and k.startswith('seq:'):
            return ('relseq', k[4:], ('p', a))
        if k == 'ir':
            return ('ir', ('p', a))
        if k == 'flag':
            return ('flag', ('p', a))
        return ('p', a)

    def is_keyish(self, v: Any) -> bool:
        return isinstance(v, tuple) and bool(v) and v[0] in ('key', 'klit', 'kcat', 'kdrop', 'ktake', 'kren', 'names', 'opt')

    def structish(self, v: Any) -> bool:
        return isinstance(v, tuple) and bool(v) and v[0] in ('comp', 'concat', 'sel', 'drop', 'field', 'rename', 'typ', 'empty', 'mapty', 'inspath',
                                                              'elt', 'ftype', 'atpath')

    def ev(self, e: ast.AST, env: Dict[str, Any]) -> Any:
        if isinstance(e, ast.Constant):
            if isinstance(e.value, str):
                return ('s', e.value)
            if isinstance(e.value, bool):
                return ('bool', e.value)
            if isinstance(e.value, int):
                return ('n', e.value)
            if e.value is None:
                return ('none',)
            return opaque('constant')
        if isinstance(e, ast.UnaryOp) and isinstance(e.op, ast.USub) and isinstance(e.operand, ast.Constant) and isinstance(e.operand.value, int):
            return ('n', -e.operand.value)
        if isinstance(e, ast.Name):
            if e.id in env:
                return env[e.id]
            if e.id in PRIMS_PY:
                return ('prim', PRIMS_PY[e.id])
            return opaque(f'name {e.id}')
        if isinstance(e, (ast.List, ast.Tuple)):
            return ('klit', tuple(self.ev(x, env) for x in e.elts))
        if isinstance(e, ast.Attribute):
            a = ic._self_attr(e)
            if a is not None and 'self' in env:
                return self.attr(env['self'], a)
            if a is not None:
                if a == '_type':
                    return opaque('cached type (self._type)')
                return self.param(a)
            d = pf.dotted(e)
            if d is not None and d.startswith('hl.') and d[3:] in PRIMS_PY:
                return ('prim', PRIMS_PY[d[3:]])
            base = self.ev(e.value, env)
            return self.attr(base, e.attr)
        if isinstance(e, ast.Subscript):
            base = self.ev(e.value, env)
            if isinstance(base, tuple) and base and base[0] == '?':
                return base
            s = e.slice
            if isinstance(s, ast.Slice):
                if self.is_keyish(base) and s.upper is None and s.step is None and s.lower is not None:
                    return ('kdrop', base, self.ev(s.lower, env))
                if self.is_keyish(base) and s.lower is None and s.step is None and s.upper is not None:
                    return ('ktake', base, self.ev(s.upper, env))
                return opaque('slice')
            idx = self.ev(s, env)
            if isinstance(base, tuple) and base[0] == 'relseq' and isinstance(idx, tuple) and idx[0] == 'n':
                return ('rel', base[1], ('at', base[2], idx[1]))
            if self.structish(base):
                return t_ftype(base, idx)
            return opaque(f'subscript of {show(base) if isinstance(base, tuple) else "?"}')
        if isinstance(e, ast.BinOp) and isinstance(e.op, ast.Add):
            l, r = self.ev(e.left, env), self.ev(e.right, env)
            if (self.is_keyish(l) or l[0] == 'p') and (self.is_keyish(r) or r[0] == 'p'):
                return k_cat(l, r)
            return opaque('+')
        if isinstance(e, ast.IfExp):
            # `P if P is not None else D`  ->  opt(P, D)
            t = e.test
            if (isinstance(t, ast.Compare) and len(t.ops) == 1 and isinstance(t.ops[0], ast.IsNot) and isinstance(t.comparators[0], ast.Constant)
                    and t.comparators[0].value is None and pf.nsrc(t.left) == pf.nsrc(e.body)):
                p = self.ev(e.body, env)
                if isinstance(p, tuple) and p[0] == 'p':
                    return ('opt', p, self.ev(e.orelse, env))
            if (isinstance(t, ast.Compare) and len(t.ops) == 1 and isinstance(t.ops[0], ast.Is) and isinstance(t.comparators[0], ast.Constant)
                    and t.comparators[0].value is None and pf.nsrc(t.left) == pf.nsrc(e.orelse)):
                p = self.ev(e.orelse, env)
                if isinstance(p, tuple) and p[0] == 'p':
                    return ('opt', p, self.ev(e.body, env))
            at = self.cond_atom(t, env)
            if at is None:
                return opaque(f'condition `{pf.nsrc(t)[:50]}`')
            atom, pol = at
            if atom not in self.valuation:
                raise NeedCond(atom)
            return self.ev(e.body if self.valuation[atom] == pol else e.orelse, env)
        if isinstance(e, ast.ListComp) and len(e.generators) == 1 and not e.generators[0].ifs:
            g = e.generators[0]
            # [m.get(k, k) for k in K]
            if (isinstance(g.target, ast.Name) and isinstance(e.elt, ast.Call) and isinstance(e.elt.func, ast.Attribute) and e.elt.func.attr == 'get'
                    and len(e.elt.args) == 2 and all(isinstance(a, ast.Name) and a.id == g.target.id for a in e.elt.args)):
                k = self.ev(g.iter, env)
                m = self.ev(e.elt.func.value, env)
                if self.is_keyish(k) or (isinstance(k, tuple) and k[0] == 'p'):
                    return ('kren', k, m)
            return opaque('list comprehension')
        if isinstance(e, ast.Call):
            return self.call(e, env)
        return opaque(f'expression {type(e).__name__}')

    def attr(self, base: Any, n: str) -> Any:
        if not isinstance(base, tuple) or not base:
            return opaque('attribute of a non-term')
        h = base[0]
        if h == '?':
            return base
        if h == 'rel' and n == 'typ':
            return ('reltyp', base[1], base[2])
        if h == 'ir' and n in ('typ', '_type'):
            return ('typ', base[1])
        if h == 'reltyp':
            base = self.as_rel(base)
            h = base[0]
        if h in ('ttable', 'tmatrix'):
            idx = _PY_TT if h == 'ttable' else _PY_TM
            if n in idx:
                return base[idx[n]]
            tc = self.types['table' if h == 'ttable' else 'matrix']
            if tc.is_property(n):
                return self.type_method(tc, n, base, [], {})
            if n in tc.methods:
                return ('method', base, n)
            return opaque(f'{tc.name} has no attribute {n}')
        if n in ('element_type', '_element_type'):
            return t_elt(base)
        return ('method', base, n)

    def type_method(self, tc: PyTypeClass, n: str, this: Term, args: List[Any], kwargs: Dict[str, Any]) -> Any:
        fn = tc.methods[n]
        params = [a.arg for a in fn.args.args[1:]]
        if len(args) > len(params):
            return opaque('too many arguments')
        env: Dict[str, Any] = {'self': this}
        for p, a in zip(params, args):
            env[p] = a
        for k, a in kwargs.items():
            env[k] = a
        if any(p not in env for p in params):
            return opaque(f'{tc.name}.{n}: missing argument')
        save = (self.where,)
        self.where = f'{tc.rel}::{tc.name}.{n}'
        try:
            r = self.block(fn.body, env)
        finally:
            self.where = save[0]
        return r if r is not None else opaque('no return')

    def call(self, e: ast.Call, env: Dict[str, Any]) -> Any:
        d = pf.dotted(e.func)
        if any(isinstance(a, ast.Starred) for a in e.args):
            return opaque('starred argument')
        # tstruct(**{...}) forms need the raw keyword
        if d in ('hl.tstruct', 'tstruct'):
            return self.tstruct(e, env)
        args = [self.ev(a, env) for a in e.args]
        if any(k.arg is None for k in e.keywords):
            return opaque('**kwargs')
        kwargs = {k.arg: self.ev(k.value, env) for k in e.keywords}
        if d in ('hl.ttable', 'ttable', 'hl.tmatrix', 'tmatrix'):
            kind = 'table' if d.endswith('ttable') else 'matrix'
            tc = self.types[kind]
            vals = dict(zip(tc.params, args))
            for k, v in kwargs.items():
                if k in vals or k not in tc.params:
                    return opaque(f'{tc.name}(...) arguments')
                vals[k] = v
            if set(vals) != set(tc.params):
                return opaque(f'{tc.name}(...) arguments')
            idx = _PY_TT if kind == 'table' else _PY_TM
            out: List[Any] = ['ttable' if kind == 'table' else 'tmatrix'] + [None] * len(idx)
            for k, i in idx.items():
                out[i] = vals[k]
            return tuple(out)
        if d in ('hl.tarray', 'tarray') and len(args) == 1:
            return ('array', args[0])
        if d in ('hl.tstream', 'tstream') and len(args) == 1:
            return ('stream', args[0])
        if d in ('hl.tset', 'tset') and len(args) == 1:
            return ('set', args[0])
        if d == 'list' and len(args) == 1:
            a = args[0]
            if self.structish(a):
                return ('names', a)
            if self.is_keyish(a) or (isinstance(a, tuple) and a[0] == 'p'):
                return a
            return opaque('list(...)')
        if d == 'set' and len(args) == 1:
            return args[0]
        if isinstance(e.func, ast.Attribute):
            a = ic._self_attr(e.func)
            if a is not None and 'self' not in env:
                return self.self_helper(a, args, kwargs)
            base = self.ev(e.func.value, env)
            return self.method(base, e.func.attr, args, kwargs)
        return opaque(f'call of {d}')

    def self_helper(self, name: str, args: List[Any], kwargs: Dict[str, Any]) -> Any:
        """`self.h(...)`: a helper method of the node class (a typing rule factored out) is evaluated in place."""
        r = self.cur_cls.resolve_nonroot(name) if self.cur_cls is not None else None
        if r is None or self.helper_depth > 3 or name in ('compute_type', '_compute_type'):
            return opaque(f'call of self.{name}')
        fn = r[1]
        if fn.decorator_list or fn.args.vararg or fn.args.kwarg:
            return opaque(f'call of self.{name}')
        params = [a.arg for a in fn.args.args[1:]]
        if len(args) > len(params):
            return opaque(f'call of self.{name}')
        env: Dict[str, Any] = dict(zip(params, args))
        env.update(kwargs)
        defaults = dict(zip(params[len(params) - len(fn.args.defaults):], fn.args.defaults))
        for p in params:
            if p not in env:
                if p not in defaults:
                    return opaque(f'call of self.{name}')
                env[p] = self.ev(defaults[p], {})
        self.helper_depth += 1
        try:
            v = self.block(fn.body, env)
        finally:
            self.helper_depth -= 1
        return v if v is not None else opaque('helper without return')

    def tstruct(self, e: ast.Call, env: Dict[str, Any]) -> Any:
        if e.args:
            return opaque('tstruct positional')
        fields: List[Tuple[Term, Term]] = []
        for k in e.keywords:
            if k.arg is not None:
                fields.append((('s', k.arg), self.ev(k.value, env)))
                continue
            v = k.value
            if isinstance(v, ast.Dict):
                for kk, vv in zip(v.keys, v.values):
                    if kk is None:
                        return opaque('tstruct(**{**..})')
                    fields.append((self.ev(kk, env), self.ev(vv, env)))
                continue
            # {f: hl.tarray(t) for f, t in S.items()}
            if (isinstance(v, ast.DictComp) and len(v.generators) == 1 and not v.generators[0].ifs and len(e.keywords) == 1
                    and isinstance(v.generators[0].target, ast.Tuple) and len(v.generators[0].target.elts) == 2
                    and all(isinstance(x, ast.Name) for x in v.generators[0].target.elts)):
                f, t = [x.id for x in v.generators[0].target.elts]  # type: ignore[attr-defined]
                it = v.generators[0].iter
                if (isinstance(it, ast.Call) and isinstance(it.func, ast.Attribute) and it.func.attr == 'items' and not it.args
                        and isinstance(v.key, ast.Name) and v.key.id == f):
                    s = self.ev(it.func.value, env)
                    if isinstance(v.value, ast.Name) and v.value.id == t:
                        return s
                    if (isinstance(v.value, ast.Call) and pf.dotted(v.value.func) in ('hl.tarray', 'tarray') and len(v.value.args) == 1
                            and isinstance(v.value.args[0], ast.Name) and v.value.args[0].id == t):
                        return ('mapty', s, 'array')
            return opaque('tstruct(**...)')
        return s_lit(fields)

    def method(self, base: Any, n: str, args: List[Any], kwargs: Dict[str, Any]) -> Any:
        if not isinstance(base, tuple) or not base:
            return opaque('method of a non-term')
        h = base[0]
        if h == '?':
            return base
        if h == 'reltyp':
            base = self.as_rel(base)
            h = base[0]
        if h in ('ttable', 'tmatrix'):
            tc = self.types['table' if h == 'ttable' else 'matrix']
            if n in tc.methods and not n.endswith('_env'):
                return self.type_method(tc, n, base, args, kwargs)
            return opaque(f'{tc.name}.{n}(...)')
        if self.structish(base):
            if n == '_concat' and len(args) == 1:
                return s_concat(base, args[0])
            if n == '_insert_field' and len(args) == 2:
                return s_insert(base, args[0], args[1])
            if n == '_drop_fields' and len(args) == 1:
                return ('drop', base, args[0])
            if n == '_select_fields' and len(args) == 1:
                return ('sel', base, args[0])
            if n == '_rename' and len(args) == 1:
                return ('rename', base, args[0])
            if n == '_insert' and len(args) == 2:
                return s_inspath(base, args[0], args[1])
            if n == '_index_path' and len(args) == 1:
                return ('atpath', base, args[0])
        return opaque(f'method {n}')


# ======================================================================================================================
# Part 1f: comparison
# ======================================================================================================================

_ALLOWED_HEADS = {'p', 's', 'n', 'at', 'comp', 'key', 'typ', 'concat', 'sel', 'drop', 'field', 'empty', 'klit', 'kcat', 'kdrop', 'ktake', 'kren',
                  'rename', 'names', 'opt', 'array', 'stream', 'set', 'elt', 'mapty', 'ftype', 'atpath', 'inspath', 'prim', 'ttable', 'tmatrix', 'bool'}


def residual(t: Term) -> Optional[str]:
    """Reason why a term is not fully translated (contains an opaque / intermediate head), else None."""
    if isinstance(t, tuple):
        if not t:
            return None
        if t[0] == '?':
            return t[1]
        if isinstance(t[0], str) and t[0] not in _ALLOWED_HEADS:
            return f'untranslated `{t[0]}`'
        for x in t[1:]:
            r = residual(x)
            if r:
                return r
        return None
    if isinstance(t, (Closure, LazyDef)):
        return 'function value'
    return None


def rename_params(t: Term, m: Dict[str, str]) -> Term:
    if isinstance(t, tuple):
        if len(t) == 2 and t[0] == 'p' and isinstance(t[1], str):
            return ('p', m.get(t[1], t[1]))
        return tuple(rename_params(x, m) for x in t)
    return t


def normalise(t: Term) -> Term:
    """Final normalisation shared by both sides (after construction-time normalisation)."""
    if not isinstance(t, tuple) or not t:
        return t
    t = tuple(normalise(x) for x in t)
    h = t[0]
    # ASSUMPTION (stated by the rule): TableJoin is emitted with joinKey == len(left key) == len(right key)
    if h == 'ktake' and t[1][0] == 'key' and t[2] == ('p', 'joinKey'):
        return t[1]
    if h == 'concat':
        return s_concat(*t[1])
    if h == 'kcat':
        return k_cat(*t[1])
    if h == 'drop' and t[2][0] == 'klit' and not t[2][1]:
        return t[1]
    return t


def param_map(py_names: List[str], py_var: Optional[str], sc_params: List[Tuple[str, str]]) -> Tuple[Dict[str, str], List[str]]:
    """python constructor parameter -> scala constructor parameter (camel-cased name, else the same position when both are unmatched)."""
    sc_names = [n for n, _ in sc_params]
    m: Dict[str, str] = {}
    notes: List[str] = []
    allpy = py_names + ([py_var] if py_var else [])
    for p in allpy:
        c = camel(p)
        if c in sc_names:
            m[p] = c
    for i, p in enumerate(allpy):
        if p in m:
            continue
        if i < len(sc_names) and sc_names[i] not in m.values():
            m[p] = sc_names[i]
            notes.append(f'{p} ~ {sc_names[i]} (by position)')
    return m, notes


class RelResult:
    def __init__(self, node: str):
        self.node = node
        self.py_key = ''
        self.sc_where = ''
        self.line = 0
        self.file = ''
        self.components: List[Tuple[str, str, str, str, Dict[str, bool]]] = []   # (component, status ok|bad|skip, py, scala, valuation)
        self.skipped: Optional[str] = None
        self.notes: List[str] = []


COMPONENTS = {'ttable': ('global', 'row', 'row_key'), 'tmatrix': ('global', 'col_key', 'col', 'row_key', 'row', 'entry')}


def _valuations(eval_fn: Callable[[Dict[Term, bool]], Term]) -> List[Tuple[Dict[Term, bool], Term]]:
    """Evaluate under every valuation of the condition atoms the evaluation asks for."""
    out: List[Tuple[Dict[Term, bool], Term]] = []
    work: List[Dict[Term, bool]] = [{}]
    n = 0
    while work:
        v = work.pop()
        n += 1
        if n > 64:
            raise AnalysisError('too many condition valuations')
        try:
            out.append((v, eval_fn(v)))
        except NeedCond as e:
            for b in (True, False):
                v2 = dict(v)
                v2[e.atom] = b
                work.append(v2)
    return out


def compare_relational(table: ic.Table) -> Tuple[List[RelResult], List[str]]:
    """Compare python `_compute_type` with scala `typ` for every Table / Matrix IR node class.  Returns (results, one-sided nodes)."""
    sc = ScalaRel()
    py = PyRel(table)
    results: List[RelResult] = []
    one_sided: List[str] = []
    for root, rel in (('TableIR', TABLE_SCALA), ('MatrixIR', MATRIX_SCALA)):
        sc_nodes = {c.name: c for c in sc.node_classes(rel, root)}
        py_nodes = {c.name: c for c in py.node_classes(root)}
        for name in sorted(set(sc_nodes) | set(py_nodes)):
            if name not in sc_nodes or name not in py_nodes:
                one_sided.append(f'{name} ({"python" if name in py_nodes else "scala"} only)')
                continue
            res = RelResult(name)
            results.append(res)
            pc, scc = py_nodes[name], sc_nodes[name]
            r = pc.resolve_nonroot('_compute_type')
            res.py_key = pc.key('_compute_type')
            res.sc_where = f'{scc.S.rel}::{name}.typ'
            if r is None:
                res.skipped = 'python class has no _compute_type'
                continue
            res.file = r[0].mod.path
            res.line = r[1].lineno
            try:
                names, var, kinds = py.init_params(pc)
                pmap, notes = param_map(names, var, scc.params)
                res.notes += notes
                inv = {v: k for k, v in pmap.items()}
                # kinds missing on the python side are taken from the scala parameter types
                for sn, st in scc.params:
                    pv = sc.param_value(sn, st)
                    pn = inv.get(sn)
                    if pn is None or pn in kinds:
                        continue
                    if pv[0] == 'rel':
                        kinds[pn] = pv[1]
                    elif pv[0] == 'relseq':
                        kinds[pn] = 'seq:' + pv[1]
                    elif pv[0] == 'ir':
                        kinds[pn] = 'ir'
                    elif pv[0] == 'flag':
                        kinds[pn] = 'flag'
                if var and var not in kinds:
                    kinds[var] = 'seq:' + ('table' if root == 'TableIR' else 'matrix')
                sc_vals = _valuations(lambda v: sc.node_typ(scc, v))
                py_vals = _valuations(lambda v: rename_params(py.node_typ(pc, kinds, {rename_params(k, inv): b for k, b in v.items()}), pmap))
            except (ScalaSyntax, AnalysisError) as e:
                res.skipped = f'not translated: {e}'
                continue
            except (KeyError, IndexError, TypeError, AttributeError, ValueError, RecursionError) as e:  # fail closed
                res.skipped = f'not translated (internal: {type(e).__name__}: {e})'
                continue
            atoms = sorted({a for v, _ in sc_vals + py_vals for a in v}, key=repr)
            import itertools
            for bits in itertools.product([True, False], repeat=len(atoms)):
                val = dict(zip(atoms, bits))

                def pick(vals: List[Tuple[Dict[Term, bool], Term]]) -> Term:
                    for v, t in vals:
                        if all(val[a] == b for a, b in v.items()):
                            return t
                    return opaque('no valuation')
                st, pt = normalise(pick(sc_vals)), normalise(pick(py_vals))
                vtxt = {show(a[1]) + ('' if a[0] == 'flag' else f' == {show(a[2])}'): b for a, b in val.items()}
                if not (isinstance(st, tuple) and st[0] in COMPONENTS):
                    res.components.append(('*', 'skip', '', f'scala: {residual(st) or show(st)}', vtxt))
                    continue
                if not (isinstance(pt, tuple) and pt[0] in COMPONENTS):
                    res.components.append(('*', 'skip', f'python: {residual(pt) or show(pt)}', '', vtxt))
                    continue
                if st[0] != pt[0]:
                    res.components.append(('*', 'bad', pt[0], st[0], vtxt))
                    continue
                for i, comp in enumerate(COMPONENTS[st[0]]):
                    a, b = pt[i + 1], st[i + 1]
                    ra, rb = residual(a), residual(b)
                    if ra or rb:
                        res.components.append((comp, 'skip', f'python: {ra}' if ra else '', f'scala: {rb}' if rb else '', vtxt))
                    elif a == b:
                        res.components.append((comp, 'ok', show(a), show(b), vtxt))
                    else:
                        res.components.append((comp, 'bad', show(a), show(b), vtxt))
    return results, one_sided


def witness(py_txt: str, sc_txt: str) -> str:
    """A concrete distinguishing input for the common kinds of disagreement (message text only)."""
    import re as _re
    m = _re.search(r'(\w+(?:\[\d+\])?)\.(row|col)\[\1\.\2_key\] \+\+ \(\1\.\2 minus \1\.\2_key\)', sc_txt) or \
        _re.search(r'(\w+(?:\[\d+\])?)\.(row|col)\[\1\.\2_key\] \+\+ \(\1\.\2 minus \1\.\2_key\)', py_txt)
    if m and (f'{m.group(1)}.{m.group(2)} ++' in py_txt + ' ++' or f'{m.group(1)}.{m.group(2)} ++' in sc_txt + ' ++'):
        c, comp = m.group(1), m.group(2)
        return (f'witness: `{c}` keyed by its 2nd {comp} field, e.g. {comp} struct{{a: int32, b: str}} with key [b] (t.annotate(b=hl.str(t.idx)).key_by("b") / '
                f'mt.key_rows_by("b")): one side yields the fields in the order (a, b, ...), the other (b, a, ...) - they agree only when the key fields lead '
                f'the {comp} struct')
    return 'witness: any input for which the two expressions above denote different field lists'


# ======================================================================================================================
# Part 2a: binder table of the IR classes  (which constructor parameter names a variable, and what type the node binds it with)
# ======================================================================================================================
#
# For every IR class with renderable_bindings / renderable_agg_bindings / renderable_scan_bindings, the branch taken when
# `default_value is None` is evaluated symbolically for every child position: the result is a list of
#       BinderEntry(scope = constructor parameters of the children in whose scope the name is bound,
#                   name  = ('param', p) | ('each', p) | ('comp', p, k)          (a name parameter / every element of a name sequence)
#                   rule  = type rule over constructor parameters:
#                           ('typ', p)            type of the child passed as p
#                           ('typ_each', p)       type of the element of the child sequence p aligned with the name
#                           ('typ_comp', p, k)    type of component k of the aligned element of p
#                           ('elt', rule) ('stream', rule) ('array', rule) ('prim', n) ('opq', why))

BINDER_METHODS = ('renderable_bindings', 'renderable_agg_bindings', 'renderable_scan_bindings')


class BinderEntry:
    def __init__(self, cls: str, scope: Tuple[str, ...], name: tuple, rule: tuple, which: str):
        self.cls = cls
        self.scope = scope
        self.name = name
        self.rule = rule
        self.which = which

    def name_param(self) -> str:
        return self.name[1]

    def __repr__(self) -> str:
        return f'<{self.cls}: {self.name} : {self.rule} in {self.scope} ({self.which})>'


class _BindEval:
    """Evaluates one binder method for one child position and one valuation to {key ast: type ast} (locals expanded)."""

    def __init__(self, t: ic.Table, cls: ic.Cls, owner: ic.Cls, fn: pf.FuncDef, sc: ic.Scenario, depth: int = 0):
        self.t, self.cls, self.owner, self.fn, self.sc, self.depth = t, cls, owner, fn, sc, depth
        self.where = owner.key(fn.name)
        params = [a.arg for a in fn.args.args]
        self.ivar = params[1] if len(params) >= 2 else None
        self.locals: Dict[str, ast.expr] = {}
        self.dicts: Dict[str, List[Tuple[ast.AST, ast.AST]]] = {}

    def expand(self, e: ast.AST) -> ast.AST:
        import copy
        loc = self.locals

        class S(ast.NodeTransformer):
            def visit_Name(self, node: ast.Name):
                if isinstance(node.ctx, ast.Load) and node.id in loc:
                    return copy.deepcopy(loc[node.id])
                return node
        return S().visit(copy.deepcopy(e))

    def test(self, e: ast.AST) -> bool:
        return ic.eval_test(self.sc, e, self.ivar, self.where)

    def dict_items(self, e: ast.AST) -> List[Tuple[ast.AST, ast.AST]]:
        if isinstance(e, ast.Dict):
            out: List[Tuple[ast.AST, ast.AST]] = []
            for k, v in zip(e.keys, e.values):
                if k is None:
                    out += self.dict_items(v)
                else:
                    out.append((self.expand(k), self.value(v)))
            return out
        if isinstance(e, ast.DictComp):
            return [(e, e)]  # interpreted as a whole by the caller
        if isinstance(e, ast.IfExp):
            return self.dict_items(e.body if self.test(e.test) else e.orelse)
        if isinstance(e, ast.BinOp) and isinstance(e.op, ast.BitOr):
            return self.dict_items(e.left) + self.dict_items(e.right)
        if isinstance(e, ast.Name) and e.id in self.dicts:
            return list(self.dicts[e.id])
        if isinstance(e, ast.Call):
            f = e.func
            if isinstance(f, ast.Attribute) and isinstance(f.value, ast.Name) and f.value.id == 'self' and f.attr in BINDER_METHODS + ('bindings', 'agg_bindings', 'scan_bindings'):
                if self.depth > 3:
                    raise AnalysisError(f'{self.where}: binder methods call each other too deeply')
                r = ic.binder_func(self.cls, f.attr)
                if r is None:
                    return []
                ev = _BindEval(self.t, self.cls, r[0], r[1], self.sc, self.depth + 1)
                return ev.run()
            if isinstance(f, ast.Attribute) and f.attr.endswith('_env'):
                return [(ast.Constant(value=f'ENV:{f.attr}'), ast.Constant(value=None))]
        raise AnalysisError(f'{self.where}: unrecognised dict expression `{pf.nsrc(e)[:80]}`')

    def value(self, v: ast.AST) -> ast.AST:
        if isinstance(v, ast.IfExp):
            return self.value(v.body if self.test(v.test) else v.orelse)
        return self.expand(v)

    def run(self) -> List[Tuple[ast.AST, ast.AST]]:
        r = self.block(self.fn.body)
        if r is None:
            raise AnalysisError(f'{self.where}: falls off the end without returning')
        return r

    def block(self, stmts: Sequence[ast.stmt]) -> Optional[List[Tuple[ast.AST, ast.AST]]]:
        for st in stmts:
            if isinstance(st, ast.Expr) and isinstance(st.value, ast.Constant):
                continue
            if isinstance(st, ast.If):
                r = self.block(st.body if self.test(st.test) else st.orelse)
                if r is not None:
                    return r
            elif isinstance(st, ast.Return):
                if st.value is None:
                    raise AnalysisError(f'{self.where}: bare return')
                return self.dict_items(st.value)
            elif isinstance(st, ast.Assign) and len(st.targets) == 1:
                t = st.targets[0]
                if isinstance(t, ast.Name):
                    if isinstance(st.value, (ast.Dict, ast.DictComp)) or (isinstance(st.value, ast.Call) and isinstance(st.value.func, ast.Attribute) and st.value.func.attr.endswith('_env')):
                        self.dicts[t.id] = self.dict_items(st.value)
                    else:
                        self.locals[t.id] = self.value(st.value)  # type: ignore[assignment]
                elif isinstance(t, ast.Subscript) and isinstance(t.value, ast.Name) and t.value.id in self.dicts:
                    self.dicts[t.value.id].append((self.expand(t.slice), self.value(st.value)))
                else:
                    raise AnalysisError(f'{self.where}: unrecognised assignment `{pf.nsrc(st)[:80]}`')
            else:
                raise AnalysisError(f'{self.where}: unrecognised statement `{pf.nsrc(st)[:80]}`')
        return None


def _type_rule(e: ast.AST, attr2param: Dict[str, str], elem: Optional[Dict[str, tuple]] = None) -> tuple:
    """Type expression of a binder method -> rule over constructor parameters."""
    if isinstance(e, ast.Constant) and e.value is None:
        return ('none',)
    if isinstance(e, ast.Name):
        if e.id in PRIMS_PY:
            return ('prim', PRIMS_PY[e.id])
        return ('opq', f'name {e.id}')
    ks = _keystruct_shape(e)
    if ks is not None:
        inner = _type_rule(ks[0], attr2param, elem)
        ka = ic._self_attr(ks[1])
        if inner[0] != 'opq' and ka is not None and ka in attr2param:
            return ('keystruct', inner, attr2param[ka])
        return ('opq', pf.nsrc(e)[:60])
    if isinstance(e, ast.Attribute):
        if e.attr in ('typ', '_type'):
            a = ic._self_attr(e.value)
            if a is not None and a in attr2param:
                return ('typ', attr2param[a])
            v = e.value
            if (isinstance(v, ast.Subscript) and isinstance(v.slice, ast.Constant) and isinstance(v.slice.value, int)
                    and ic._self_attr(v.value) in attr2param):
                return ('typ_at', attr2param[ic._self_attr(v.value)], v.slice.value)  # type: ignore[index]
            if isinstance(e.value, ast.Name) and elem and e.value.id in elem:
                return elem[e.value.id]
            return ('opq', pf.nsrc(e))
        if e.attr == 'element_type':
            r = _type_rule(e.value, attr2param, elem)
            return ('elt', r) if r[0] != 'opq' else r
        d = pf.dotted(e)
        if d and d.startswith('hl.') and d[3:] in PRIMS_PY:
            return ('prim', PRIMS_PY[d[3:]])
        return ('opq', pf.nsrc(e))
    if isinstance(e, ast.Call) and pf.dotted(e.func) in ('tstream', 'hl.tstream', 'tarray', 'hl.tarray') and len(e.args) == 1 and not e.keywords:
        r = _type_rule(e.args[0], attr2param, elem)
        if r[0] == 'opq':
            return r
        return ('stream' if 'stream' in pf.dotted(e.func) else 'array', r)  # type: ignore[operator]
    return ('opq', pf.nsrc(e)[:60])


def _keystruct_shape(e: ast.AST) -> Optional[Tuple[ast.AST, ast.AST]]:
    """`tstruct(**{k: T[k] for k in K})` -> (T, K)."""
    if not (isinstance(e, ast.Call) and pf.dotted(e.func) in ('tstruct', 'hl.tstruct') and not e.args and len(e.keywords) == 1 and e.keywords[0].arg is None):
        return None
    dc = e.keywords[0].value
    if not (isinstance(dc, ast.DictComp) and len(dc.generators) == 1 and not dc.generators[0].ifs and isinstance(dc.generators[0].target, ast.Name)):
        return None
    k = dc.generators[0].target.id
    if not (isinstance(dc.key, ast.Name) and dc.key.id == k and isinstance(dc.value, ast.Subscript) and isinstance(dc.value.slice, ast.Name)
            and dc.value.slice.id == k):
        return None
    return dc.value.value, dc.generators[0].iter


def binder_table(t: ic.Table) -> Tuple[Dict[str, List[BinderEntry]], List[str]]:
    """class name -> binder entries (caller-chosen names only); plus notes about classes that could not be evaluated."""
    out: Dict[str, List[BinderEntry]] = {}
    notes: List[str] = []
    for cls in t.ir_classes():
        if not any(cls.resolve_nonroot(m) for m in BINDER_METHODS):
            continue
        if cls.resolve_nonroot('bindings') is not None:
            notes.append(f'{cls.name}: overrides bindings() directly (not modelled)')
            continue
        try:
            entries = _binder_entries(t, cls)
        except AnalysisError as e:
            notes.append(f'{cls.name}: {e}')
            continue
        if entries:
            out[cls.name] = entries
    return out, notes


def _ctor_attr_map(cls: ic.Cls) -> Dict[str, str]:
    """self attribute -> constructor parameter (the constructor stores `self.a = p`, p a parameter, possibly re-bound first)."""
    r = cls.resolve('__init__')
    if r is None:
        return {}
    fn = r[1]
    params = {a.arg for a in fn.args.args[1:]} | ({fn.args.vararg.arg} if fn.args.vararg else set())
    out: Dict[str, str] = {}
    for st in pf.walk_shallow(fn):
        if isinstance(st, ast.Assign) and len(st.targets) == 1 and isinstance(st.value, ast.Name) and st.value.id in params:
            a = ic._self_attr(st.targets[0])
            if a is not None:
                out[a] = st.value.id
    return out


def _binder_entries(t: ic.Table, cls: ic.Cls) -> List[BinderEntry]:
    a2p = _ctor_attr_map(cls)
    lays = ic.layouts(cls)
    lay = lays[0]
    merged: Dict[Tuple[tuple, str], BinderEntry] = {}
    for which in BINDER_METHODS:
        r = cls.resolve_nonroot(which)
        if r is None:
            continue
        owner, fn = r
        ivar = fn.args.args[1].arg if len(fn.args.args) > 1 else None
        atoms = [a for a in ic.flag_atoms(cls, [which])]
        free = [a for a in atoms if a != 'default_value is None']
        for pos, seg in lay.positions():
            for fl in ic.valuations(free):
                flags = dict(fl)
                flags['default_value is None'] = True
                try:
                    items = _BindEval(t, cls, owner, fn, ic.Scenario(cls, pos, flags, lay)).run()
                except ic.Undecided:
                    continue
                for k, v in items:
                    for name, rule in _entry_of(cls, k, v, a2p):
                        key = (name, which)
                        scope_param = seg.name
                        if key in merged:
                            e = merged[key]
                            if e.rule != rule:
                                raise AnalysisError(f'{cls.key(which)}: `{name}` is bound with different types for different children / flags')
                            if scope_param not in e.scope:
                                e.scope = e.scope + (scope_param,)
                        else:
                            merged[key] = BinderEntry(cls.name, (scope_param,), name, rule, which)
    # the same name bound by several methods (agg + scan twins) with the same rule: keep one entry per (name, rule)
    final: Dict[Tuple[tuple, tuple], BinderEntry] = {}
    for (name, which), e in merged.items():
        k2 = (name, e.rule)
        if k2 in final:
            f = final[k2]
            f.scope = tuple(dict.fromkeys(f.scope + e.scope))
            f.which += '+' + which
        else:
            final[k2] = e
    return list(final.values())


def _entry_of(cls: ic.Cls, k: ast.AST, v: ast.AST, a2p: Dict[str, str]) -> List[Tuple[tuple, tuple]]:
    """(name source, type rule) for one dict item; [] for implicit names (string literals, the aggregation capability, env methods)."""
    if isinstance(k, ast.DictComp):
        dc = k
        if len(dc.generators) != 1 or dc.generators[0].ifs:
            raise AnalysisError(f'{cls.key()}: unrecognised binder comprehension')
        g = dc.generators[0]
        tgt = g.target
        names = [x.id for x in tgt.elts] if isinstance(tgt, ast.Tuple) and all(isinstance(x, ast.Name) for x in tgt.elts) else None  # type: ignore[attr-defined]
        if names is None or not isinstance(dc.key, ast.Name) or dc.key.id not in names:
            raise AnalysisError(f'{cls.key()}: unrecognised binder comprehension target')
        kpos = names.index(dc.key.id)
        it = g.iter
        val = dc.value
        if isinstance(val, ast.IfExp):
            # `default_value if default_value is not None else X`
            tst = pf.nsrc(val.test)
            if tst == 'default_value is not None':
                val = val.orelse
            elif tst == 'default_value is None':
                val = val.body
        a = ic._self_attr(it)
        if a is not None and a in a2p:
            p = a2p[a]
            elem = {n: ('typ_comp', p, i) for i, n in enumerate(names)}
            return [(('comp', p, kpos), _type_rule(val, a2p, elem))]
        if isinstance(it, ast.Call) and pf.dotted(it.func) == 'zip' and len(it.args) == len(names):
            ps = []
            for x in it.args:
                xa = ic._self_attr(x)
                if xa is None or xa not in a2p:
                    raise AnalysisError(f'{cls.key()}: unrecognised zip source in a binder comprehension')
                ps.append(a2p[xa])
            elem = {n: ('typ_each', ps[i]) for i, n in enumerate(names)}
            return [(('each', ps[kpos]), _type_rule(val, a2p, elem))]
        raise AnalysisError(f'{cls.key()}: unrecognised binder comprehension source')
    a = ic._self_attr(k)
    if a is not None:
        if a not in a2p:
            raise AnalysisError(f'{cls.key()}: binder name self.{a} is not a constructor parameter')
        rule = _type_rule(v, a2p)
        if rule == ('none',):
            return []
        return [(('param', a2p[a]), rule)]
    return []


# ======================================================================================================================
# Part 2b: Flow - path-sensitive def-use analysis of the binder-emitting functions of the expression front end
# ======================================================================================================================
#
# A small abstract interpreter over the Python AST.  It enumerates the paths of one ROOT function (environments are immutable
# dicts; an `if` forks, equal tests over unchanged operands are decided consistently) and follows calls into same-class /
# base-class methods, module-level helpers, local closures and lambdas (so a refactor into a helper is seen through).
#
# Abstract values (hashable tuples)
#   ('obj', vid, refs, ty)   an Expression / IR value created at definition site `vid`;  `X._ir` is identified with X
#                            refs = frozenset of (name key, type term): the variable references (Ref nodes) the value may contain
#                            ty   = known type term or None (= ('typeof', vid))
#   ('type', T)              a HailType value          ('name', key)  a binder name: ('uid', site) from Env.get_uid(), ('lit', s)
#   ('tup', (v...))          list / tuple of known length         ('fam', elem) sequence of unknown length, elements described by elem
#   ('zip', (seq...)) ('func', node, env, selfval, clsname) ('irclass', K) ('opq', refs) ('const', v) ('none',)
# Type terms:  ('typeof', vid) ('elt', T) ('array'|'stream'|'set', T) ('prim', n) ('attr', T, a) ('ctor', n, (T...)) ('idx', T, k) ('opq', why)
#
# At every construction of a binder IR node K(...) the binder table tells which argument is the bound NAME, which argument is the
# VALUE whose type the node binds it with, and which arguments are the SCOPE.  The check: every reference (name, T) to that name
# inside the scope arguments must have T == the type term of the value argument AS PASSED AT THE EMISSION.  Because `x = coerce(x)`
# creates a new definition site, a variable typed before a re-assignment of the value it was typed from no longer matches.

FlowVal = tuple
EMPTYSET: FrozenSet = frozenset()


class FlowGiveUp(AnalysisError):
    pass


def norm_ty(t: tuple) -> tuple:
    if not isinstance(t, tuple) or not t:
        return t
    h = t[0]
    if h == 'elt':
        inner = norm_ty(t[1])
        if inner[0] in ('array', 'stream', 'set'):
            return inner[1]
        if inner[0] == 'ctor' and inner[1] == 'tndarray' and inner[2]:
            return inner[2][0]
        return ('elt', inner)
    if h in ('array', 'stream', 'set'):
        return (h, norm_ty(t[1]))
    if h == 'attr':
        return ('attr', norm_ty(t[1]), t[2])
    if h == 'ctor':
        return ('ctor', t[1], tuple(norm_ty(x) for x in t[2]))
    if h == 'idx':
        return ('idx', norm_ty(t[1]), t[2])
    if h == 'keystruct':
        return ('keystruct', norm_ty(t[1]), t[2])
    return t


def _eta(t: tuple) -> tuple:
    """collection<elt(X)> -> X  (equal to X exactly when X is that kind of collection - which the terms cannot tell)."""
    if not isinstance(t, tuple) or not t:
        return t
    if t[0] in ('array', 'stream', 'set') and isinstance(t[1], tuple) and t[1] and t[1][0] == 'elt':
        return _eta(t[1][1])
    return tuple(_eta(x) if isinstance(x, tuple) else x for x in t)


def _apply_kinds(t: Any, kinds: Dict[Any, str]) -> Any:
    """kind<elt(typeof(v))> -> typeof(v) when v is known to have a type of that collection kind."""
    if not isinstance(t, tuple) or not t:
        return t
    t = tuple(_apply_kinds(x, kinds) if isinstance(x, tuple) else x for x in t)
    if (t[0] in ('array', 'stream', 'set') and isinstance(t[1], tuple) and t[1][0] == 'elt' and isinstance(t[1][1], tuple)
            and t[1][1][0] == 'typeof' and kinds.get(t[1][1][1]) == t[0]):
        return t[1][1]
    return t


def ty_compare(a: tuple, b: tuple, kinds: Optional[Dict[Any, str]] = None) -> str:
    """'eq' | 'ne' | 'unknown' for two normalised, non-opaque type terms."""
    if kinds:
        a, b = _apply_kinds(a, kinds), _apply_kinds(b, kinds)
    if a == b:
        return 'eq'
    if _eta(a) == _eta(b):
        return 'unknown'
    return 'ne'


def _subterms(t: Any) -> List[Any]:
    out = [t]
    if isinstance(t, tuple):
        for x in t:
            if isinstance(x, tuple):
                out += _subterms(x)
    return out


def ty_opaque(t: tuple) -> Optional[str]:
    if not isinstance(t, tuple) or not t:
        return None
    if t[0] == 'opq':
        return str(t[1])
    for x in t[1:]:
        if isinstance(x, tuple):
            r = ty_opaque(x)
            if r:
                return r
    return None


def show_vid(v: Any) -> str:
    if isinstance(v, tuple) and v:
        if v[0] == 'param':
            return f'parameter `{v[1]}`'
        if v[0] == 'site':
            return f'`{v[2]}`'
        if v[0] == 'item':
            return f'an element of {show_vid(v[1])}'
        if v[0] == 'at':
            return f'element {v[1]} of {show_vid(v[2])}'
        if v[0] == 'perm':
            return f'a re-ordered element of {show_vid(v[1])}'
    return str(v)


def show_ty(t: tuple) -> str:
    if not isinstance(t, tuple) or not t:
        return str(t)
    h = t[0]
    if h == 'typeof':
        return f'the type of {show_vid(t[1])}'
    if h == 'elt':
        return f'the element type of ({show_ty(t[1])})'
    if h in ('array', 'stream', 'set'):
        return f'{h}<{show_ty(t[1])}>'
    if h == 'prim':
        return t[1]
    if h == 'attr':
        return f'({show_ty(t[1])}).{t[2]}'
    if h == 'ctor':
        return f'{t[1]}({", ".join(show_ty(x) for x in t[2])})'
    if h == 'idx':
        return f'({show_ty(t[1])})[{t[2]}]'
    if h == 'opq':
        return f'<{t[1]}>'
    if h == 'tyval':
        return f'the type value {show_vid(t[1])}'
    if h == 'keystruct':
        return f'struct of the fields {show_vid(t[2])} of ({show_ty(t[1])})'
    return str(t)


def show_name(k: Any) -> str:
    if isinstance(k, tuple) and k:
        if k[0] == 'uid':
            return f'the uid `{k[2]}`'
        if k[0] == 'lit':
            return repr(k[1])
    return str(k)


TYPE_CTORS = {'tstream': 'stream', 'tarray': 'array', 'tset': 'set'}
TYPE_CTORS_OTHER = ('tdict', 'ttuple', 'tstruct', 'tinterval', 'tndarray', 'tlocus')
# calls whose result is a collection with the same element type as their (single) argument
ELT_PRESERVING = {'hl.array': 'array', 'hl.set': 'set', 'array': 'array'}
ELT_PRESERVING_IR = {'toStream': 'stream', 'ToStream': 'stream', 'toArray': 'array', 'ToArray': 'array', 'CastToArray': 'array'}
PURE_TYPE_ATTRS = ('dtype', '_type', 'typ')


class ExprModules:
    """Parsed modules of the expression front end: module functions, classes with methods and single-inheritance-ish MRO."""

    def __init__(self, rels: Sequence[str]):
        self.mods: Dict[str, pf.Module] = {r: pf.load(r) for r in rels}
        self.funcs: Dict[str, Dict[str, pf.FuncDef]] = {}
        self.classes: Dict[str, Tuple[str, ast.ClassDef]] = {}
        self.methods_by_name: Dict[str, List[Tuple[str, str, pf.FuncDef]]] = {}
        self._imports: Dict[str, Dict[str, str]] = {}
        for rel, m in self.mods.items():
            fs: Dict[str, pf.FuncDef] = {}
            for st in m.tree.body:
                if isinstance(st, (ast.FunctionDef,)):
                    fs[st.name] = st
                elif isinstance(st, ast.ClassDef):
                    self.classes.setdefault(st.name, (rel, st))
                    for f in st.body:
                        if isinstance(f, ast.FunctionDef):
                            self.methods_by_name.setdefault(f.name, []).append((rel, st.name, f))
            self.funcs[rel] = fs

    def imports(self, rel: str) -> Dict[str, str]:
        if rel not in self._imports:
            self._imports[rel] = self.mods[rel].imports()
        return self._imports[rel]

    def collection_kind(self, cname: Optional[str]) -> Optional[str]:
        """'array' | 'set' | 'stream' when construct_expr's table `typ_to_expr` maps that type constructor to a class in the MRO."""
        if cname is None:
            return None
        if self._kinds is None:
            self._kinds = {}
            for m in self.mods.values():
                for st in m.tree.body:
                    if (isinstance(st, ast.Assign) and len(st.targets) == 1 and isinstance(st.targets[0], ast.Name) and st.targets[0].id == 'typ_to_expr'
                            and isinstance(st.value, ast.Dict)):
                        for k, v in zip(st.value.keys, st.value.values):
                            if isinstance(k, ast.Name) and isinstance(v, ast.Name) and k.id in TYPE_CTORS:
                                self._kinds[v.id] = TYPE_CTORS[k.id]
        for c in self.mro(cname):
            if c in self._kinds:
                return self._kinds[c]
        return None

    _kinds: Optional[Dict[str, str]] = None

    def mro(self, cname: str) -> List[str]:
        out: List[str] = []
        work = [cname]
        while work:
            c = work.pop(0)
            if c in out or c not in self.classes:
                continue
            out.append(c)
            for b in self.classes[c][1].bases:
                d = pf.dotted(b)
                if d:
                    work.append(d.split('.')[-1])
        return out

    def method(self, cname: str, name: str) -> Optional[Tuple[str, str, pf.FuncDef]]:
        for c in self.mro(cname):
            rel, node = self.classes[c]
            for f in node.body:
                if isinstance(f, ast.FunctionDef) and f.name == name:
                    return rel, c, f
        return None

    def unique_method(self, name: str) -> Optional[Tuple[str, str, pf.FuncDef]]:
        ms = self.methods_by_name.get(name, [])
        return ms[0] if len(ms) == 1 else None


class SiteResult:
    """Verdicts for one (root function, IR class, name parameter)."""

    def __init__(self, key: str, file: str, line: int):
        self.key = key
        self.file = file
        self.line = line
        self.ok = 0
        self.bad: List[str] = []
        self.undecided: List[str] = []
        self.unref = 0


ALLOWED_DECORATORS = ('typecheck', 'typecheck_method', 'staticmethod')


class Flow:
    MAX_ENVS = 400
    MAX_DEPTH = 6

    def __init__(self, table: ic.Table, binders: Dict[str, List[BinderEntry]], mods: ExprModules):
        self.t = table
        self.binders = binders
        self.mods = mods
        self.results: Dict[str, SiteResult] = {}
        self.notes: List[str] = []
        self.root_key = ''
        self.root_file = ''
        self.rel = ''
        self.stack: List[str] = []
        self.loop_outer: List[Set[str]] = []
        self.steps = 0
        self._ir_types: Dict[str, Optional[tuple]] = {}

    # ------------------------------------------------------------------ values
    @staticmethod
    def obj(vid: Any, refs: FrozenSet = EMPTYSET, ty: Optional[tuple] = None) -> FlowVal:
        return ('obj', vid, refs, ty)

    def site(self, node: ast.AST) -> tuple:
        return ('site', id(node), pf.nsrc(node)[:70])

    def tyof(self, v: FlowVal) -> tuple:
        if v[0] == 'obj':
            return v[3] if v[3] is not None else ('typeof', v[1])
        if v[0] == 'opq':
            return ('opq', 'type of an unrecognised value')
        return ('opq', f'type of a {v[0]}')

    def refs_of(self, v: FlowVal) -> FrozenSet:
        h = v[0]
        if h == 'obj':
            return v[2]
        if h == 'opq':
            return v[1]
        if h in ('tup', 'zip'):
            out: FrozenSet = EMPTYSET
            for x in v[1]:
                out = out | self.refs_of(x)
            return out
        if h in ('fam', 'famacc', 'perm', 'enum'):
            return self.refs_of(v[1])
        if h == 'bound':
            return self.refs_of(v[1])
        return EMPTYSET

    def wrap(self, v: FlowVal, tag: tuple) -> FlowVal:
        """The same kind of value standing for a DIFFERENT element (re-ordered / fixed index) of the collection it came from."""
        def sub(t: Any) -> Any:
            if isinstance(t, tuple):
                if len(t) == 2 and t[0] == 'item':
                    return tag + (t,)
                return tuple(sub(x) for x in t)
            return t
        h = v[0]
        if h == 'obj':
            nv = sub(v[1])
            return ('obj', nv if nv != v[1] else tag + (v[1],), v[2], None if v[3] is None else sub(v[3]))
        if h == 'name':
            return ('name', tag + (v[1],))
        if h == 'tup':
            return ('tup', tuple(self.wrap(x, tag) for x in v[1]))
        if h == 'type':
            return ('type', sub(v[1]))
        return v

    def elem_of(self, v: FlowVal) -> FlowVal:
        h = v[0]
        if h in ('fam', 'famacc'):
            return v[1]
        if h == 'tup':
            if v[1] and all(x == v[1][0] for x in v[1]):
                return v[1][0]
            return ('opq', self.refs_of(v))
        if h == 'zip':
            return ('tup', tuple(self.elem_of(x) for x in v[1]))
        if h == 'enum':
            return ('tup', (('opq', EMPTYSET), self.elem_of(v[1])))
        if h == 'perm':
            return self.wrap(self.elem_of(v[1]), ('perm',))
        if h == 'obj':
            return ('obj', ('item', v[1]), v[2], None)
        return ('opq', self.refs_of(v))

    # ------------------------------------------------------------------ environments
    @staticmethod
    def bind(env: Dict[str, FlowVal], name: str, v: FlowVal) -> Dict[str, FlowVal]:
        e2 = dict(env)
        e2[name] = v
        return e2

    def assign(self, env: Dict[str, FlowVal], target: ast.AST, v: FlowVal) -> Dict[str, FlowVal]:
        if isinstance(target, ast.Name):
            return self.bind(env, target.id, v)
        if isinstance(target, (ast.Tuple, ast.List)):
            n = len(target.elts)
            if v[0] == 'tup' and len(v[1]) == n and not any(isinstance(x, ast.Starred) for x in target.elts):
                for x, xv in zip(target.elts, v[1]):
                    env = self.assign(env, x, xv)
                return env
            for x in target.elts:
                env = self.assign(env, x.value if isinstance(x, ast.Starred) else x, ('opq', self.refs_of(v)))
            return env
        return env  # attribute / subscript stores are not tracked

    # ------------------------------------------------------------------ statements
    def exec_block(self, stmts: Sequence[ast.stmt], env: Dict[str, FlowVal]) -> List[Tuple[str, Dict[str, FlowVal], Optional[FlowVal]]]:
        cur: List[Dict[str, FlowVal]] = [env]
        done: List[Tuple[str, Dict[str, FlowVal], Optional[FlowVal]]] = []
        for st in stmts:
            nxt: List[Dict[str, FlowVal]] = []
            seen: Set[Any] = set()
            for e in cur:
                for kind, e2, val in self.exec_stmt(st, e):
                    if kind == 'next':
                        k = self.env_key(e2)
                        if k not in seen:
                            seen.add(k)
                            nxt.append(e2)
                    else:
                        done.append((kind, e2, val))
            if len(nxt) > self.MAX_ENVS:
                raise FlowGiveUp('too many paths')
            cur = nxt
            if not cur:
                break
        return done + [('next', e, None) for e in cur]

    @staticmethod
    def env_key(env: Dict[str, FlowVal]) -> Any:
        try:
            return frozenset(env.items())
        except TypeError:
            return id(env)

    def test_key(self, test: ast.AST, env: Dict[str, FlowVal]) -> Any:
        names = sorted({n.id for n in ast.walk(test) if isinstance(n, ast.Name)})
        try:
            return (ast.dump(test), tuple((n, env.get(n)) for n in names))
        except TypeError:
            return None

    def exec_stmt(self, st: ast.stmt, env: Dict[str, FlowVal]) -> List[Tuple[str, Dict[str, FlowVal], Optional[FlowVal]]]:
        self.steps += 1
        if self.steps > 200000:
            raise FlowGiveUp('analysis budget exceeded')
        if isinstance(st, ast.Expr):
            v = st.value
            if isinstance(v, ast.Constant):
                return [('next', env, None)]
            # L.append(x)
            if (isinstance(v, ast.Call) and isinstance(v.func, ast.Attribute) and v.func.attr == 'append' and isinstance(v.func.value, ast.Name)
                    and v.func.value.id in env and len(v.args) == 1 and not v.keywords):
                name = v.func.value.id
                out = []
                for xv in self.ev(v.args[0], env):
                    out.append(('next', self.bind(env, name, self.append(env[name], xv, name)), None))
                return out
            self.ev(v, env)
            return [('next', env, None)]
        if isinstance(st, ast.Assign):
            out = []
            for v in self.ev(st.value, env):
                e2 = env
                for t in st.targets:
                    e2 = self.assign(e2, t, v)
                out.append(('next', e2, None))
            return out
        if isinstance(st, ast.AnnAssign):
            if st.value is None:
                return [('next', env, None)]
            return [('next', self.assign(env, st.target, v), None) for v in self.ev(st.value, env)]
        if isinstance(st, ast.AugAssign):
            vs = self.ev(st.value, env)
            out = []
            for v in vs:
                if isinstance(st.target, ast.Name):
                    old = env.get(st.target.id, ('opq', EMPTYSET))
                    out.append(('next', self.bind(env, st.target.id, ('opq', self.refs_of(old) | self.refs_of(v))), None))
                else:
                    out.append(('next', env, None))
            return out
        if isinstance(st, ast.Return):
            if st.value is None:
                return [('return', env, ('none',))]
            return [('return', env, v) for v in self.ev(st.value, env)]
        if isinstance(st, ast.Raise):
            return [('raise', env, None)]
        if isinstance(st, (ast.Pass, ast.Assert, ast.Import, ast.ImportFrom, ast.Global, ast.Nonlocal, ast.Delete)):
            return [('next', env, None)]
        if isinstance(st, ast.Break):
            return [('break', env, None)]
        if isinstance(st, ast.Continue):
            return [('continue', env, None)]
        if isinstance(st, ast.FunctionDef):
            return [('next', self.bind(env, st.name, ('func', id(st), self.hold(st, env))), None)]
        if isinstance(st, ast.If):
            return self.exec_if(st, env)
        if isinstance(st, ast.For):
            return self.exec_for(st, env)
        if isinstance(st, ast.With):
            e2 = env
            for it in st.items:
                self.ev(it.context_expr, env)
                if it.optional_vars is not None:
                    e2 = self.assign(e2, it.optional_vars, ('opq', EMPTYSET))
            return self.exec_block(st.body, e2)
        if isinstance(st, ast.Try):
            out = self.exec_block(st.body, env)
            for h in st.handlers:
                e2 = self.bind(env, h.name, ('opq', EMPTYSET)) if h.name else env
                out += self.exec_block(h.body, e2)
            if st.finalbody or st.orelse:
                raise FlowGiveUp('try/else/finally')
            return out
        raise FlowGiveUp(f'statement {type(st).__name__}')

    # closures: the defining environment is captured by reference in a side table (keeps values hashable)
    def hold(self, node: ast.AST, env: Dict[str, FlowVal]) -> int:
        h = len(self._held)
        self._held.append((node, env, self.cur_self, self.cur_cls, self.rel))
        return h

    def append(self, cur: FlowVal, v: FlowVal, name: str) -> FlowVal:
        in_loop = bool(self.loop_outer) and name in self.loop_outer[-1]
        if in_loop:
            if cur == ('tup', ()):
                return ('famacc', v)
            if cur[0] == 'famacc':
                return cur if cur[1] == v else ('famacc', ('opq', self.refs_of(cur) | self.refs_of(v)))
            return ('fam', ('opq', self.refs_of(cur) | self.refs_of(v)))
        if cur[0] == 'tup':
            return ('tup', cur[1] + (v,))
        return ('fam', ('opq', self.refs_of(cur) | self.refs_of(v)))

    def exec_if(self, st: ast.If, env: Dict[str, FlowVal]):
        self.ev(st.test, env)  # calls inside the test are still evaluated (emissions, none expected)
        facts = env.get('$facts', ('facts', EMPTYSET))[1]
        key = self.test_key(st.test, env)
        known = None
        if isinstance(st.test, ast.Constant):
            known = bool(st.test.value)
        elif key is not None:
            for k, b in facts:
                if k == key:
                    known = b
        out = []
        for b in (True, False):
            if known is not None and known != b:
                continue
            e2 = env
            if key is not None and known is None:
                e2 = self.bind(env, '$facts', ('facts', facts | {(key, b)}))
            out += self.exec_block(st.body if b else st.orelse, e2)
        return out

    def exec_for(self, st: ast.For, env: Dict[str, FlowVal]):
        out: List[Tuple[str, Dict[str, FlowVal], Optional[FlowVal]]] = []
        for itv in self.ev(st.iter, env):
            if itv[0] == 'zip' and all(x[0] == 'tup' for x in itv[1]) and len({len(x[1]) for x in itv[1]}) == 1:
                itv = ('tup', tuple(('tup', tuple(x[1][i] for x in itv[1])) for i in range(len(itv[1][0][1]))))
            if itv[0] == 'tup' and len(itv[1]) <= 8:
                cur = [env]
                for xv in itv[1]:
                    nxt = []
                    for e in cur:
                        for kind, e2, val in self.exec_block(st.body, self.assign(e, st.target, xv)):
                            if kind in ('next', 'continue'):
                                nxt.append(e2)
                            elif kind == 'break':
                                out.append(('next', e2, None))
                            else:
                                out.append((kind, e2, val))
                    cur = nxt
                out += [('next', e, None) for e in cur]
                continue
            # symbolic iteration: the body is executed for a generic element; loop-carried state is iterated to a fixpoint (bounded)
            elem = self.elem_of(itv)
            self.loop_outer.append(set(env.keys()))
            try:
                frontier = [env]
                reached: Dict[Any, Dict[str, FlowVal]] = {}
                for _round in range(3):
                    nxt = []
                    for e in frontier:
                        for kind, e2, val in self.exec_block(st.body, self.assign(e, st.target, elem)):
                            if kind in ('next', 'continue', 'break'):
                                k = self.env_key(e2)
                                if k not in reached:
                                    reached[k] = e2
                                    nxt.append(e2)
                            else:
                                out.append((kind, e2, val))
                    frontier = nxt
                    if not frontier:
                        break
            finally:
                self.loop_outer.pop()
            out.append(('next', env, None))  # zero iterations
            for e2 in reached.values():
                e3 = {k: (('fam', v[1]) if isinstance(v, tuple) and v and v[0] == 'famacc' else v) for k, v in e2.items()}
                out.append(('next', e3, None))
        return out

    # ------------------------------------------------------------------ expressions
    def ev(self, e: ast.AST, env: Dict[str, FlowVal]) -> List[FlowVal]:
        self.steps += 1
        if isinstance(e, ast.Constant):
            if e.value is None:
                return [('none',)]
            return [('const', e.value if isinstance(e.value, (str, int, bool, float)) else repr(e.value))]
        if isinstance(e, ast.Name):
            if e.id in env:
                return [env[e.id]]
            if e.id in PRIMS_PY:
                return [('type', ('prim', PRIMS_PY[e.id]))]
            return [('glob', e.id)]
        if isinstance(e, ast.Attribute):
            return [self.attr(b, e.attr, e) for b in self.ev(e.value, env)]
        if isinstance(e, (ast.Tuple, ast.List)):
            if any(isinstance(x, ast.Starred) for x in e.elts):
                refs: FrozenSet = EMPTYSET
                for x in e.elts:
                    for v in self.ev(x.value if isinstance(x, ast.Starred) else x, env):
                        refs = refs | self.refs_of(v)
                return [('fam', ('opq', refs))]
            return [('tup', c) for c in self.product([self.ev(x, env) for x in e.elts])]
        if isinstance(e, ast.Call):
            return self.call(e, env)
        if isinstance(e, ast.IfExp):
            self.ev(e.test, env)
            return self.dedupe(self.ev(e.body, env) + self.ev(e.orelse, env))
        if isinstance(e, ast.Lambda):
            return [('func', id(e), self.hold(e, env))]
        if isinstance(e, (ast.ListComp, ast.GeneratorExp)):
            return self.comprehension(e, env)
        if isinstance(e, ast.Subscript):
            return self.subscript(e, env)
        if isinstance(e, ast.Starred):
            return self.ev(e.value, env)
        if isinstance(e, (ast.BinOp, ast.BoolOp, ast.Compare, ast.UnaryOp, ast.JoinedStr, ast.FormattedValue, ast.Dict, ast.Set, ast.DictComp, ast.SetComp)):
            refs = EMPTYSET
            for ch in ast.iter_child_nodes(e):
                if isinstance(ch, ast.expr):
                    for v in self.ev(ch, env):
                        refs = refs | self.refs_of(v)
                elif isinstance(ch, ast.comprehension):
                    for v in self.ev(ch.iter, env):
                        refs = refs | self.refs_of(v)
            if isinstance(e, ast.BinOp) and isinstance(e.op, ast.Add):
                # list concatenation of known tuples stays known
                ls, rs = self.ev(e.left, env), self.ev(e.right, env)
                if len(ls) == 1 and len(rs) == 1 and ls[0][0] == 'tup' and rs[0][0] == 'tup':
                    return [('tup', ls[0][1] + rs[0][1])]
            if isinstance(e, (ast.Compare, ast.BoolOp)) or (isinstance(e, ast.UnaryOp) and isinstance(e.op, ast.Not)):
                return [('opq', EMPTYSET)]
            return [('obj', self.site(e), refs, None)] if refs else [('opq', refs)]
        if isinstance(e, ast.NamedExpr):
            raise FlowGiveUp('assignment expression')
        if isinstance(e, (ast.Await, ast.Yield, ast.YieldFrom)):
            raise FlowGiveUp('generator / coroutine')
        return [('opq', EMPTYSET)]

    @staticmethod
    def dedupe(vs: List[FlowVal]) -> List[FlowVal]:
        out: List[FlowVal] = []
        for v in vs:
            if v not in out:
                out.append(v)
        return out

    def product(self, lists: List[List[FlowVal]]) -> List[Tuple[FlowVal, ...]]:
        import itertools
        n = 1
        for l in lists:
            n *= max(1, len(l))
        if n > 64:
            raise FlowGiveUp('too many alternatives')
        return [tuple(c) for c in itertools.product(*lists)]

    def attr(self, b: FlowVal, a: str, node: ast.AST) -> FlowVal:
        h = b[0]
        if h == 'obj':
            if a == '_ir':
                return b
            if a in PURE_TYPE_ATTRS:
                return ('type', self.tyof(b))
            if a in ('_indices', '_aggregations', 'ndim'):
                return ('opq', EMPTYSET)
            return ('bound', b, a)
        if h == 'type':
            if a == 'element_type':
                return ('type', norm_ty(('elt', b[1])))
            return ('type', ('attr', b[1], a))
        if h == 'glob':
            if b[1] == 'hl' and a in PRIMS_PY:
                return ('type', ('prim', PRIMS_PY[a]))
            return ('glob', b[1] + '.' + a)
        if h == 'tup' or h == 'fam':
            return ('bound', b, a)
        if h == 'opq':
            if a in PURE_TYPE_ATTRS:
                return ('type', ('opq', 'type of an unrecognised value'))
            return ('opq', b[1])
        if h == 'bound':
            return ('bound', b, a)
        return ('opq', self.refs_of(b))

    def subscript(self, e: ast.Subscript, env: Dict[str, FlowVal]) -> List[FlowVal]:
        out = []
        for b in self.ev(e.value, env):
            s = e.slice
            if isinstance(s, ast.Slice):
                if s.lower is None and s.upper is None and s.step is None:
                    out.append(b)
                elif b[0] in ('tup', 'fam', 'obj'):
                    out.append(('perm', b if b[0] != 'tup' else ('fam', self.elem_of(b))))
                else:
                    out.append(('opq', self.refs_of(b)))
                continue
            k = s.value if isinstance(s, ast.Constant) else None
            if isinstance(s, ast.UnaryOp) and isinstance(s.op, ast.USub) and isinstance(s.operand, ast.Constant):
                k = -s.operand.value
            if b[0] == 'tup' and isinstance(k, int) and -len(b[1]) <= k < len(b[1]):
                out.append(b[1][k])
            elif b[0] in ('fam', 'obj') and isinstance(k, int):
                out.append(self.wrap(self.elem_of(b), ('at', k)))
            elif b[0] == 'type':
                out.append(('type', ('idx', b[1], pf.nsrc(s)[:40])))
            elif b[0] == 'obj':
                ir = EMPTYSET
                for v in self.ev(s, env):
                    ir = ir | self.refs_of(v)
                out.append(('obj', self.site(e), b[2] | ir, None))
            else:
                out.append(('opq', self.refs_of(b)))
        return self.dedupe(out)

    def comprehension(self, e: ast.AST, env: Dict[str, FlowVal]) -> List[FlowVal]:
        gens = e.generators  # type: ignore[attr-defined]
        elt = e.elt  # type: ignore[attr-defined]
        if len(gens) != 1 or gens[0].ifs:
            refs: FrozenSet = EMPTYSET
            e2 = env
            for g in gens:
                for itv in self.ev(g.iter, e2):
                    refs = refs | self.refs_of(itv)
                    e2 = self.assign(e2, g.target, self.elem_of(itv))
            for v in self.ev(elt, e2):
                refs = refs | self.refs_of(v)
            return [('fam', ('opq', refs))]
        g = gens[0]
        out = []
        for itv in self.ev(g.iter, env):
            if itv[0] == 'zip' and all(x[0] == 'tup' for x in itv[1]) and len({len(x[1]) for x in itv[1]}) == 1:
                itv = ('tup', tuple(('tup', tuple(x[1][i] for x in itv[1])) for i in range(len(itv[1][0][1]))))
            if itv[0] == 'tup' and len(itv[1]) <= 8:
                alts: List[List[FlowVal]] = []
                for xv in itv[1]:
                    alts.append(self.ev(elt, self.assign(env, g.target, xv)))
                out += [('tup', c) for c in self.product(alts)]
            else:
                for v in self.ev(elt, self.assign(env, g.target, self.elem_of(itv))):
                    out.append(('fam', v))
        return self.dedupe(out)

    # ------------------------------------------------------------------ calls
    def call(self, e: ast.Call, env: Dict[str, FlowVal]) -> List[FlowVal]:
        ks = _keystruct_shape(e)
        if ks is not None:
            out0 = []
            for tv in self.ev(ks[0], env):
                for kv in self.ev(ks[1], env):
                    if tv[0] == 'type':
                        out0.append(('type', ('keystruct', norm_ty(tv[1]), kv[1] if kv[0] == 'obj' else kv)))
                    else:
                        out0.append(('type', ('opq', 'tstruct(**...)')))
            return self.dedupe(out0)
        fvals = self.ev(e.func, env)
        # arguments (alternatives multiply)
        pos_lists: List[List[FlowVal]] = []
        star_flags: List[bool] = []
        for a in e.args:
            if isinstance(a, ast.Starred):
                pos_lists.append(self.ev(a.value, env))
                star_flags.append(True)
            else:
                pos_lists.append(self.ev(a, env))
                star_flags.append(False)
        kw_names: List[Optional[str]] = [k.arg for k in e.keywords]
        kw_lists = [self.ev(k.value, env) for k in e.keywords]
        out: List[FlowVal] = []
        for f in fvals:
            for combo in self.product(pos_lists + kw_lists):
                pos = list(combo[:len(pos_lists)])
                kws = list(combo[len(pos_lists):])
                args: List[FlowVal] = []
                fam_star: Optional[FlowVal] = None
                for v, st in zip(pos, star_flags):
                    if not st:
                        args.append(v)
                    elif v[0] == 'tup':
                        args += list(v[1])
                    else:
                        fam_star = v if fam_star is None else ('fam', ('opq', self.refs_of(fam_star) | self.refs_of(v)))
                kwargs: Dict[str, FlowVal] = {}
                extra_refs: FrozenSet = EMPTYSET
                for n, v in zip(kw_names, kws):
                    if n is None:
                        extra_refs = extra_refs | self.refs_of(v)
                    else:
                        kwargs[n] = v
                out += self.apply(f, args, kwargs, fam_star, extra_refs, e, env)
        return self.dedupe(out)

    def opaque_call(self, e: ast.AST, recv: Optional[FlowVal], args: List[FlowVal], kwargs: Dict[str, FlowVal], fam_star: Optional[FlowVal],
                    extra: FrozenSet) -> FlowVal:
        refs = extra
        for v in ([recv] if recv is not None else []) + args + list(kwargs.values()) + ([fam_star] if fam_star is not None else []):
            refs = refs | self.refs_of(v)
        return ('obj', self.site(e), refs, None)

    def apply(self, f: FlowVal, args: List[FlowVal], kwargs: Dict[str, FlowVal], fam_star: Optional[FlowVal], extra: FrozenSet,
              e: ast.Call, env: Dict[str, FlowVal]) -> List[FlowVal]:
        h = f[0]
        if h == 'glob':
            return self.apply_global(f[1], args, kwargs, fam_star, extra, e, env)
        if h == 'func':
            node, cenv, cself, ccls, crel = self._held[f[2]]
            return self.invoke(node, cenv, cself, ccls, crel, args, kwargs, fam_star, e, extra)
        if h == 'irclass':
            return [self.ir_construct(f[1], args, kwargs, fam_star, e)]
        if h == 'bound':
            recv, name = f[1], f[2]
            if recv[0] == 'obj':
                m = None
                if recv[1] == ('param', 'self') and self.cur_cls:
                    m = self.mods.method(self.cur_cls, name)
                if m is None:
                    m = self.mods.unique_method(name) if (name.startswith('_') or recv[1] == ('param', 'self')) else None
                if m is not None and self.interpretable(m[2]):
                    rel, cname, fn = m
                    if any(pf.dotted(d) == 'staticmethod' for d in fn.decorator_list):
                        return self.invoke(fn, {}, None, cname, rel, args, kwargs, fam_star, e, extra)
                    dyn = self.cur_cls if (recv[1] == ('param', 'self') and self.cur_cls) else cname
                    return self.invoke(fn, {}, recv, dyn, rel, [recv] + args, kwargs, fam_star, e, extra)
                if name in ('_to_stream',):
                    return [('obj', self.site(e), recv[2], ('stream', norm_ty(('elt', self.tyof(recv)))))]
                if name in ('to_array',):
                    return [('obj', self.site(e), recv[2], ('array', norm_ty(('elt', self.tyof(recv)))))]
            return [self.opaque_call(e, recv, args, kwargs, fam_star, extra)]
        if h in ('obj', 'opq'):
            # a callback (user function) or an unknown callable
            return [self.opaque_call(e, f if h == 'obj' else None, args, kwargs, fam_star, extra | self.refs_of(f))]
        return [self.opaque_call(e, None, args, kwargs, fam_star, extra)]

    def builds_variables(self, fn: pf.FuncDef) -> bool:
        """Does the helper (lexically) create bound variables or binder nodes?  Only such imported helpers are followed."""
        for n in ast.walk(fn):
            if isinstance(n, ast.Call):
                d = pf.dotted(n.func) or ''
                last = d.split('.')[-1]
                if last in ('construct_variable', 'Ref') or last in self.binders:
                    return True
        return False

    def interpretable(self, fn: pf.FuncDef) -> bool:
        for d in fn.decorator_list:
            n = pf.dotted(d.func) if isinstance(d, ast.Call) else pf.dotted(d)
            if n is None or n.split('.')[-1] not in ALLOWED_DECORATORS:
                return False
        return not any(isinstance(x, (ast.Yield, ast.YieldFrom)) for x in pf.walk_shallow(fn))

    def invoke(self, node: ast.AST, cenv: Dict[str, FlowVal], selfval: Optional[FlowVal], cls: Optional[str], rel: str, args: List[FlowVal],
               kwargs: Dict[str, FlowVal], fam_star: Optional[FlowVal], e: ast.AST, extra: FrozenSet) -> List[FlowVal]:
        key = f'{id(node)}'
        if key in self.stack or len(self.stack) >= self.MAX_DEPTH:
            return [self.opaque_call(e, None, args, kwargs, fam_star, extra)]
        a = node.args  # type: ignore[attr-defined]
        params = [x.arg for x in a.posonlyargs + a.args]
        env: Dict[str, FlowVal] = dict(cenv)
        env.pop('$facts', None)
        pos = list(args)
        for p in params:
            if pos:
                env[p] = pos.pop(0)
            elif fam_star is not None and p not in kwargs:
                env[p] = self.elem_of(fam_star)
        if a.vararg is not None:
            if fam_star is not None and not pos:
                env[a.vararg.arg] = fam_star
            elif fam_star is not None:
                env[a.vararg.arg] = ('fam', ('opq', self.refs_of(('tup', tuple(pos))) | self.refs_of(fam_star)))
            else:
                env[a.vararg.arg] = ('tup', tuple(pos))
        elif pos:
            return [self.opaque_call(e, None, args, kwargs, fam_star, extra)]
        kwonly = [x.arg for x in a.kwonlyargs]
        for k, v in kwargs.items():
            if k in params or k in kwonly:
                env[k] = v
            elif a.kwarg is None:
                return [self.opaque_call(e, None, args, kwargs, fam_star, extra)]
        defaults = dict(zip(params[len(params) - len(a.defaults):], a.defaults))
        for p, d in zip(kwonly, a.kw_defaults):
            if d is not None:
                defaults[p] = d
        for p in params + kwonly:
            if p not in env or (p in cenv and p not in kwargs and p not in params[:len(args)] and p in defaults and env[p] is cenv.get(p)):
                if p in defaults:
                    dv = self.ev(defaults[p], {})
                    env[p] = dv[0]
                elif p not in env:
                    return [self.opaque_call(e, None, args, kwargs, fam_star, extra)]
        if a.kwarg is not None:
            env[a.kwarg.arg] = ('opq', EMPTYSET)
        save = (self.cur_self, self.cur_cls, self.rel, self.loop_outer)
        self.stack.append(key)
        self.loop_outer = []
        try:
            if isinstance(node, ast.Lambda):
                self.cur_self, self.cur_cls, self.rel = selfval, cls, rel
                return self.dedupe(self.ev(node.body, env))
            if selfval is not None or isinstance(node, ast.FunctionDef):
                self.cur_self, self.cur_cls, self.rel = selfval, cls, rel
            outs = self.exec_block(node.body, env)  # type: ignore[attr-defined]
            rets: List[FlowVal] = []
            for kind, e2, val in outs:
                if kind == 'return' and val is not None:
                    rets.append(val)
                elif kind == 'next':
                    rets.append(('none',))
            return self.dedupe(rets)
        finally:
            self.stack.pop()
            self.cur_self, self.cur_cls, self.rel, self.loop_outer = save

    # -- globals: the semantic table of the front end's own constructors and of a few builtins
    def apply_global(self, d: str, args: List[FlowVal], kwargs: Dict[str, FlowVal], fam_star: Optional[FlowVal], extra: FrozenSet,
                     e: ast.Call, env: Dict[str, FlowVal]) -> List[FlowVal]:
        parts = d.split('.')
        last = parts[0] if len(parts) == 1 else parts[-1]
        root = parts[0]
        is_builtin_ns = root == 'builtins'

        def arg(i: int, name: str) -> Optional[FlowVal]:
            if i < len(args):
                return args[i]
            return kwargs.get(name)

        if d in ('Env.get_uid', 'hl.utils.java.Env.get_uid'):
            return [('name', ('uid', id(e), pf.nsrc(e)[:40]))]
        if last == 'construct_variable':
            n, t = arg(0, 'name'), arg(1, 'type')
            if n is None or t is None:
                return [self.opaque_call(e, None, args, kwargs, fam_star, extra)]
            nk = self.name_key(n)
            ty = self.as_type(t)
            return [('obj', self.site(e), frozenset({(nk, ty)}), ty)]
        if last == 'Ref' and root in ('ir', 'hl', 'Ref'):
            n, t = arg(0, 'name'), arg(1, 'type')
            if n is None:
                return [self.opaque_call(e, None, args, kwargs, fam_star, extra)]
            nk = self.name_key(n)
            ty = self.as_type(t)
            return [('obj', ('ref',) + self.site(e)[1:], frozenset({(nk, ty)}), ty)]
        if last == 'construct_expr':
            x, t = arg(0, 'x'), arg(1, 'type')
            if x is None or t is None:
                return [self.opaque_call(e, None, args, kwargs, fam_star, extra)]
            ty = self.as_type(t)
            if ty_opaque(ty):
                ty = None
            if x[0] == 'obj' and isinstance(x[1], tuple) and x[1][0] == 'ref' and ty is not None and x[3] is not None:
                self.check_ref_expr(x, ty, e)
            return [('obj', self.site(e), self.refs_of(x), ty)]
        if last == 'to_expr' and args:
            return [args[0] if args[0][0] == 'obj' else self.opaque_call(e, None, args, kwargs, fam_star, extra)]
        if last == 'cast_expr' and args:
            t = arg(1, 'dtype')
            ty = self.as_type(t) if t is not None else None
            return [('obj', self.site(e), self.refs_of(args[0]), None if (ty is None or ty_opaque(ty)) else ty)]
        if last == 'unify_all':
            return [('tup', (('opq', EMPTYSET), ('opq', EMPTYSET)))]
        if (last in TYPE_CTORS or last in TYPE_CTORS_OTHER) and root in ('hl', last):
            ts = [a[1] if a[0] == 'type' else (('tyval', a[1]) if a[0] == 'obj' else ('opq', 'non-type constructor argument')) for a in args]
            if extra or kwargs or fam_star is not None:
                ts.append(('opq', 'keyword / starred constructor arguments'))
            if last in TYPE_CTORS and len(ts) == 1 and not kwargs:
                return [('type', (TYPE_CTORS[last], norm_ty(ts[0])))]
            return [('type', ('ctor', last, tuple(norm_ty(x) for x in ts)))]
        if (last in PRIMS_PY) and root in ('hl', last):
            return [('type', ('prim', PRIMS_PY[last]))]
        if d in ELT_PRESERVING and len(args) == 1 and args[0][0] == 'obj' and (root == 'hl' or d not in self.mods.funcs.get(self.rel, {})):
            return [('obj', self.site(e), args[0][2], (ELT_PRESERVING[d], norm_ty(('elt', self.tyof(args[0])))))]
        # IR constructors and helpers
        if root in ('ir', 'hl') and (len(parts) == 2 and root == 'ir' or parts[:2] == ['hl', 'ir']):
            if last in ELT_PRESERVING_IR and args and args[0][0] == 'obj':
                return [('obj', self.site(e), args[0][2], (ELT_PRESERVING_IR[last], norm_ty(('elt', self.tyof(args[0])))))]
            if last in self.t.classes and self.t.classes[last].is_a('BaseIR'):
                return [self.ir_construct(last, args, kwargs, fam_star, e)]
            return [self.opaque_call(e, None, args, kwargs, fam_star, extra)]
        # python builtins (functions.py shadows several of them with hail functions of the same name)
        shadowed = (not is_builtin_ns) and last in self.mods.funcs.get(self.rel, {}) and len(parts) == 1
        if not shadowed and (len(parts) == 1 or is_builtin_ns):
            if last == 'zip':
                if fam_star is not None and not args:
                    return [('fam', ('opq', self.refs_of(fam_star)))]
                return [('zip', tuple(args))]
            if last == 'enumerate' and len(args) >= 1:
                return [('enum', args[0])]
            if last in ('list', 'tuple') and len(args) == 1:
                a0 = args[0]
                return [a0 if a0[0] in ('tup', 'fam') else ('fam', self.elem_of(a0))]
            if last == 'reversed' and len(args) == 1:
                return [('perm', args[0] if args[0][0] != 'tup' else ('fam', self.elem_of(args[0])))]
            if last == 'range':
                return [('fam', ('opq', EMPTYSET))]
            if last in ('len', 'isinstance', 'hasattr', 'str', 'int', 'bool', 'repr', 'set', 'max', 'min', 'any', 'all', 'sum', 'type', 'id'):
                return [('opq', EMPTYSET)]
        # module-level function of the current module
        if len(parts) == 1 and last in self.mods.funcs.get(self.rel, {}):
            fn = self.mods.funcs[self.rel][last]
            if self.interpretable(fn):
                return self.invoke(fn, {}, None, None, self.rel, args, kwargs, fam_star, e, extra)
        # a helper imported from another module of the expression front end (unique definition, imported under its own name)
        if len(parts) == 1 and last in self.mods.imports(self.rel):
            defs = [(r, fs[last]) for r, fs in self.mods.funcs.items() if last in fs]
            if len(defs) == 1 and self.interpretable(defs[0][1]) and self.builds_variables(defs[0][1]):
                return self.invoke(defs[0][1], {}, None, None, defs[0][0], args, kwargs, fam_star, e, extra)
        # ClassName.method(obj, ...)  /  ClassName.static_helper(...)
        if len(parts) == 2 and parts[0] in self.mods.classes:
            m = self.mods.method(parts[0], parts[1])
            if m is not None and self.interpretable(m[2]):
                rel2, cname, fn = m
                if any(pf.dotted(d) == 'staticmethod' for d in fn.decorator_list):
                    return self.invoke(fn, {}, None, cname, rel2, args, kwargs, fam_star, e, extra)
                if args and args[0][0] == 'obj':
                    dyn = self.cur_cls if (args[0][1] == ('param', 'self') and self.cur_cls) else cname
                    return self.invoke(fn, {}, args[0], dyn, rel2, args, kwargs, fam_star, e, extra)
        if len(parts) == 1 and last in self.t.classes and self.t.classes[last].is_a('BaseIR'):
            return [self.ir_construct(last, args, kwargs, fam_star, e)]
        return [self.opaque_call(e, None, args, kwargs, fam_star, extra)]

    def as_type(self, t: Optional[FlowVal]) -> tuple:
        if t is None:
            return ('opq', 'no type argument')
        if t[0] == 'type':
            return norm_ty(t[1])
        if t[0] == 'obj':
            return ('tyval', t[1])   # a type computed by an unrecognised function: identified by its definition site
        return ('opq', 'type argument is not a recognised type value')

    def name_key(self, n: FlowVal) -> Any:
        if n[0] == 'name':
            return n[1]
        if n[0] == 'const' and isinstance(n[1], str):
            return ('lit', n[1])
        return ('unknown-name', repr(n)[:60])

    # ------------------------------------------------------------------ IR construction and the binder check
    def ir_signature(self, K: str) -> Tuple[List[str], Optional[str], Dict[str, ast.expr]]:
        cls = self.t.get(K)
        r = cls.resolve('__init__')
        if r is None:
            raise FlowGiveUp(f'{K} has no constructor')
        fn = r[1]
        params = [a.arg for a in fn.args.args[1:]]
        defaults = dict(zip(params[len(params) - len(fn.args.defaults):], fn.args.defaults))
        return params, (fn.args.vararg.arg if fn.args.vararg else None), defaults

    def ir_construct(self, K: str, args: List[FlowVal], kwargs: Dict[str, FlowVal], fam_star: Optional[FlowVal], e: ast.AST) -> FlowVal:
        params, var, defaults = self.ir_signature(K)
        bound: Dict[str, FlowVal] = {}
        pos = list(args)
        for p in params:
            if pos:
                bound[p] = pos.pop(0)
        if var is not None:
            bound[var] = fam_star if (fam_star is not None and not pos) else ('tup', tuple(pos))
            pos = []
        ok = not pos and fam_star is None or var is not None
        for k, v in kwargs.items():
            if k in params:
                bound[k] = v
            else:
                ok = False
        refs: FrozenSet = EMPTYSET
        for v in args + list(kwargs.values()) + ([fam_star] if fam_star is not None else []):
            refs = refs | self.refs_of(v)
        if K in self.binders:
            if not ok:
                for ent in self.binders[K]:
                    self.record(K, ent, 'undecided', 'the constructor call could not be bound to the signature', e)
            else:
                removed = self.check_binders(K, bound, e)
                # names bound by this node are no longer free in it
                refs = EMPTYSET
                for p, v in bound.items():
                    r = self.refs_of(v)
                    if p in removed:
                        r = frozenset(x for x in r if x[0] not in removed[p])
                    refs = refs | r
        return ('obj', self.site(e), refs, self.simple_ir_type(K, bound) if ok else None)

    def simple_ir_type(self, K: str, bound: Dict[str, FlowVal]) -> Optional[tuple]:
        if K not in self._ir_types:
            rule: Optional[tuple] = None
            cls = self.t.get(K)
            r = cls.resolve_nonroot('_compute_type')
            if r is not None and r[1].body and isinstance(r[1].body[-1], ast.Return) and r[1].body[-1].value is not None:
                simple = all(isinstance(s, (ast.Expr, ast.Return, ast.Assert)) for s in r[1].body)
                if simple:
                    rr = _type_rule(r[1].body[-1].value, _ctor_attr_map(cls))
                    if not ty_opaque(rr) and rr[0] != 'none':
                        rule = rr
            self._ir_types[K] = rule
        rule = self._ir_types[K]
        if rule is None:
            return None
        t = self.eval_rule(rule, bound, None)
        return None if (t is None or ty_opaque(t)) else norm_ty(t)

    def eval_rule(self, rule: tuple, bound: Dict[str, FlowVal], elem_idx: Optional[int], fam: bool = False) -> Optional[tuple]:
        h = rule[0]
        if h == 'prim':
            return rule
        if h in ('elt', 'stream', 'array'):
            inner = self.eval_rule(rule[1], bound, elem_idx, fam)
            return None if inner is None else norm_ty((h, inner))
        if h == 'typ':
            v = bound.get(rule[1])
            if v is None or v[0] != 'obj':
                return ('opq', f'argument `{rule[1]}` is not a recognised expression')
            return self.tyof(v)
        if h == 'keystruct':
            inner = self.eval_rule(rule[1], bound, elem_idx, fam)
            kv = bound.get(rule[2])
            if inner is None or kv is None:
                return ('opq', 'key argument missing')
            return ('keystruct', norm_ty(inner), kv[1] if kv[0] == 'obj' else kv)
        if h == 'typ_at':
            v = bound.get(rule[1])
            if v is None:
                return ('opq', f'argument `{rule[1]}` missing')
            if v[0] == 'tup' and rule[2] < len(v[1]):
                x = v[1][rule[2]]
            elif v[0] == 'tup':
                return ('skip',)   # the indexed child does not exist on this path (constructing the node fails)
            elif v[0] in ('fam', 'famacc'):
                x = self.wrap(self.elem_of(v), ('at', rule[2]))
            else:
                return ('opq', f'`{rule[1]}` is not a recognised sequence')
            if x[0] != 'obj':
                return ('opq', 'element is not a recognised expression')
            return self.tyof(x)
        if h in ('typ_each', 'typ_comp'):
            v = bound.get(rule[1])
            if v is None:
                return ('opq', f'argument `{rule[1]}` missing')
            if elem_idx is not None:
                if v[0] != 'tup' or elem_idx >= len(v[1]):
                    return ('opq', f'`{rule[1]}` is not aligned with the names')
                x = v[1][elem_idx]
            else:
                if v[0] not in ('fam', 'famacc', 'perm'):
                    return ('opq', f'`{rule[1]}` is not a recognised sequence')
                x = self.elem_of(v)
            if h == 'typ_comp':
                if x[0] != 'tup' or rule[2] >= len(x[1]):
                    return ('opq', 'element is not a recognised tuple')
                x = x[1][rule[2]]
            if x[0] != 'obj':
                return ('opq', 'element is not a recognised expression')
            return self.tyof(x)
        return ('opq', str(rule[1]) if len(rule) > 1 else 'unrecognised rule')

    def check_binders(self, K: str, bound: Dict[str, FlowVal], e: ast.AST) -> Dict[str, Set[Any]]:
        removed: Dict[str, Set[Any]] = {}
        for ent in self.binders[K]:
            nsrc = ent.name
            nv = bound.get(nsrc[1])
            pairs: List[Tuple[Any, Optional[tuple]]] = []
            if nv is None:
                self.record(K, ent, 'undecided', f'name argument `{nsrc[1]}` not passed', e)
                continue
            if nsrc[0] == 'param':
                if nv[0] not in ('name', 'const'):
                    self.record(K, ent, 'undecided', f'name argument `{nsrc[1]}` is not a recognised name', e)
                    continue
                pairs.append((self.name_key(nv), self.eval_rule(ent.rule, bound, None)))
            elif nsrc[0] == 'each':
                if nv[0] == 'tup':
                    for i, x in enumerate(nv[1]):
                        pairs.append((self.name_key(x), self.eval_rule(ent.rule, bound, i)))
                elif nv[0] in ('fam', 'famacc', 'perm'):
                    pairs.append((self.name_key(self.elem_of(nv)), self.eval_rule(ent.rule, bound, None, True)))
                else:
                    self.record(K, ent, 'undecided', f'name sequence `{nsrc[1]}` is not recognised', e)
                    continue
            elif nsrc[0] == 'comp':
                if nv == ('tup', ()):
                    continue
                if nv[0] == 'tup':
                    for i, x in enumerate(nv[1]):
                        if x[0] == 'tup' and nsrc[2] < len(x[1]):
                            pairs.append((self.name_key(x[1][nsrc[2]]), self.eval_rule(ent.rule, bound, i)))
                elif nv[0] in ('fam', 'famacc', 'perm'):
                    x = self.elem_of(nv)
                    if x[0] == 'tup' and nsrc[2] < len(x[1]):
                        pairs.append((self.name_key(x[1][nsrc[2]]), self.eval_rule(ent.rule, bound, None, True)))
                if not pairs:
                    self.record(K, ent, 'undecided', f'name sequence `{nsrc[1]}` is not recognised', e)
                    continue
            scope_refs: FrozenSet = EMPTYSET
            for s in ent.scope:
                if s in bound:
                    scope_refs = scope_refs | self.refs_of(bound[s])
            for nk, want in pairs:
                for s in ent.scope:
                    removed.setdefault(s, set()).add(nk)
                if isinstance(nk, tuple) and nk and nk[0] == 'unknown-name':
                    self.record(K, ent, 'undecided', 'the bound name is not a recognised name value', e)
                    continue
                got = [t for (k, t) in scope_refs if k == nk]
                if want is not None and 'skip' in repr(want) and ('skip',) in _subterms(want):
                    continue
                if not got:
                    self.record(K, ent, 'unref', '', e)
                    continue
                if want is None or ty_opaque(want):
                    self.record(K, ent, 'undecided', f'the type the node binds the name with is not decided ({ty_opaque(want) if want else "no rule"})', e)
                    continue
                want = norm_ty(want)
                for t in got:
                    t = norm_ty(t)
                    if ty_opaque(t):
                        self.record(K, ent, 'undecided', f'the type the variable was created with is not decided ({ty_opaque(t)})', e)
                    elif ty_compare(t, want, self.kinds) == 'eq':
                        self.record(K, ent, 'ok', '', e)
                    elif ty_compare(t, want, self.kinds) == 'unknown':
                        self.record(K, ent, 'undecided', f'{show_ty(t)} and {show_ty(want)} agree exactly when the collection kinds agree (not decided by the terms)', e)
                    else:
                        self.record(K, ent, 'bad',
                                    f'the variable named by `{nsrc[1]}` ({show_name(nk)}) is referenced in the {"/".join(ent.scope)} with {show_ty(t)}, '
                                    f'but the emitted {K} binds that name to {show_ty(want)} (rule {K}.{ent.which.split("+")[0]}): on this path the value was '
                                    f're-assigned / taken from another expression after the variable was typed, and the references were not rebuilt. Counter-example: any '
                                    f'call in which the two differ, e.g. an int32 value widened to float64 (hl.fold(lambda acc, x: acc + x, 0, float64_array)) or '
                                    f'collections with different element types', e)
        return removed

    def check_ref_expr(self, x: FlowVal, ty: tuple, e: ast.AST) -> None:
        rt = norm_ty(x[3])
        key = f'{self.root_key}::Ref/construct_expr'
        res = self.results.setdefault(key, SiteResult(key, self.root_file, getattr(e, 'lineno', 0)))
        if ty_opaque(rt) or ty_opaque(ty):
            res.undecided.append('type not decided')
        elif ty_compare(rt, ty, self.kinds) == 'eq':
            res.ok += 1
        elif ty_compare(rt, ty, self.kinds) == 'unknown':
            res.undecided.append('collection kinds not decided')
        else:
            res.bad.append(f'`{pf.nsrc(e)[:90]}`: the Ref is created with {show_ty(rt)} but the expression wrapping it reports {show_ty(ty)}')

    def record(self, K: str, ent: BinderEntry, status: str, msg: str, e: ast.AST) -> None:
        key = f'{self.root_key}::{K}.{ent.name[1]}'
        res = self.results.setdefault(key, SiteResult(key, self.root_file, getattr(e, 'lineno', 0)))
        if status == 'ok':
            res.ok += 1
        elif status == 'bad':
            if msg not in res.bad:
                res.bad.append(msg)
        elif status == 'unref':
            res.unref += 1
        else:
            if msg not in res.undecided:
                res.undecided.append(msg)

    # ------------------------------------------------------------------ roots
    _held: List[Any] = []
    kinds: Dict[Any, str] = {}
    cur_self: Optional[FlowVal] = None
    cur_cls: Optional[str] = None

    def run_root(self, rel: str, qual: str, fn: pf.FuncDef, cls: Optional[str]) -> Optional[str]:
        """Analyse one root function; returns a reason when the analysis gave up."""
        self._held = []
        self.stack = [f'{id(fn)}']
        self.loop_outer = []
        self.steps = 0
        self.rel = rel
        self.root_key = f'{rel}::{qual}'
        self.root_file = self.mods.mods[rel].path
        self.cur_cls = cls
        self.kinds = {}
        k = self.mods.collection_kind(cls)
        if k is not None:
            self.kinds[('param', 'self')] = k
        env: Dict[str, FlowVal] = {}
        a = fn.args
        for i, p in enumerate(a.posonlyargs + a.args + a.kwonlyargs):
            env[p.arg] = ('obj', ('param', p.arg), EMPTYSET, None)
        if a.vararg is not None:
            env[a.vararg.arg] = ('fam', ('obj', ('item', ('param', a.vararg.arg)), EMPTYSET, None))
        if a.kwarg is not None:
            env[a.kwarg.arg] = ('opq', EMPTYSET)
        is_method = cls is not None and not any(pf.dotted(d) == 'staticmethod' for d in fn.decorator_list)
        self.cur_self = env.get((a.posonlyargs + a.args)[0].arg) if is_method and (a.posonlyargs + a.args) else None
        if self.cur_self is not None:
            first = (a.posonlyargs + a.args)[0].arg
            env[first] = ('obj', ('param', 'self'), EMPTYSET, None)
            self.cur_self = env[first]
        try:
            self.exec_block(fn.body, env)
        except FlowGiveUp as ex:
            return str(ex)
        except RecursionError:
            return 'recursion limit'
        except AnalysisError as ex:
            return str(ex)
        except (KeyError, IndexError, TypeError, AttributeError, ValueError) as ex:  # fail closed: an unforeseen shape is a decline, never a verdict
            return f'internal: {type(ex).__name__}: {ex}'
        return None


def binder_roots(mods: ExprModules, binders: Dict[str, List[BinderEntry]]) -> List[Tuple[str, str, pf.FuncDef, Optional[str]]]:
    """(file, qualified name, function, class) of every top-level function / method that lexically mentions a binder IR class."""
    out = []
    names = set(binders)

    def mentions(fn: ast.AST) -> bool:
        for n in ast.walk(fn):
            if isinstance(n, ast.Attribute) and n.attr in names:
                d = pf.dotted(n)
                if d in (f'ir.{n.attr}', f'hl.ir.{n.attr}'):
                    return True
        return False

    emit_funcs: Dict[str, Set[str]] = {}
    emit_methods: Set[str] = set()
    for rel, m in mods.mods.items():
        for st in m.tree.body:
            if isinstance(st, ast.FunctionDef) and mentions(st):
                out.append((rel, st.name, st, None))
                emit_funcs.setdefault(rel, set()).add(st.name)
            elif isinstance(st, ast.ClassDef):
                for f in st.body:
                    if isinstance(f, ast.FunctionDef) and mentions(f):
                        out.append((rel, f'{st.name}.{f.name}', f, st.name))
                        emit_methods.add(f.name)
    # one level up: a function that hands its variables / values to an emitting helper of its own class or module
    have = {(r, q) for r, q, _, _ in out}

    def calls_emitter(fn: ast.AST, rel: str) -> bool:
        for n in ast.walk(fn):
            if isinstance(n, ast.Call):
                f = n.func
                if isinstance(f, ast.Name) and f.id in emit_funcs.get(rel, set()):
                    return True
                if isinstance(f, ast.Attribute) and isinstance(f.value, ast.Name) and f.value.id in ('self', 'cls') and f.attr in emit_methods and f.attr.startswith('_'):
                    return True
        return False

    for rel, m in mods.mods.items():
        for st in m.tree.body:
            if isinstance(st, ast.FunctionDef) and (rel, st.name) not in have and calls_emitter(st, rel):
                out.append((rel, st.name, st, None))
            elif isinstance(st, ast.ClassDef):
                for f in st.body:
                    if isinstance(f, ast.FunctionDef) and (rel, f'{st.name}.{f.name}') not in have and calls_emitter(f, rel):
                        out.append((rel, f'{st.name}.{f.name}', f, st.name))
    return out


EXPR_DIR = 'hail/python/hail/expr'
EXTRA_BINDER_FILES = ('hail/python/hail/experimental/loop.py', 'hail/python/hail/vds/combiner/combine.py')


def analyse_binders(table: ic.Table) -> Tuple[Dict[str, SiteResult], List[str], Dict[str, Any]]:
    """Run the binder analysis over hail/python/hail/expr/** (+ the TailLoop front end).  Returns (site results, notes, stats)."""
    binders, notes = binder_table(table)
    from .common import read_repo
    rels = []
    for r in [r for r in pf.walk_py([EXPR_DIR])] + [r for r in EXTRA_BINDER_FILES]:
        txt = read_repo(r)
        # only files that can contain a root or a variable-building helper are parsed
        if 'construct_variable' in txt or 'ir.Ref(' in txt or any(f'ir.{k}' in txt for k in binders):
            rels.append(r)
    mods = ExprModules(rels)
    flow = Flow(table, binders, mods)
    roots = binder_roots(mods, binders)
    gave_up: List[str] = []
    for rel, qual, fn, cls in roots:
        why = flow.run_root(rel, qual, fn, cls)
        if why:
            gave_up.append(f'{rel}::{qual}: {why}')
    stats = {'binder_classes': len(binders), 'binder_entries': sum(len(v) for v in binders.values()), 'roots': len(roots), 'roots_given_up': gave_up,
             'files': len(rels)}
    return flow.results, notes, stats


# ======================================================================================================================
# Part 1g: the python struct primitives have the ORDERED semantics the algebra assumes  (static order facts)
# ======================================================================================================================
#
# compare_relational() treats tstruct._concat / _insert_field(s) / _drop_fields / _select_fields / _rename as primitives.  Their
# definitions (hail/python/hail/expr/types.py, class tstruct) are read SYMBOLICALLY here: nothing is evaluated on concrete values.
# The syntax tree of each helper is turned into an ORDER TERM describing the field list of the struct it returns
#
#     fields(X)                  the fields of the struct / mapping X (self, another parameter, the **kwargs dict) in X's order
#     keys(k1, ...)              the keys of a dict display, in display order
#     ounion(t1, t2, ...)        ordered union: dict `update` / repeated insertion - a key keeps the position of its first insertion
#     filter(t, in|notin P)      comprehension / loop over t in order with a membership filter on parameter P
#     iter(P)                    one field per element of the GIVEN iterable P, in P's iteration order
#     maporder(t, M)             the fields of t in order, each renamed by M.get(name, name)
#
# and compared with the term the algebra (and TStruct.scala: `++`, typeAfterSelect(key.map(fieldIdx)), filterSet, rename,
# appendKey / insertFields) assumes.  A recognised different term is a violation; an unrecognised shape is an AnalysisError.

TYPES_PY = 'hail/python/hail/expr/types.py'


def _o_union(*parts: tuple) -> tuple:
    out: List[tuple] = []
    for p in parts:
        if p == ('empty',):
            continue
        if p[0] == 'ounion':
            out.extend(p[1])
        else:
            out.append(p)
    if not out:
        return ('empty',)
    if len(out) == 1:
        return out[0]
    return ('ounion', tuple(out))


def show_order(t: tuple) -> str:
    h = t[0]
    if h == 'empty':
        return '(no fields)'
    if h == 'fields':
        return f'fields of `{t[1]}` in its own order'
    if h == 'keys':
        return 'the field(s) ' + ', '.join(f'`{k}`' for k in t[1])
    if h == 'ounion':
        return ' then '.join(show_order(x) for x in t[1]) + ' (a name keeps its first position)'
    if h == 'filter':
        return f'{show_order(t[1])}, keeping those {"not " if t[2][0] == "notin" else ""}in `{t[2][1]}`'
    if h == 'iter':
        return f'one field per element of `{t[1]}`, in the order of `{t[1]}`'
    if h == 'maporder':
        return f'{show_order(t[1])}, each renamed through `{t[2]}`'
    return str(t)


class StructOrder:
    """Symbolic reader of the tstruct helper definitions (order terms, see above)."""

    def __init__(self) -> None:
        m = pf.load(TYPES_PY)
        self.path = m.path
        self.cls = m.cls('tstruct')
        self.methods = {f.name: f for f in self.cls.body if isinstance(f, ast.FunctionDef)}
        self.depth = 0

    def fail(self, w: str, msg: str):
        raise AnalysisError(f'{TYPES_PY}::tstruct.{w}: {msg}')

    # values: ('self',)  ('param', n)  ('kwdict', n)  ('odict', order)  ('struct', order)  ('keyexpr', ...) for dict keys
    def result_order(self, name: str, bindings: Optional[Dict[str, Any]] = None) -> tuple:
        fn = self.methods.get(name)
        if fn is None:
            self.fail(name, 'method not found')
        self.depth += 1
        if self.depth > 5:
            self.fail(name, 'helpers call each other too deeply')
        try:
            a = fn.args  # type: ignore[union-attr]
            if a.vararg or a.posonlyargs or a.kwonlyargs or fn.decorator_list:  # type: ignore[union-attr]
                self.fail(name, 'unrecognised signature')
            params = [x.arg for x in a.args]
            env: Dict[str, Any] = {params[0]: ('self',)}
            for p in params[1:]:
                env[p] = (bindings or {}).get(p, ('param', p))
            if a.kwarg is not None:
                env[a.kwarg.arg] = (bindings or {}).get('**', ('odict', ('fields', a.kwarg.arg)))
            r = self.block(fn.body, env, name)  # type: ignore[union-attr]
            if r is None or r[0] != 'struct':
                self.fail(name, 'does not return a struct built by tstruct(**...)')
            return r[1]
        finally:
            self.depth -= 1

    def block(self, stmts: Sequence[ast.stmt], env: Dict[str, Any], w: str) -> Optional[tuple]:
        for st in stmts:
            if isinstance(st, ast.Expr):
                v = st.value
                if isinstance(v, ast.Constant):
                    continue
                # d.update(X)
                if (isinstance(v, ast.Call) and isinstance(v.func, ast.Attribute) and v.func.attr == 'update' and isinstance(v.func.value, ast.Name)
                        and len(v.args) == 1 and not v.keywords):
                    d = env.get(v.func.value.id)
                    x = self.ev(v.args[0], env, w)
                    if d is None or d[0] != 'odict' or x[0] != 'odict':
                        self.fail(w, f'unrecognised update `{pf.nsrc(v)[:60]}`')
                    env[v.func.value.id] = ('odict', _o_union(d[1], x[1]))
                    continue
                self.fail(w, f'unrecognised statement `{pf.nsrc(st)[:60]}`')
            elif isinstance(st, ast.Assign) and len(st.targets) == 1 and isinstance(st.targets[0], ast.Name):
                env[st.targets[0].id] = self.ev(st.value, env, w)
            elif isinstance(st, ast.Assign) and len(st.targets) == 1 and isinstance(st.targets[0], ast.Subscript) and isinstance(st.targets[0].value, ast.Name):
                # d[k] = v  outside a loop: one more key
                t = st.targets[0]
                d = env.get(t.value.id)  # type: ignore[attr-defined]
                if d is None or d[0] != 'odict':
                    self.fail(w, f'unrecognised store `{pf.nsrc(st)[:60]}`')
                env[t.value.id] = ('odict', _o_union(d[1], ('keys', (pf.nsrc(t.slice),))))  # type: ignore[attr-defined]
            elif isinstance(st, ast.For):
                self.loop(st, env, w)
            elif isinstance(st, ast.Return):
                if st.value is None:
                    self.fail(w, 'bare return')
                return self.ev(st.value, env, w)
            elif isinstance(st, (ast.Pass, ast.Assert)):
                continue
            else:
                self.fail(w, f'unrecognised statement {type(st).__name__}')
        return None

    def source_order(self, it: ast.AST, env: Dict[str, Any], w: str) -> Tuple[tuple, str]:
        """Order term and iteration mode ('items' -> (name, type) pairs, 'names' -> names) of an iterated expression."""
        if isinstance(it, ast.Call) and isinstance(it.func, ast.Attribute) and it.func.attr == 'items' and not it.args and not it.keywords:
            v = self.ev(it.func.value, env, w)
            mode = 'items'
        else:
            v = self.ev(it, env, w)
            mode = 'names'
        if v == ('self',):
            return ('fields', 'self'), mode
        if v[0] == 'odict':
            return v[1], mode
        if v[0] == 'param':
            # a parameter used as a mapping (.items()) contributes its own fields; iterated directly it is a GIVEN list of names
            return (('fields', v[1]) if mode == 'items' else ('iter', v[1])), mode
        self.fail(w, f'unrecognised iteration source `{pf.nsrc(it)[:50]}`')
        return ('empty',), mode

    def membership(self, test: ast.AST, var: str, env: Dict[str, Any], w: str) -> tuple:
        if isinstance(test, ast.Compare) and len(test.ops) == 1 and isinstance(test.left, ast.Name) and test.left.id == var:
            c = test.comparators[0]
            if isinstance(c, ast.Call) and pf.dotted(c.func) in ('set', 'frozenset', 'list', 'tuple') and len(c.args) == 1:
                c = c.args[0]
            if isinstance(c, ast.Name) and env.get(c.id, ('?',))[0] == 'param':
                if isinstance(test.ops[0], ast.NotIn):
                    return ('notin', c.id)
                if isinstance(test.ops[0], ast.In):
                    return ('in', c.id)
        self.fail(w, f'unrecognised filter `{pf.nsrc(test)[:50]}`')
        return ('?',)

    def key_order(self, key: ast.AST, var: str, src: tuple, env: Dict[str, Any], w: str, local: Optional[Dict[str, ast.AST]] = None) -> tuple:
        """Order of the keys produced by inserting `key` for every element of src (whose name is bound to `var`)."""
        if isinstance(key, ast.Name) and local and key.id in local:
            key = local[key.id]
        if isinstance(key, ast.Name) and key.id == var:
            return src
        if (isinstance(key, ast.Call) and isinstance(key.func, ast.Attribute) and key.func.attr == 'get' and isinstance(key.func.value, ast.Name)
                and len(key.args) == 2 and all(isinstance(x, ast.Name) and x.id == var for x in key.args)
                and env.get(key.func.value.id, ('?',))[0] == 'param'):
            return ('maporder', src, key.func.value.id)
        self.fail(w, f'unrecognised key expression `{pf.nsrc(key)[:50]}`')
        return ('empty',)

    def loop(self, st: ast.For, env: Dict[str, Any], w: str) -> None:
        src, mode = self.source_order(st.iter, env, w)
        tgt = st.target
        if mode == 'items' and isinstance(tgt, ast.Tuple) and len(tgt.elts) == 2 and all(isinstance(x, ast.Name) for x in tgt.elts):
            var = tgt.elts[0].id  # type: ignore[attr-defined]
        elif mode == 'names' and isinstance(tgt, ast.Name):
            var = tgt.id
        else:
            self.fail(w, 'unrecognised loop target')
        if st.orelse:
            self.fail(w, 'for/else')
        local: Dict[str, ast.AST] = {}

        def body(stmts: Sequence[ast.stmt], cur: tuple) -> tuple:
            for s in stmts:
                if isinstance(s, ast.Assign) and len(s.targets) == 1 and isinstance(s.targets[0], ast.Name):
                    local[s.targets[0].id] = s.value
                elif isinstance(s, ast.Assign) and len(s.targets) == 1 and isinstance(s.targets[0], ast.Subscript) and isinstance(s.targets[0].value, ast.Name):
                    dname = s.targets[0].value.id  # type: ignore[attr-defined]
                    d = env.get(dname)
                    if d is None or d[0] != 'odict':
                        self.fail(w, f'unrecognised store `{pf.nsrc(s)[:60]}`')
                    env[dname] = ('odict', _o_union(d[1], self.key_order(s.targets[0].slice, var, cur, env, w, local)))  # type: ignore[index]
                elif isinstance(s, ast.If):
                    raises_t = any(isinstance(x, ast.Raise) for x in s.body)
                    raises_f = any(isinstance(x, ast.Raise) for x in s.orelse)
                    if raises_t and not raises_f:
                        body(s.orelse, cur)       # the other branch only rejects the input
                    elif raises_f and not raises_t:
                        body(s.body, cur)
                    elif not s.orelse and not raises_t:
                        # `if <membership>: d[k] = v`  = a filtered insertion
                        body(s.body, ('filter', cur, self.membership(s.test, var, env, w)))
                    else:
                        self.fail(w, 'unrecognised conditional in a loop')
                elif isinstance(s, (ast.Pass, ast.Assert)) or (isinstance(s, ast.Expr) and isinstance(s.value, ast.Constant)):
                    continue
                elif isinstance(s, ast.Raise):
                    continue
                else:
                    self.fail(w, f'unrecognised loop statement `{pf.nsrc(s)[:60]}`')
            return cur
        body(st.body, src)

    def ev(self, e: ast.AST, env: Dict[str, Any], w: str) -> tuple:
        if isinstance(e, ast.Name):
            if e.id in env:
                return env[e.id]
            self.fail(w, f'unbound name {e.id}')
        if isinstance(e, ast.Dict):
            if not e.keys:
                return ('odict', ('empty',))
            parts: List[tuple] = []
            for k, v in zip(e.keys, e.values):
                if k is None:
                    x = self.ev(v, env, w)
                    if x[0] != 'odict':
                        self.fail(w, 'unrecognised ** in a dict display')
                    parts.append(x[1])
                else:
                    parts.append(('keys', (pf.nsrc(k),)))
            return ('odict', _o_union(*parts))
        if isinstance(e, ast.Call) and pf.dotted(e.func) == 'dict' and not e.args and not e.keywords:
            return ('odict', ('empty',))
        if isinstance(e, ast.Attribute) and e.attr == '_field_types':
            b = self.ev(e.value, env, w)
            if b == ('self',):
                return ('odict', ('fields', 'self'))
            if b[0] == 'param':
                return ('odict', ('fields', b[1]))
            self.fail(w, f'unrecognised `{pf.nsrc(e)}`')
        if isinstance(e, ast.DictComp):
            if len(e.generators) != 1:
                self.fail(w, 'nested comprehension')
            g = e.generators[0]
            src, mode = self.source_order(g.iter, env, w)
            if mode == 'items' and isinstance(g.target, ast.Tuple) and len(g.target.elts) == 2 and all(isinstance(x, ast.Name) for x in g.target.elts):
                var = g.target.elts[0].id  # type: ignore[attr-defined]
            elif mode == 'names' and isinstance(g.target, ast.Name):
                var = g.target.id
            else:
                self.fail(w, 'unrecognised comprehension target')
            for c in g.ifs:
                src = ('filter', src, self.membership(c, var, env, w))
            return ('odict', self.key_order(e.key, var, src, env, w))
        if isinstance(e, ast.Call):
            d = pf.dotted(e.func)
            if d in ('tstruct', 'hl.tstruct'):
                if e.args or len(e.keywords) != 1 or e.keywords[0].arg is not None:
                    self.fail(w, f'unrecognised struct construction `{pf.nsrc(e)[:60]}`')
                x = self.ev(e.keywords[0].value, env, w)
                if x[0] != 'odict':
                    self.fail(w, 'tstruct(**x) of something that is not a recognised dict')
                return ('struct', x[1])
            # self.helper(...)
            if isinstance(e.func, ast.Attribute) and isinstance(e.func.value, ast.Name) and env.get(e.func.value.id) == ('self',) and e.func.attr in self.methods:
                fn = self.methods[e.func.attr]
                params = [x.arg for x in fn.args.args[1:]]
                b: Dict[str, Any] = {}
                if len(e.args) > len(params):
                    self.fail(w, 'too many arguments to a helper')
                for p_, a_ in zip(params, e.args):
                    b[p_] = self.ev(a_, env, w) if isinstance(a_, (ast.Name, ast.Dict)) else ('param', pf.nsrc(a_))
                for k in e.keywords:
                    if k.arg is None:
                        x = self.ev(k.value, env, w)
                        if x[0] != 'odict':
                            self.fail(w, 'unrecognised ** argument')
                        b['**'] = x
                    else:
                        b[k.arg] = self.ev(k.value, env, w) if isinstance(k.value, (ast.Name, ast.Dict)) else ('param', pf.nsrc(k.value))
                return ('struct', self.result_order(e.func.attr, b))
        self.fail(w, f'unrecognised expression `{pf.nsrc(e)[:60]}`')
        return ('?',)


def struct_primitive_checks() -> List[Tuple[str, bool, str]]:
    """(primitive, holds, detail): the order term read from each helper's syntax tree vs the term the algebra assumes."""
    so = StructOrder()
    out: List[Tuple[str, bool, str]] = []

    def params(name: str) -> List[str]:
        fn = so.methods.get(name)
        if fn is None:
            raise AnalysisError(f'{TYPES_PY}::tstruct.{name}: method not found')
        return [a.arg for a in fn.args.args[1:]] + ([fn.args.kwarg.arg] if fn.args.kwarg else [])

    def expect(name: str, want: tuple, engine: str) -> None:
        got = so.result_order(name)
        out.append((name, got == want, f'the struct it returns has: {show_order(got)}; the typing rules and the engine ({engine}) assume: {show_order(want)}'))

    p = params('_concat')
    if len(p) != 1:
        raise AnalysisError(f'{TYPES_PY}::tstruct._concat: unexpected signature')
    expect('_concat', _o_union(('fields', 'self'), ('fields', p[0])), 'TStruct.++')
    p = params('_insert_fields')
    if len(p) != 1:
        raise AnalysisError(f'{TYPES_PY}::tstruct._insert_fields: unexpected signature')
    expect('_insert_fields', _o_union(('fields', 'self'), ('fields', p[0])), 'insertFields: existing names keep their position, new names are appended')
    p = params('_insert_field')
    if len(p) != 2:
        raise AnalysisError(f'{TYPES_PY}::tstruct._insert_field: unexpected signature')
    expect('_insert_field', _o_union(('fields', 'self'), ('keys', (p[0],))), 'appendKey / structInsert')
    p = params('_drop_fields')
    if len(p) != 1:
        raise AnalysisError(f'{TYPES_PY}::tstruct._drop_fields: unexpected signature')
    expect('_drop_fields', ('filter', ('fields', 'self'), ('notin', p[0])), 'filterSet(include = false): struct order')
    p = params('_select_fields')
    if len(p) != 1:
        raise AnalysisError(f'{TYPES_PY}::tstruct._select_fields: unexpected signature')
    expect('_select_fields', ('iter', p[0]), 'typeAfterSelect(key.map(fieldIdx)): KEY order, not struct order')
    p = params('_rename')
    if len(p) != 1:
        raise AnalysisError(f'{TYPES_PY}::tstruct._rename: unexpected signature')
    expect('_rename', ('maporder', ('fields', 'self'), p[0]), 'TStruct.rename: struct order')
    return out


# ======================================================================================================================
# Part 3: STATIC INDEX DOMAIN  (C36 R11)
# ======================================================================================================================
#
# Some IR nodes carry a *python int* (not an IR child) that selects a component of a child's type: GetTupleElement(o, idx) is typed
# by the front end as `o.typ.types[idx]` - subscription of a python tuple, defined on [-n, n) with wrap-around for negative idx -
# while the engine types it as `t.fields(t.fieldIndex(idx))`, a lookup in the map of DECLARED field indices (0..n-1 for every
# tuple type the front end can denote).  On [0, n) both agree; on [-n, 0) the front end reports the type of element n+idx and the
# engine has no type at all.  So every emission site of such a node must be reached only with idx >= 0 (idx >= n makes python's own
# subscription raise: nothing is sent).  Decided per site by a path-sensitive lower-bound analysis of the index expression over
# linear forms in the symbols len(...) >= 0: guards (`if not 0 <= i < len(x): raise`), normalisation (`if i < 0: i += len(x)`),
# range()/enumerate() loop variables, constants, the node's own attribute (rebuild in copy).  No code is evaluated on sample values;
# a concrete index is printed only as the witness of an established violation.

TYPE_INFER_SCALA = 'hail/hail/src/is/hail/expr/ir/InferType.scala'
TYPECHECK_SCALA = 'hail/hail/src/is/hail/expr/ir/TypeCheck.scala'
TTUPLE_SCALA = 'hail/hail/src/is/hail/types/virtual/TTuple.scala'


_arm_cache: Dict[Tuple[str, int], List[Tuple[str, int, int]]] = {}


def scala_match_arm(rel: str, ctor: str) -> Tuple[sl.ScalaSource, Optional[Tuple[str, int, int]]]:
    """The first `case [x @] ctor(...) =>` arm of a Scala file, wherever its `match` block is: (pattern, body lo, body hi) or None."""
    S = sl.load(rel)
    for m in re.finditer(r'\bcase\s+(?:\w+\s*@\s*)?' + re.escape(ctor) + r'\s*\(', S.code):
        # enclosing block: the nearest unmatched `{` to the left
        depth = 0
        b = m.start() - 1
        while b >= 0:
            c = S.code[b]
            if c in ')]}':
                depth += 1
            elif c in '([{':
                if depth == 0:
                    break
                depth -= 1
            b -= 1
        if b < 0 or S.code[b] != '{':
            continue
        key = (rel, b)
        if key not in _arm_cache:
            _arm_cache[key] = S.case_arms(b + 1, S.match_bracket(b))
        for pat, blo, bhi in _arm_cache[key]:
            head = pat.split('(')[0].strip()
            if '@' in head:
                head = head.split('@')[-1].strip()
            if head == ctor:
                return S, (pat, blo, bhi)
    return S, None


def _arm_items(S: sl.ScalaSource, arm: Tuple[str, int, int], where: str) -> List[tuple]:
    _, lo, hi = arm
    p = ScalaParser(sc_tokenize(S.nocomment[lo:hi], lo, where), where)
    items = p.block_items()
    return items


def _pattern_vars(pat: str) -> List[str]:
    inner = pat[pat.index('(') + 1:pat.rindex(')')]
    return [x.strip() for x in inner.split(',')]


def _sc_walk(t: Any) -> Iterable[tuple]:
    if isinstance(t, tuple):
        yield t
        for x in t:
            yield from _sc_walk(x)
    elif isinstance(t, list):
        for x in t:
            yield from _sc_walk(x)


class IndexedNode:
    def __init__(self, cls: ic.Cls, param: str, pos: int, py_rule: str, engine_rule: str):
        self.cls = cls
        self.param = param
        self.pos = pos
        self.py_rule = py_rule
        self.engine_rule = engine_rule


def _ttuple_types_is_python_tuple() -> None:
    """ttuple.types returns the tuple of the constructor's *varargs: python subscription semantics (negative indices wrap around)."""
    m = pf.load(TYPES_PY)
    c = m.cls('ttuple')
    fns = {f.name: f for f in c.body if isinstance(f, ast.FunctionDef)}
    init, prop = fns.get('__init__'), fns.get('types')
    ok = False
    if init is not None and prop is not None and init.args.vararg is not None:
        rets = [s.value for s in pf.walk_shallow(prop) if isinstance(s, ast.Return)]
        if len(rets) == 1 and ic._self_attr(rets[0]):
            attr = ic._self_attr(rets[0])
            for st in pf.walk_shallow(init):
                if isinstance(st, ast.Assign) and len(st.targets) == 1 and ic._self_attr(st.targets[0]) == attr:
                    v = st.value
                    if isinstance(v, ast.Call) and pf.dotted(v.func) in ('tuple', 'list') and len(v.args) == 1:
                        v = v.args[0]
                    ok = isinstance(v, ast.Name) and v.id == init.args.vararg.arg
    if not ok:
        raise AnalysisError(f'{TYPES_PY}::ttuple.types: no longer the tuple of the constructor varargs (python sequence semantics not established)')


def indexed_nodes(table: ic.Table) -> List[IndexedNode]:
    """IR classes whose python typing rule subscripts `<child>.typ.types` with an int constructor parameter, paired with the
    engine rule read from InferType.scala (must look the same parameter up in the declared-index map / positional field list)."""
    out: List[IndexedNode] = []
    for cls in table.ir_classes():
        if '_compute_type' not in cls.methods:
            continue
        fn = cls.methods['_compute_type']
        r = cls.resolve('__init__')
        if r is None:
            continue
        init = r[1]
        params = [a.arg for a in init.args.args[1:]]
        declared_int = set()
        for dec in init.decorator_list:
            if isinstance(dec, ast.Call) and pf.dotted(dec.func) == 'typecheck_method':
                for kw in dec.keywords:
                    if kw.arg and isinstance(kw.value, ast.Name) and kw.value.id == 'int':
                        declared_int.add(kw.arg)
        a2p = _ctor_attr_map(cls)
        for n in ast.walk(fn):
            if not (isinstance(n, ast.Subscript) and not isinstance(n.slice, ast.Slice)):
                continue
            attr = ic._self_attr(n.slice)
            if attr is None or a2p.get(attr, attr) not in declared_int:
                continue
            prm = a2p.get(attr, attr)
            base = n.value
            if not (isinstance(base, ast.Attribute) and base.attr == 'types'):
                raise AnalysisError(f'{cls.key("_compute_type")}: `{pf.nsrc(n)}` subscripts an unrecognised sequence with the int parameter `{prm}`')
            _ttuple_types_is_python_tuple()
            S, arm = scala_match_arm(TYPE_INFER_SCALA, cls.name)
            if arm is None:
                raise AnalysisError(f'{TYPE_INFER_SCALA}: no typing rule for {cls.name}')
            pvars = _pattern_vars(arm[0])
            pos = params.index(prm)
            if pos >= len(pvars) or not pvars[pos].isidentifier():
                raise AnalysisError(f'{TYPE_INFER_SCALA}: `case {arm[0]}` does not bind parameter #{pos} ({prm})')
            v = pvars[pos]
            items = _arm_items(S, arm, f'{TYPE_INFER_SCALA}::{cls.name}')
            how = None
            for t in _sc_walk(items):
                if t[0] == 'call' and isinstance(t[1], tuple) and t[1][0] == 'sel' and t[1][2] in ('fieldIndex', 'fields', 'types') and len(t[2]) == 1 and t[2][0][1] == ('id', v):
                    how = t[1][2]
                    break
            if how is None:
                raise AnalysisError(f'{TYPE_INFER_SCALA}: `case {arm[0]}`: the engine rule does not look `{v}` up in fieldIndex / fields / types - unrecognised')
            eng = ('a lookup of the index in TTuple.fieldIndex, the map of declared field indices (0..n-1)' if how == 'fieldIndex'
                   else f'positional `{how}({v})` (IndexedSeq.apply: defined on 0..n-1 only)')
            out.append(IndexedNode(cls, prm, pos, pf.nsrc(n), eng))
    return out


# ---- linear lower/upper bounds over symbols len(..) >= 0 -----------------------------------------------------------------------

class LinB:
    """c + sum k_s * s over symbols s (normalised source of a len(...) expression, value >= 0) ; `free` symbols have unknown sign."""

    def __init__(self, c: int = 0, coef: Optional[Dict[str, int]] = None):
        self.c = c
        self.coef = {k: v for k, v in (coef or {}).items() if v}

    def add(self, o: 'LinB', k: int = 1) -> 'LinB':
        d = dict(self.coef)
        for s, v in o.coef.items():
            d[s] = d.get(s, 0) + k * v
        return LinB(self.c + k * o.c, d)

    def key(self) -> tuple:
        return (self.c, tuple(sorted(self.coef.items())))

    def nonneg(self) -> bool:
        """>= 0 for every valuation of the (non-negative) symbols."""
        return self.c >= 0 and all(v >= 0 and s.startswith('len(') for s, v in self.coef.items())

    def show(self) -> str:
        parts = []
        for s, v in sorted(self.coef.items()):
            parts.append(('-' if v < 0 else '+') + ('' if abs(v) == 1 else f'{abs(v)}*') + s)
        if self.c or not parts:
            parts.append(('-' if self.c < 0 else '+') + str(abs(self.c)))
        txt = ' '.join(parts)
        return txt[1:].strip() if txt.startswith('+') else txt


class IdxState:
    def __init__(self) -> None:
        self.lows: Dict[str, List[LinB]] = {}
        self.highs: Dict[str, List[LinB]] = {}
        self.unknown: Dict[str, str] = {}
        self.nonint: Set[str] = set()
        self.guards: List[str] = []

    def copy(self) -> 'IdxState':
        s = IdxState()
        s.lows = {k: list(v) for k, v in self.lows.items()}
        s.highs = {k: list(v) for k, v in self.highs.items()}
        s.unknown = dict(self.unknown)
        s.nonint = set(self.nonint)
        s.guards = list(self.guards)
        return s

    def key(self) -> tuple:
        return (tuple(sorted((k, tuple(sorted(x.key() for x in v))) for k, v in self.lows.items())),
                tuple(sorted((k, tuple(sorted(x.key() for x in v))) for k, v in self.highs.items())),
                tuple(sorted(self.unknown.items())), tuple(sorted(self.nonint)))


class IdxVerdict:
    def __init__(self, status: str, detail: str):
        self.status = status  # ok | bad | und
        self.detail = detail


class IdxProof:
    """Is `expr` (the index argument of `call`) >= 0 whenever `call` is evaluated inside `fn`?"""

    MAX_STATES = 64

    def __init__(self, mod: pf.Module, fn: Optional[pf.FuncDef], call: ast.Call, expr: ast.AST, depth: int = 0):
        self.mod = mod
        self.fn = fn
        self.call = call
        self.expr = expr
        self.depth = depth
        self.par = mod.parents()
        self.verdicts: List[IdxVerdict] = []
        self.tracked: Set[str] = set()

    # -- expressions ----------------------------------------------------------------------------------------------------
    def lin(self, e: ast.AST, st: IdxState, bound: Dict[str, Tuple[Optional[LinB], Optional[LinB]]]) -> Optional[Tuple[LinB, Dict[str, int]]]:
        """e as (constant part over len-symbols, coefficients of program variables); None when not linear."""
        if isinstance(e, ast.Constant) and isinstance(e.value, int) and not isinstance(e.value, bool):
            return LinB(e.value), {}
        if isinstance(e, ast.Call) and pf.dotted(e.func) in ('len', 'builtins.len') and len(e.args) == 1 and not e.keywords:
            return LinB(0, {f'len({pf.nsrc(e.args[0])})': 1}), {}
        if isinstance(e, ast.Name):
            return LinB(0), {e.id: 1}
        if isinstance(e, ast.UnaryOp) and isinstance(e.op, (ast.USub, ast.UAdd)):
            r = self.lin(e.operand, st, bound)
            if r is None:
                return None
            k = -1 if isinstance(e.op, ast.USub) else 1
            return LinB().add(r[0], k), {v: k * c for v, c in r[1].items()}
        if isinstance(e, ast.BinOp) and isinstance(e.op, (ast.Add, ast.Sub)):
            a, b = self.lin(e.left, st, bound), self.lin(e.right, st, bound)
            if a is None or b is None:
                return None
            k = 1 if isinstance(e.op, ast.Add) else -1
            d = dict(a[1])
            for v, c in b[1].items():
                d[v] = d.get(v, 0) + k * c
            return a[0].add(b[0], k), {v: c for v, c in d.items() if c}
        return None

    # -- tests ----------------------------------------------------------------------------------------------------------
    def mentions(self, e: ast.AST) -> bool:
        return bool(pf.names_in(e) & self.tracked)

    def constrain(self, st: IdxState, atom: ast.AST, pol: bool) -> None:
        """Record what `atom == pol` says about the tracked variables (or mark them unknown)."""
        if not self.mentions(atom):
            return
        if isinstance(atom, ast.Call) and pf.dotted(atom.func) == 'isinstance' and len(atom.args) == 2 and isinstance(atom.args[0], ast.Name):
            v = atom.args[0].id
            kinds = {n.id for n in ast.walk(atom.args[1]) if isinstance(n, ast.Name)}
            if pol and 'int' not in kinds:
                st.nonint.add(v)
            return
        if isinstance(atom, ast.Compare) and len(atom.ops) == 1 and isinstance(atom.ops[0], (ast.Is, ast.IsNot)):
            return  # `x is None`: not a statement about an integer value
        if isinstance(atom, ast.Compare) and len(atom.ops) == 1 and isinstance(atom.ops[0], (ast.Lt, ast.LtE, ast.Gt, ast.GtE, ast.Eq, ast.NotEq)):
            a, b = self.lin(atom.left, st, {}), self.lin(atom.comparators[0], st, {})
            op = type(atom.ops[0])
            if not pol:
                op = {ast.Lt: ast.GtE, ast.LtE: ast.Gt, ast.Gt: ast.LtE, ast.GtE: ast.Lt, ast.Eq: ast.NotEq, ast.NotEq: ast.Eq}[op]
            if a is not None and b is not None:
                # a - b  (op) 0 ; isolate a single tracked variable with coefficient +-1
                d = dict(a[1])
                for v, c in b[1].items():
                    d[v] = d.get(v, 0) - c
                d = {v: c for v, c in d.items() if c}
                const = a[0].add(b[0], -1)
                tv = [v for v in d if v in self.tracked]
                others = [v for v in d if v not in self.tracked]
                if len(tv) == 1 and abs(d[tv[0]]) == 1:
                    v = tv[0]
                    k = d[v]
                    rest = const
                    for o in others:
                        rest = rest.add(LinB(0, {f'var({o})': d[o]}))
                    # k*v + rest (op) 0
                    if op is ast.NotEq:
                        return
                    if k == -1:
                        # -v + rest op 0  <=>  v (flip op) rest
                        op = {ast.Lt: ast.Gt, ast.LtE: ast.GtE, ast.Gt: ast.Lt, ast.GtE: ast.LtE, ast.Eq: ast.Eq}[op]
                        bound_ = rest
                    else:
                        bound_ = LinB().add(rest, -1)
                    # now: v op bound_
                    if op in (ast.GtE, ast.Eq):
                        st.lows.setdefault(v, []).append(bound_)
                    if op is ast.Gt:
                        st.lows.setdefault(v, []).append(bound_.add(LinB(1)))
                    if op in (ast.LtE, ast.Eq):
                        st.highs.setdefault(v, []).append(bound_)
                    if op is ast.Lt:
                        st.highs.setdefault(v, []).append(bound_.add(LinB(-1)))
                    st.guards.append(('' if pol else 'not ') + pf.nsrc(atom))
                    return
        for v in pf.names_in(atom) & self.tracked:
            st.unknown.setdefault(v, f'unrecognised test `{pf.nsrc(atom)}`')

    def dnf(self, test: ast.AST, pol: bool) -> List[List[Tuple[ast.AST, bool]]]:
        if isinstance(test, ast.UnaryOp) and isinstance(test.op, ast.Not):
            return self.dnf(test.operand, not pol)
        if isinstance(test, ast.Compare) and len(test.ops) > 1:
            parts = ic.split_compare(test)
            test = ast.BoolOp(op=ast.And(), values=parts)
        if isinstance(test, ast.BoolOp):
            conj = isinstance(test.op, ast.And) == pol
            if conj:
                acc: List[List[Tuple[ast.AST, bool]]] = [[]]
                for v in test.values:
                    alts = self.dnf(v, pol)
                    acc = [x + y for x in acc for y in alts]
                return acc
            out: List[List[Tuple[ast.AST, bool]]] = []
            prefix: List[Tuple[ast.AST, bool]] = []
            for v in test.values:
                for alt in self.dnf(v, pol):
                    out.append(prefix + alt)
                # later alternatives assume this one failed (keeps the paths disjoint); only simple atoms are negated
                neg = self.dnf(v, not pol)
                if len(neg) == 1:
                    prefix = prefix + neg[0]
            return out
        return [[(test, pol)]]

    def branch(self, st: IdxState, test: ast.AST, pol: bool) -> List[IdxState]:
        if not self.mentions(test):
            return [st.copy()]
        out = []
        for conj in self.dnf(test, pol):
            s = st.copy()
            for atom, p in conj:
                self.constrain(s, atom, p)
            if self.feasible(s):
                out.append(s)
        return out

    def feasible(self, st: IdxState) -> bool:
        """Drop states whose bounds on a variable are contradictory for every value of the symbols (lo > hi with lo - hi a positive constant)."""
        for v, lows in st.lows.items():
            for lo in lows:
                for hi in st.highs.get(v, []):
                    d = hi.add(lo, -1)
                    if not d.coef and d.c < 0:
                        return False
                    if d.c < 0 and all(k <= 0 and s.startswith('len(') for s, k in d.coef.items()):
                        return False
        return True

    # -- statements -----------------------------------------------------------------------------------------------------
    def contains(self, node: ast.AST) -> bool:
        return any(n is self.call for n in ast.walk(node))

    def assigns_tracked(self, node: ast.AST) -> bool:
        for n in ast.walk(node):
            if isinstance(n, ast.Name) and isinstance(n.ctx, (ast.Store, ast.Del)) and n.id in self.tracked:
                return True
        return False

    def assign(self, st: IdxState, name: str, value: ast.AST, aug: Optional[ast.operator] = None) -> None:
        if aug is not None:
            value = ast.BinOp(left=ast.Name(id=name, ctx=ast.Load()), op=aug, right=value)
        # v % len(x): in [0, len-1] (raises when len == 0)
        if isinstance(value, ast.BinOp) and isinstance(value.op, ast.Mod):
            r = self.lin(value.right, st, {})
            if r is not None and not r[1] and r[0].nonneg():
                st.lows[name] = [LinB(0)]
                st.highs[name] = [r[0].add(LinB(-1))]
                st.unknown.pop(name, None)
                return
        if isinstance(value, ast.Call) and pf.dotted(value.func) in ('abs', 'builtins.abs') and len(value.args) == 1:
            st.lows[name] = [LinB(0)]
            st.highs[name] = []
            st.unknown.pop(name, None)
            return
        if isinstance(value, ast.Call) and pf.dotted(value.func) in ('max', 'builtins.max') and len(value.args) == 2 and not value.keywords:
            ls = [self.lin(a, st, {}) for a in value.args]
            consts = [x[0] for x in ls if x is not None and not x[1]]
            if consts:
                st.lows[name] = consts
                st.highs[name] = []
                st.unknown.pop(name, None)
                return
        r = self.lin(value, st, {})
        if r is not None:
            base, vs = r
            if not vs:
                st.lows[name] = [base]
                st.highs[name] = [base]
                st.unknown.pop(name, None)
                return
            if set(vs) == {name} and vs[name] == 1:
                st.lows[name] = [x.add(base) for x in st.lows.get(name, [])]
                st.highs[name] = [x.add(base) for x in st.highs.get(name, [])]
                return
            if len(vs) == 1 and list(vs.values())[0] == 1 and list(vs)[0] in self.tracked:
                o = list(vs)[0]
                st.lows[name] = [x.add(base) for x in st.lows.get(o, [])]
                st.highs[name] = [x.add(base) for x in st.highs.get(o, [])]
                if o in st.unknown:
                    st.unknown[name] = st.unknown[o]
                else:
                    st.unknown.pop(name, None)
                return
        st.lows[name] = []
        st.highs[name] = []
        st.unknown[name] = f're-assigned from `{pf.nsrc(value)}`'

    def loop_var_bounds(self, target: ast.AST, it: ast.AST, st: IdxState) -> Dict[str, Tuple[Optional[List[LinB]], Optional[str]]]:
        """Bounds of integer loop / comprehension variables: name -> (lower bounds | None, reason when unknown)."""
        out: Dict[str, Tuple[Optional[List[LinB]], Optional[str]]] = {}
        names = [n.id for n in ast.walk(target) if isinstance(n, ast.Name)]
        d = pf.dotted(it.func) if isinstance(it, ast.Call) else None
        if isinstance(it, ast.Subscript) and isinstance(it.slice, ast.Slice) and isinstance(it.value, ast.Call) and pf.dotted(it.value.func) in ('range', 'builtins.range'):
            # a slice of range(...) only contains members of that range
            return self.loop_var_bounds(target, it.value, st)
        if d in ('range', 'builtins.range') and isinstance(target, ast.Name) and not it.keywords and 1 <= len(it.args) <= 3:
            if len(it.args) == 1:
                out[target.id] = ([LinB(0)], None)
                return out
            lo = self.lin(it.args[0], st, {})
            step_ok = len(it.args) == 2 or (isinstance(it.args[2], ast.Constant) and isinstance(it.args[2].value, int) and it.args[2].value > 0)
            if lo is not None and not lo[1] and step_ok:
                out[target.id] = ([lo[0]], None)
                return out
            if lo is not None and step_ok and len(lo[1]) == 1 and list(lo[1].values())[0] == 1 and list(lo[1])[0] in self.tracked:
                o = list(lo[1])[0]
                if o not in st.unknown:
                    out[target.id] = ([x.add(lo[0]) for x in st.lows.get(o, [])], None)
                    return out
            out[target.id] = (None, f'loop over `{pf.nsrc(it)}`')
            return out
        if d in ('enumerate', 'builtins.enumerate') and isinstance(target, ast.Tuple) and len(target.elts) == 2 and isinstance(target.elts[0], ast.Name):
            start = 0
            ok = True
            extra = list(it.args[1:]) + [k.value for k in it.keywords]
            if extra:
                ok = len(extra) == 1 and isinstance(extra[0], ast.Constant) and isinstance(extra[0].value, int)
                start = extra[0].value if ok else 0
            out[target.elts[0].id] = ([LinB(start)], None) if ok else (None, f'loop over `{pf.nsrc(it)}`')
            for n in names:
                out.setdefault(n, (None, f'element of `{pf.nsrc(it)}`'))
            return out
        for n in names:
            out[n] = (None, f'element of `{pf.nsrc(it)}`')
        return out

    def bind_loop(self, st: IdxState, target: ast.AST, it: ast.AST) -> None:
        for n, (lows, why) in self.loop_var_bounds(target, it, st).items():
            if n not in self.tracked:
                continue
            st.highs[n] = []
            if lows is None:
                st.lows[n] = []
                st.unknown[n] = why or 'loop variable'
            else:
                st.lows[n] = list(lows)
                st.unknown.pop(n, None)

    def block(self, stmts: Sequence[ast.stmt], states: List[IdxState]) -> List[IdxState]:
        for s in stmts:
            if not states:
                return []
            nxt: List[IdxState] = []
            for st in states:
                nxt += self.stmt(s, st)
            seen: Dict[tuple, IdxState] = {}
            for st in nxt:
                seen.setdefault(st.key(), st)
            states = list(seen.values())
            if len(states) > self.MAX_STATES:
                raise AnalysisError(f'{self.mod.rel}: too many paths while bounding `{pf.nsrc(self.expr)}`')
        return states

    def stmt(self, s: ast.stmt, st: IdxState) -> List[IdxState]:
        if isinstance(s, (ast.FunctionDef, ast.AsyncFunctionDef, ast.ClassDef)):
            if self.contains(s):
                # the emission is inside a nested function: evaluated with the bindings at definition time or later - parameters of
                # the nested function shadow; tracked outer variables keep the bounds established so far only if never re-assigned
                self.at_target(st, s)
            return [st]
        if isinstance(s, ast.If):
            if self.contains(s.test):
                self.at_target(st, s.test)
            if not (self.mentions(s.test) or self.contains(s) or self.assigns_tracked(s)):
                return [st]
            self.escapes(s.test, st)
            t = self.block(s.body, self.branch(st, s.test, True))
            f = self.block(s.orelse, self.branch(st, s.test, False))
            return t + f
        if isinstance(s, (ast.Return, ast.Raise)):
            if self.contains(s):
                self.at_target(st, s)
            return []
        if isinstance(s, (ast.Continue, ast.Break)):
            return []
        if isinstance(s, ast.Assert):
            if self.contains(s):
                self.at_target(st, s)
            return self.branch(st, s.test, True)
        if isinstance(s, (ast.For, ast.AsyncFor)):
            if self.contains(s.iter):
                self.at_target(st, s.iter)
            if not (self.contains(s) or self.assigns_tracked(s)):
                return [st]
            if self.assigns_tracked(s.target) or self.contains(s):
                body_st = st.copy()
                # variables re-assigned in the body may carry values of an earlier iteration
                for n in self.tracked:
                    if any(isinstance(x, ast.Name) and x.id == n and isinstance(x.ctx, ast.Store) for b in s.body for x in ast.walk(b)):
                        body_st.lows[n] = []
                        body_st.highs[n] = []
                        body_st.unknown[n] = 're-assigned inside a loop'
                self.bind_loop(body_st, s.target, s.iter)
                self.block(s.body, [body_st])
            after = st.copy()
            for n in self.tracked:
                if any(isinstance(x, ast.Name) and x.id == n and isinstance(x.ctx, ast.Store) for x in ast.walk(s)):
                    after.lows[n] = []
                    after.highs[n] = []
                    after.unknown[n] = 're-assigned inside a loop'
            return self.block(s.orelse, [after]) if s.orelse else [after]
        if isinstance(s, (ast.While, ast.Try, ast.With, ast.AsyncWith)) or (hasattr(ast, 'Match') and isinstance(s, ast.Match)):
            if self.contains(s) or self.assigns_tracked(s):
                if isinstance(s, (ast.With, ast.AsyncWith)) and not any(self.contains(i.context_expr) for i in s.items):
                    return self.block(s.body, [st])
                raise AnalysisError(f'{self.mod.rel}:{s.lineno}: the index `{pf.nsrc(self.expr)}` is used or assigned inside a {type(s).__name__} statement - not analysed')
            return [st]
        # simple statements
        if self.contains(s):
            self.at_target(st, s)
        self.escapes(s, st)
        if isinstance(s, ast.Assign) and len(s.targets) == 1 and isinstance(s.targets[0], ast.Name) and s.targets[0].id in self.tracked:
            self.assign(st, s.targets[0].id, s.value)
        elif isinstance(s, ast.AugAssign) and isinstance(s.target, ast.Name) and s.target.id in self.tracked:
            self.assign(st, s.target.id, s.value, s.op)
        elif isinstance(s, ast.AnnAssign) and isinstance(s.target, ast.Name) and s.target.id in self.tracked and s.value is not None:
            self.assign(st, s.target.id, s.value)
        elif self.assigns_tracked(s):
            for n in self.tracked:
                if any(isinstance(x, ast.Name) and x.id == n and isinstance(x.ctx, (ast.Store, ast.Del)) for x in ast.walk(s)):
                    st.lows[n] = []
                    st.highs[n] = []
                    st.unknown[n] = f'assigned by `{pf.nsrc(s)[:60]}`'
        return [st]

    PURE_CALLS = ('len', 'range', 'isinstance', 'int', 'str', 'repr', 'print', 'type', 'format', 'slice', 'enumerate', 'min', 'abs', 'max', 'list', 'tuple')

    def escapes(self, node: ast.AST, st: IdxState) -> None:
        """A tracked variable handed to a function we do not know may be validated (or rejected) there: its bounds are no longer
        'all there is' - the variable becomes undecidable rather than unguarded."""
        for c in pf.walk_shallow(node):
            if not isinstance(c, ast.Call) or c is self.call or any(n is self.call for n in ast.walk(c)):
                continue
            d = pf.dotted(c.func) or ''
            if d.split('.')[-1] in self.PURE_CALLS or (isinstance(c.func, ast.Attribute) and c.func.attr == 'format'):
                continue
            for a in list(c.args) + [k.value for k in c.keywords]:
                if isinstance(a, ast.Starred):
                    a = a.value
                if isinstance(a, ast.Name) and a.id in self.tracked:
                    st.unknown.setdefault(a.id, f'passed to `{pf.nsrc(c.func)}(...)`, which may validate it')

    # -- the obligation at the emission -----------------------------------------------------------------------------------
    def at_target(self, st0: IdxState, holder: ast.AST) -> None:
        st = st0.copy()
        # comprehension / lambda / nested-def binders between the holder statement and the call
        chain = []
        cur: Optional[ast.AST] = self.call
        while cur is not None and cur is not holder:
            chain.append(cur)
            cur = self.par.get(cur)
        for node in reversed(chain):
            if isinstance(node, (ast.ListComp, ast.SetComp, ast.GeneratorExp, ast.DictComp)):
                for g in node.generators:
                    if any(n is self.call for n in ast.walk(g.iter)):
                        break
                    self.bind_loop(st, g.target, g.iter)
                    for cond in g.ifs:
                        if not any(n is self.call for n in ast.walk(cond)):
                            for conj in self.dnf(cond, True)[:1] if len(self.dnf(cond, True)) == 1 else []:
                                for atom, p in conj:
                                    self.constrain(st, atom, p)
            elif isinstance(node, (ast.Lambda, ast.FunctionDef, ast.AsyncFunctionDef)):
                a = node.args
                for x in a.posonlyargs + a.args + a.kwonlyargs + ([a.vararg] if a.vararg else []) + ([a.kwarg] if a.kwarg else []):
                    if x.arg in self.tracked:
                        st.lows[x.arg] = []
                        st.highs[x.arg] = []
                        st.unknown[x.arg] = f'parameter of a nested function / lambda'
                if isinstance(node, (ast.FunctionDef, ast.AsyncFunctionDef)) and node is not holder:
                    for n in self.tracked:
                        if any(isinstance(x, ast.Name) and x.id == n and isinstance(x.ctx, ast.Store) for x in ast.walk(node)):
                            st.unknown[n] = 're-assigned inside a nested function'
        if isinstance(holder, (ast.FunctionDef, ast.AsyncFunctionDef)):
            for n in self.tracked:
                if any(isinstance(x, ast.Name) and x.id == n and isinstance(x.ctx, ast.Store) for x in ast.walk(holder)):
                    st.unknown[n] = 're-assigned inside a nested function'
                a = holder.args
                if any(x.arg == n for x in a.posonlyargs + a.args + a.kwonlyargs):
                    st.unknown[n] = 'parameter of a nested function'
        self.verdicts.append(self.decide(st))

    def decide(self, st: IdxState) -> IdxVerdict:
        r = self.lin(self.expr, st, {})
        if r is None:
            return IdxVerdict('und', f'the index `{pf.nsrc(self.expr)}` is not a linear expression')
        base, vs = r
        if not vs:
            if base.nonneg():
                return IdxVerdict('ok', f'{base.show()} >= 0')
            if not base.coef:
                return IdxVerdict('bad', f'the index is the negative constant {base.c}')
            return IdxVerdict('und', f'sign of `{base.show()}` not decided')
        for v in vs:
            if v in st.nonint:
                return IdxVerdict('ok', f'`{v}` is not an int on this path')
        # lower bound of the whole expression
        if all(c > 0 for c in vs.values()):
            choices: List[LinB] = [base]
            proven = True
            for v, c in vs.items():
                good = [lo for lo in st.lows.get(v, []) if True]
                best = None
                for lo in good:
                    cand = [x.add(lo, c) for x in choices]
                    if all(x.nonneg() for x in cand):
                        best = cand
                        break
                if best is None:
                    proven = False
                    break
                choices = best
            if proven:
                how = ', '.join(st.guards) if st.guards else 'loop / constant bounds'
                return IdxVerdict('ok', f'>= {choices[0].show()} ({how})')
        unk = [f'`{v}`: {st.unknown[v]}' for v in vs if v in st.unknown]
        if unk:
            return IdxVerdict('und', '; '.join(unk))
        # refutation: single variable, coefficient 1, every constraint on it recognised: is there a value with expr <= -1 ?
        if len(vs) == 1 and list(vs.values())[0] == 1:
            v = list(vs)[0]
            if v not in self.tracked:
                return IdxVerdict('und', f'`{v}` is not a parameter or local of the emitting function')
            lows = st.lows.get(v, [])
            highs = list(st.highs.get(v, [])) + [LinB(-1).add(base, -1)]     # v + base <= -1
            syms = set()
            for x in lows + highs:
                syms |= set(x.coef)
            if any(not s.startswith('len(') for s in syms) or len(syms) > 1:
                return IdxVerdict('und', f'bounds on `{v}` involve {sorted(syms)}')
            sym = next(iter(syms), None)
            # find the smallest value n >= 1 of the symbol for which  max(lows) <= min(highs)  (each pair is a half-line in n)
            lo_n, hi_n = 1, None
            for lo in lows:
                for hi in highs:
                    d = hi.add(lo, -1)      # must be >= 0
                    k = d.coef.get(sym, 0) if sym else 0
                    if k == 0:
                        if d.c < 0:
                            return IdxVerdict('ok', f'no negative value of `{v}` satisfies {", ".join(st.guards)}')
                    elif k > 0:
                        need = -(-(-d.c) // k) if d.c < 0 else 0      # ceil(-c / k)
                        lo_n = max(lo_n, need)
                    else:
                        lim = d.c // (-k)
                        hi_n = lim if hi_n is None else min(hi_n, lim)
            if hi_n is not None and hi_n < lo_n:
                return IdxVerdict('ok', f'no negative value of `{v}` satisfies {", ".join(st.guards)}')
            n = lo_n
            val = lambda x: x.c + (x.coef.get(sym, 0) * n if sym else 0)
            wit = min(val(h) for h in highs)
            guards = 'the only conditions on it: ' + ', '.join(st.guards) if st.guards else 'no guard on it'
            rng = ''
            if lows:
                rng = f'; `{v}` >= {" and >= ".join(x.show() for x in lows)} is all that is established'
            size = f' when {sym} = {n}' if sym else ''
            return IdxVerdict('bad', f'reached with `{v}` = {wit}{size} ({guards}{rng})')
        return IdxVerdict('und', f'no non-negative lower bound derived for `{pf.nsrc(self.expr)}`')

    # -- driver ---------------------------------------------------------------------------------------------------------
    def run(self) -> IdxVerdict:
        e = self.expr
        if isinstance(e, ast.Constant) and isinstance(e.value, int) and not isinstance(e.value, bool):
            return IdxVerdict('ok', f'constant {e.value}') if e.value >= 0 else IdxVerdict('bad', f'the index is the negative constant {e.value}')
        if self.fn is None:
            return IdxVerdict('und', 'emission at module level')
        names = pf.names_in(e)
        self.tracked = set(names)
        # locals defined from other variables: track those too (one level)
        for _ in range(3):
            more = set()
            for s in pf.walk_shallow(self.fn):
                if isinstance(s, ast.Assign) and len(s.targets) == 1 and isinstance(s.targets[0], ast.Name) and s.targets[0].id in self.tracked:
                    r = self.lin(s.value, IdxState(), {})
                    if r is not None:
                        more |= set(r[1])
            if more <= self.tracked:
                break
            self.tracked |= more
        st = IdxState()
        a = self.fn.args
        bound_here = {x.arg for x in a.posonlyargs + a.args + a.kwonlyargs} | ({a.vararg.arg} if a.vararg else set()) | ({a.kwarg.arg} if a.kwarg else set())
        bound_here |= {n.id for n in ast.walk(self.fn) if isinstance(n, ast.Name) and isinstance(n.ctx, ast.Store)}
        for n in ast.walk(self.fn):
            if isinstance(n, ast.Lambda):
                bound_here |= {x.arg for x in n.args.posonlyargs + n.args.args + n.args.kwonlyargs}
        for v in sorted(self.tracked - bound_here):
            # a name of an enclosing scope: a module-level int constant is its value, anything else is not decided here
            val = None
            for stm in self.mod.tree.body:
                if isinstance(stm, ast.Assign) and len(stm.targets) == 1 and isinstance(stm.targets[0], ast.Name) and stm.targets[0].id == v:
                    val = stm.value if val is None else False
            if isinstance(val, ast.Constant) and isinstance(val.value, int) and not isinstance(val.value, bool):
                st.lows[v] = [LinB(val.value)]
                st.highs[v] = [LinB(val.value)]
            else:
                st.unknown[v] = 'a name of an enclosing scope'
        try:
            self.block(self.fn.body, [st])
        except AnalysisError as ex:
            return IdxVerdict('und', str(ex))
        if not self.verdicts:
            return IdxVerdict('und', 'the emission is not reached by the statement walk')
        bad = [v for v in self.verdicts if v.status == 'bad']
        und = [v for v in self.verdicts if v.status == 'und']
        if bad:
            return bad[0]
        if und:
            return und[0]
        return self.verdicts[0]


class IdxSite:
    def __init__(self, key: str, file: str, line: int, status: str, detail: str, node: IndexedNode, call_txt: str):
        self.key = key
        self.file = file
        self.line = line
        self.status = status
        self.detail = detail
        self.node = node
        self.call_txt = call_txt


HAIL_PY = 'hail/python/hail'
INDEX_QUICK_DIRS = ('hail/python/hail/ir', 'hail/python/hail/expr', 'hail/python/hail/table.py', 'hail/python/hail/matrixtable.py')


def _calls_of(mod: pf.Module, names: Sequence[str]) -> List[ast.Call]:
    out = []
    for n in ast.walk(mod.tree):
        if isinstance(n, ast.Call):
            d = pf.dotted(n.func)
            if d and d.split('.')[-1] in names:
                out.append(n)
    return out


def _bind_index_arg(call: ast.Call, pos: int, param: str) -> Optional[ast.AST]:
    for kw in call.keywords:
        if kw.arg == param:
            return kw.value
        if kw.arg is None:
            return None
    if any(isinstance(a, ast.Starred) for a in call.args[:pos + 1]):
        return None
    if pos < len(call.args):
        return call.args[pos]
    return None


def _prove_index(mod: pf.Module, fn: Optional[pf.FuncDef], call: ast.Call, expr: ast.AST, depth: int = 0) -> IdxVerdict:
    v = IdxProof(mod, fn, call, expr, depth).run()
    if v.status != 'ok' and fn is not None and depth < 2:
        # an index that is a parameter of a private helper / nested function: decide it at the call sites of the helper
        r = IdxProof(mod, fn, call, expr).lin(expr, IdxState(), {})
        a = fn.args
        params = [x.arg for x in a.posonlyargs + a.args]
        private = (fn.name.startswith('_') and not fn.name.startswith('__')) or isinstance(mod.parents().get(fn), (ast.FunctionDef, ast.AsyncFunctionDef))
        if r is not None and len(r[1]) == 1 and list(r[1])[0] in params and private and v.status in ('bad', 'und') and r[0].nonneg() and list(r[1].values())[0] == 1:
            p = list(r[1])[0]
            is_method = isinstance(mod.parents().get(fn), ast.ClassDef) and 'staticmethod' not in pf.decorator_names(fn)
            k = params.index(p) - (1 if is_method else 0)
            sites = [c for c in ast.walk(mod.tree) if isinstance(c, ast.Call) and (pf.dotted(c.func) or '').split('.')[-1] == fn.name and c is not call
                     and mod.enclosing_func(c) is not fn]
            if not sites:
                return v
            # the helper must not constrain or re-assign the parameter itself (otherwise its own verdict stands)
            worst: Optional[IdxVerdict] = None
            for c in sites:
                arg = _bind_index_arg(c, k, p)
                if arg is None:
                    return IdxVerdict('und', f'call `{pf.nsrc(c)[:60]}` of the helper {fn.name} does not pass `{p}` in a recognised way')
                w = _prove_index(mod, mod.enclosing_func(c), c, arg, depth + 1)
                if w.status == 'bad':
                    return IdxVerdict('bad', f'helper {fn.name} is called as `{pf.nsrc(c)[:70]}`: {w.detail}')
                if w.status == 'und':
                    worst = IdxVerdict('und', f'helper {fn.name} called as `{pf.nsrc(c)[:70]}`: {w.detail}')
            if v.status == 'bad' and 'no guard on it' not in v.detail:
                return v
            return worst or IdxVerdict('ok', f'every call of the helper {fn.name} passes a non-negative `{p}`')
    return v


def index_domain_sites(table: ic.Table, thorough: bool = False) -> Tuple[List[IdxSite], List[IndexedNode], int]:
    """Every construction of an index-typed IR node in the front end with the verdict on `index >= 0`."""
    from .common import read_repo
    nodes = indexed_nodes(table)
    if not nodes:
        raise AnalysisError('no IR node is typed by subscripting a tuple type with an int parameter (GetTupleElement rule vanished)')
    names = [n.cls.name for n in nodes]
    by_name = {n.cls.name: n for n in nodes}
    rels = list(pf.walk_py([HAIL_PY] if thorough else list(INDEX_QUICK_DIRS)))
    sites: Dict[str, IdxSite] = {}
    n_files = 0
    for rel in rels:
        txt = read_repo(rel)
        if not any(n in txt for n in names):
            continue
        mod = pf.load(rel)
        n_files += 1
        for call in _calls_of(mod, names):
            node = by_name[(pf.dotted(call.func) or '').split('.')[-1]]
            fn = mod.enclosing_func(call)
            qual = mod.qualname(fn) if fn is not None else '<module>'
            expr = _bind_index_arg(call, node.pos, node.param)
            key = f'{rel}::{qual}::{pf.nsrc(call)[:80]}.{node.param}'
            if expr is None:
                v = IdxVerdict('und', f'the `{node.param}` argument is not passed in a recognised way')
            else:
                # the node's own attribute inside its own class (copy / rebuild): invariant of every node already built
                encl = None
                cur: Optional[ast.AST] = call
                while cur is not None:
                    cur = mod.parents().get(cur)
                    if isinstance(cur, ast.ClassDef):
                        encl = cur.name
                        break
                attr = ic._self_attr(expr)
                if attr is not None and encl is not None and encl in table.classes and node.cls in table.get(encl).mro \
                        and _ctor_attr_map(node.cls).get(attr, attr) == node.param:
                    v = IdxVerdict('ok', f'the `{attr}` of an already constructed {node.cls.name} (rebuild)')
                else:
                    v = _prove_index(mod, fn, call, expr)
            prev = sites.get(key)
            rank = {'ok': 0, 'und': 1, 'bad': 2}
            if prev is None or rank[v.status] > rank[prev.status]:
                sites[key] = IdxSite(key, mod.path, call.lineno, v.status, v.detail, node, pf.nsrc(call)[:90])
    return list(sites.values()), nodes, n_files


# ======================================================================================================================
# Part 4: CHILDREN OF ONE NODE AGREE  (C36 R12)
# ======================================================================================================================
#
# TableUnion / TableMultiWayZipJoin / MatrixUnionRows / MatrixUnionCols are typed - by python AND by the engine - from their FIRST
# child only; the engine's TypeCheck additionally demands that the children agree on some components (rowType, key, globalType,
# entryType, ...), which python's _compute_type never looks at.  The front end therefore has to ESTABLISH the agreement before it
# emits such a node: with an equality guard on a python type expression that determines the component, or by rebuilding every child
# through one unified projection.  Otherwise it reports the type of child 0 for an IR whose children disagree (the engine has no
# type for it).  The obligations are READ from TypeCheck.scala (the `==` comparisons between the same component of different
# children in the node's case arm); every emitting function of the front end is then abstractly executed, path by path, over
#     entities    single tables / collections of tables / a generic element of a collection
#     facts       agree(component, members): all members have the same <component> (row.dtype, key.dtype, key names, ...)
#     flags       truth values of boolean parameters (unify, ...) and of recognised comparisons
# Guards (`if a.C != b.C: raise`, `any(head.C != t.C for t in ts)`, `len(set(t.C for t in ts)) == 1`) add facts; re-assignments
# through known table methods carry the facts of the components the method preserves; `for i, t in enumerate(L): L[i] = f(t)`
# rebuilds a collection.  A test that mentions tables but no type is type-blind and establishes nothing (both branches are
# explored); a test or call we do not understand makes the path UNDECIDED, never a violation.

REL_COMPONENTS = ('globalType', 'rowType', 'key', 'colKey', 'colType', 'rowKey', 'entryType', 'rowKeyStruct', 'colKeyStruct', 'keyType', 'rowValueStruct',
                  'colValueStruct', 'valueType')

# engine component -> alternative sets of python facts that determine it
IMPLIED_BY = {
    'table': {
        'rowType': [('row.dtype',), ('keyfirst', 'key.dtype', 'row_value.dtype')],
        'key': [('key.names',)],
        'keyType': [('key.dtype',)],
        'globalType': [('globals.dtype',)],
        'valueType': [('row_value.dtype',)],
    },
    'matrix': {
        'rowType': [('row.dtype',)],
        'rowKey': [('row_key.names',)],
        'rowKeyStruct': [('row_key.names', 'row_key.types'), ('row.dtype', 'row_key.names')],
        'colKey': [('col_key.names',)],
        'colKeyStruct': [('col_key.names', 'col_key.types'), ('col.dtype', 'col_key.names')],
        'colType': [('col.dtype',)],
        'entryType': [('entry.dtype',)],
        'globalType': [('globals.dtype',)],
    },
}
PY_PARTS = {'table': ('key', 'row', 'row_value', 'globals'), 'matrix': ('row_key', 'col_key', 'row', 'col', 'entry', 'globals', 'row_value', 'col_value')}
WITNESS = {
    'rowType': 'e.g. two tables with the same fields where `x` is int32 in one and float64 in the other, or with the same fields in a different order',
    'key': 'e.g. tables keyed by differently named fields', 'globalType': 'e.g. tables whose globals differ',
    'entryType': 'e.g. an entry field that is int32 in one dataset and float64 in the other', 'colType': 'e.g. a column field of different type or name',
    'rowKeyStruct': 'e.g. row keys of the same types but different names (`locus` vs `locus_2`)', 'colKeyStruct': 'e.g. column keys of different type',
    'rowKey': 'e.g. differently named row keys', 'colKey': 'e.g. differently named column keys', 'keyType': 'e.g. keys of different type',
}
WHAT_DIFFERS = {
    'rowType': 'row types (field names, order or types)', 'key': 'key field names', 'globalType': 'global types', 'entryType': 'entry types',
    'colType': 'column types', 'rowKeyStruct': 'row key structs (names and types)', 'colKeyStruct': 'column key structs', 'rowKey': 'row key names',
    'colKey': 'column key names', 'keyType': 'key types',
}
# table methods that return a new table: components of the receiver that the result is certain to share
PRESERVES = {
    ('table', 'select'): ('key.dtype', 'globals.dtype'),
    ('table', 'annotate'): ('key.dtype', 'globals.dtype'),      # key fields cannot be overwritten; the other fields keep the table's own order
    ('table', 'transmute'): ('key.dtype', 'globals.dtype'),
    ('matrix', 'select_rows'): ('entry.dtype', 'col.dtype', 'col_key.dtype', 'row_key.dtype', 'globals.dtype', 'col_value.dtype'),
    ('matrix', 'select_entries'): ('row.dtype', 'col.dtype', 'col_key.dtype', 'row_key.dtype', 'globals.dtype', 'col_value.dtype', 'row_value.dtype'),
    ('matrix', 'select_cols'): ('row.dtype', 'entry.dtype', 'col_key.dtype', 'row_key.dtype', 'globals.dtype', 'row_value.dtype'),
    ('matrix', 'select_globals'): ('row.dtype', 'entry.dtype', 'col.dtype', 'col_key.dtype', 'row_key.dtype', 'row_value.dtype', 'col_value.dtype'),
    ('table', 'select_globals'): ('row.dtype', 'key.dtype', 'row_value.dtype'),
}
RENAME_TOUCHES = {'row_value': ('row', 'row_value'), 'col_value': ('col', 'col_value'), 'entry': ('entry',), 'globals': ('globals',),
                  'row': ('row', 'row_value', 'row_key'), 'col': ('col', 'col_value', 'col_key'), 'row_key': ('row', 'row_key'), 'col_key': ('col', 'col_key'),
                  'key': ('row', 'key')}
TYPEY_ATTRS = ('dtype', 'typ', '_type', 'types', 'type', 'element_type', 'key_type', 'value_type', 'point_type', 'fields', '_fields')
BLIND_CALLS = ('list', 'set', 'tuple', 'len', 'sorted', 'frozenset', 'any', 'all', 'bool', 'enumerate', 'zip', 'range', 'isinstance', 'iter', 'next', 'reversed')


class AgreeNode:
    def __init__(self, cls: ic.Cls, kind: str, comps: List[str], where: str, line: int):
        self.cls = cls
        self.kind = kind
        self.comps = comps
        self.where = where
        self.line = line


def _sel_chain(t: Any) -> Optional[Tuple[str, Tuple[str, ...]]]:
    """('sel', ('sel', root, 'typ'), 'rowType') -> (repr of root, ('typ', 'rowType'))."""
    path: List[str] = []
    while isinstance(t, tuple) and t and t[0] == 'sel':
        path.append(t[2])
        t = t[1]
    if not path:
        return None
    return repr(t), tuple(reversed(path))


def agreement_nodes(table: ic.Table) -> Tuple[List[AgreeNode], List[str]]:
    """Relational IR classes whose TypeCheck.scala arm compares the same type component of different children."""
    out: List[AgreeNode] = []
    notes: List[str] = []
    S = sl.load(TYPECHECK_SCALA)
    for cls in table.ir_classes():
        kind = 'table' if cls.is_a('TableIR') else 'matrix' if cls.is_a('MatrixIR') else None
        if kind is None or cls.name in ic.ROOTS:
            continue
        if (cls.name + '(') not in S.code:
            continue
        _, arm = scala_match_arm(TYPECHECK_SCALA, cls.name)
        if arm is None:
            continue
        where = f'{TYPECHECK_SCALA}::case {arm[0]}'
        try:
            items = _arm_items(S, arm, where)
        except AnalysisError as ex:
            # an arm the subset parser cannot read: if it mentions a cross-child comparison we must not stay silent
            txt = S.nocomment[arm[1]:arm[2]]
            if '==' in txt and ('.tail' in txt or 'forall' in txt):
                raise AnalysisError(f'{where}: cannot read the arm ({ex})')
            continue
        comps: List[str] = []
        for t in _sc_walk(items):
            if t[0] == 'bin' and t[1] == '==' and len(t) == 4:
                a, b = _sel_chain(t[2]), _sel_chain(t[3])
                if a and b and a[1][-1] == b[1][-1] and a[1][-1] in REL_COMPONENTS and a[0] != b[0] and a[1] == b[1]:
                    if a[1][-1] not in comps:
                        comps.append(a[1][-1])
        if not comps:
            continue
        r = cls.resolve('_compute_type')
        if r is not None and any(isinstance(n, ast.Assert) for n in ast.walk(r[1])):
            notes.append(f'{cls.name}: python _compute_type asserts something itself - not armed')
            continue
        for c in comps:
            if c not in IMPLIED_BY[kind]:
                raise AnalysisError(f'{where}: the engine demands agreement on `{c}`, which this analysis has no python counterpart for')
        out.append(AgreeNode(cls, kind, comps, where, S.line_of(arm[1])))
    return out, notes


# ---- abstract values: ('tab', tid) ('coll', (member, ...)) ('comp', tid, comp) ('names', tid, part) ('renames', tid, part) ('idx', cid) ------

def _close(comp: str) -> List[str]:
    out = [comp]
    if comp.endswith('.dtype'):
        p = comp[:-6]
        out += [p + '.names', p + '.types', p + '.nameset']
    elif comp.endswith('.names'):
        out.append(comp[:-6] + '.nameset')
    return out


class AgState:
    def __init__(self) -> None:
        self.env: Dict[str, tuple] = {}
        self.facts: Set[Tuple[str, FrozenSet[tuple]]] = set()
        self.flags: Dict[str, bool] = {}
        self.taint: Optional[str] = None
        self.opaque: Set[str] = set()       # table entities with a history we do not understand
        self.label: Tuple[str, ...] = ()
        self.notes: Tuple[str, ...] = ()
        self.stored: Optional[tuple] = None  # inside a rebuild loop body: what was stored into the collection on this path
        self.dead = False

    def copy(self) -> 'AgState':
        s = AgState()
        s.env = dict(self.env)
        s.facts = set(self.facts)
        s.flags = dict(self.flags)
        s.taint = self.taint
        s.opaque = set(self.opaque)
        s.label = self.label
        s.notes = self.notes
        s.stored = self.stored
        return s

    def key(self) -> tuple:
        return (tuple(sorted(self.env.items(), key=repr)), tuple(sorted(self.facts, key=repr)), tuple(sorted(self.flags.items())), self.taint,
                tuple(sorted(self.opaque)), self.stored)

    def add_fact(self, comp: str, members: Iterable[tuple]) -> None:
        ms = set(members)
        if len(ms) < 1:
            return
        for c in _close(comp):
            cur = set(ms)
            rest = set()
            for (fc, fm) in self.facts:
                if fc == c and (fm & cur):
                    cur |= fm
                else:
                    rest.add((fc, fm))
            # head + tail of one collection = the whole collection
            for m in list(cur):
                if m[0] == 'tail' and ('one', 'head:' + m[1]) in cur:
                    cur.add(('all', m[1]))
            rest.add((c, frozenset(cur)))
            self.facts = rest

    def covered(self, comp: str, members: Sequence[tuple]) -> bool:
        need = {m for m in members if not (m[0] in ('all', 'tail') and self.flags.get('empty:' + str(m[1])))}
        if len(need) <= 1 and all(m[0] == 'one' for m in need):
            return True
        for (fc, fm) in self.facts:
            if fc != comp:
                continue
            ok = True
            for m in need:
                if m in fm:
                    continue
                cid = m[1][5:] if m[0] == 'one' and isinstance(m[1], str) and m[1].startswith('head:') else m[1] if m[0] in ('tail', 'all') else None
                if cid is not None and ('all', cid) in fm:
                    continue
                ok = False
                break
            if ok:
                return True
        return False


class AgSiteResult:
    def __init__(self, key: str, file: str, line: int, status: str, msg: str):
        self.key = key
        self.file = file
        self.line = line
        self.status = status  # ok | bad | und
        self.msg = msg


class AgreeFlow:
    MAX_STATES = 48

    def __init__(self, mod: pf.Module, fn: pf.FuncDef, qual: str, nodes: Dict[str, AgreeNode], kind: str):
        self.mod = mod
        self.fn = fn
        self.qual = qual
        self.nodes = nodes
        self.kind = kind            # 'table' | 'matrix': what `self` / the parameters are
        self.results: List[AgSiteResult] = []
        self.raw: List[Tuple[ast.Call, AgSiteResult, Dict[str, bool]]] = []
        self.n_tab = 0
        self.assigned = {n.id for n in ast.walk(fn) if isinstance(n, ast.Name) and isinstance(n.ctx, ast.Store)}
        self.family_cache: Dict[Tuple[str, str], Tuple[str, str]] = {}

    # ---- entry state ---------------------------------------------------------------------------------------------------
    def entry(self) -> AgState:
        st = AgState()
        a = self.fn.args
        decl: Dict[str, str] = {}
        for dec in self.fn.decorator_list:
            if isinstance(dec, ast.Call) and pf.dotted(dec.func) in ('typecheck_method', 'typecheck'):
                for kw in dec.keywords:
                    if kw.arg is None:
                        continue
                    v = kw.value
                    if isinstance(v, ast.Name) and v.id in ('table_type', 'matrix_table_type'):
                        decl[kw.arg] = 'one'
                    elif isinstance(v, ast.Call) and pf.dotted(v.func) in ('sequenceof', 'tupleof') and len(v.args) == 1 and isinstance(v.args[0], ast.Name) \
                            and v.args[0].id in ('table_type', 'matrix_table_type'):
                        decl[kw.arg] = 'many'
        is_method = isinstance(self.mod.parents().get(self.fn), ast.ClassDef) and not ({'staticmethod', 'classmethod'} & set(pf.decorator_names(self.fn)))
        params = [x.arg for x in a.posonlyargs + a.args]
        if is_method and params:
            st.env[params[0]] = ('tab', params[0])
            params = params[1:]
        for p in params + [x.arg for x in a.kwonlyargs]:
            if decl.get(p) == 'one':
                st.env[p] = ('tab', p)
            elif decl.get(p) == 'many':
                st.env[p] = ('coll', (('all', p),))
        if a.vararg is not None and decl.get(a.vararg.arg) == 'one':
            st.env[a.vararg.arg] = ('coll', (('all', a.vararg.arg),))
        return st

    # ---- expressions ---------------------------------------------------------------------------------------------------
    def ev(self, e: ast.AST, st: AgState) -> Optional[tuple]:
        if isinstance(e, ast.Name):
            return st.env.get(e.id)
        if isinstance(e, ast.Starred):
            return self.ev(e.value, st)
        c = self.comp_of(e, st)
        if c is not None:
            return c
        if isinstance(e, (ast.List, ast.Tuple)):
            ms: List[tuple] = []
            for x in e.elts:
                v = self.ev(x, st)
                if v is None:
                    return None
                if v[0] == 'tab' and not isinstance(x, ast.Starred):
                    ms.append(('one', v[1]))
                elif v[0] == 'coll' and isinstance(x, ast.Starred):
                    ms += list(v[1])
                else:
                    return None
            return ('coll', tuple(ms))
        if isinstance(e, ast.Call) and pf.dotted(e.func) in ('list', 'tuple') and len(e.args) == 1 and not e.keywords:
            v = self.ev(e.args[0], st)
            return v if v is not None and v[0] == 'coll' else None
        if isinstance(e, (ast.ListComp, ast.GeneratorExp)) and len(e.generators) == 1 and not e.generators[0].ifs and isinstance(e.generators[0].target, ast.Name):
            # [t._tir for t in L] / [t for t in L]: the same members (the IR of a table stands for the table)
            g = e.generators[0]
            elt = e.elt.value if isinstance(e.elt, ast.Attribute) and e.elt.attr in ('_tir', '_mir') else e.elt
            if isinstance(elt, ast.Name) and elt.id == g.target.id:
                m = self.ev(g.iter, st)
                return m if m is not None and m[0] == 'coll' else None
            return None
        if isinstance(e, ast.Attribute) and e.attr in ('_tir', '_mir'):
            t = self.ev(e.value, st)
            return t if t is not None and t[0] == 'tab' else None
        if isinstance(e, ast.BinOp) and isinstance(e.op, ast.Add):
            a, b = self.ev(e.left, st), self.ev(e.right, st)
            if a and b and a[0] == 'coll' and b[0] == 'coll':
                return ('coll', a[1] + b[1])
            return None
        if isinstance(e, ast.BinOp) and isinstance(e.op, ast.Sub):
            return self.names_of(e.left, st)
        if isinstance(e, ast.Subscript):
            v = self.ev(e.value, st)
            if v is not None and v[0] == 'coll' and v[1]:
                s = e.slice
                if isinstance(s, ast.Constant) and s.value == 0:
                    m = v[1][0]
                    return ('tab', m[1]) if m[0] == 'one' else ('tab', 'head:' + m[1]) if m[0] == 'all' else None
                if isinstance(s, ast.Slice) and s.upper is None and s.step is None and isinstance(s.lower, ast.Constant) and s.lower.value == 1:
                    m = v[1][0]
                    if m[0] == 'one':
                        return ('coll', v[1][1:])
                    if m[0] == 'all':
                        return ('coll', (('tail', m[1]),) + v[1][1:])
                if isinstance(s, ast.Slice) and s.upper is None and s.step is None and isinstance(s.lower, ast.Constant) and isinstance(s.lower.value, int) \
                        and s.lower.value >= 2 and len(v[1]) == 1 and v[1][0][0] == 'all':
                    # a proper part of the tail: facts about it never add up to the whole collection
                    return ('coll', ((f'from{s.lower.value}', v[1][0][1]),))
            return None
        if isinstance(e, ast.Call) and pf.dotted(e.func) in ('set', 'list', 'tuple', 'frozenset', 'sorted') and len(e.args) == 1 and not e.keywords:
            v = self.ev(e.args[0], st)
            if v is not None and v[0] in ('names', 'renames'):
                return v
            return None
        if isinstance(e, ast.Call) and pf.dotted(e.func) == 'dict' and len(e.args) == 1 and not e.keywords:
            v = self.ev(e.args[0], st)
            return v if v is not None and v[0] == 'renames' else None
        return None

    def names_of(self, e: ast.AST, st: AgState) -> Optional[tuple]:
        """A set / list of field names known to be a subset of the names of one part of one table: ('names', tid, part)."""
        v = self.ev(e, st)
        if v is None:
            return None
        if v[0] == 'names':
            return v
        if v[0] == 'comp' and (v[2].endswith('.nameset') or v[2].endswith('.names')):
            return ('names', v[1], v[2].rsplit('.', 1)[0])
        return None

    def comp_of(self, e: ast.AST, st: AgState) -> Optional[tuple]:
        """`t.row.dtype` -> ('comp', tid, 'row.dtype'); names / types views likewise."""
        parts = PY_PARTS[self.kind]

        def part(x: ast.AST) -> Optional[Tuple[str, str]]:
            if isinstance(x, ast.Attribute) and x.attr in parts:
                t = self.ev(x.value, st) if not isinstance(x.value, ast.Attribute) or x.value.attr not in parts else None
                if t is not None and t[0] == 'tab':
                    return t[1], x.attr
            return None

        def dtype_of(x: ast.AST) -> Optional[Tuple[str, str]]:
            if isinstance(x, ast.Attribute) and x.attr == 'dtype':
                return part(x.value)
            return None

        if isinstance(e, ast.Name):
            v = st.env.get(e.id)
            return v if v is not None and v[0] == 'comp' else None
        d = dtype_of(e)
        if d:
            return ('comp', d[0], d[1] + '.dtype')
        # names views
        if isinstance(e, ast.Call) and isinstance(e.func, ast.Attribute) and e.func.attr == 'keys' and not e.args:
            p = part(e.func.value) or dtype_of(e.func.value)
            if p:
                return ('comp', p[0], p[1] + '.names')
        if isinstance(e, ast.Call) and isinstance(e.func, ast.Attribute) and e.func.attr == 'values' and not e.args:
            p = dtype_of(e.func.value)
            if p:
                return ('comp', p[0], p[1] + '.types')
        if isinstance(e, ast.Attribute) and e.attr == 'types':
            p = dtype_of(e.value)
            if p:
                return ('comp', p[0], p[1] + '.types')
        if isinstance(e, ast.Call) and pf.dotted(e.func) in ('list', 'tuple') and len(e.args) == 1 and not e.keywords:
            a = e.args[0]
            p = part(a) or dtype_of(a)
            if p:
                return ('comp', p[0], p[1] + '.names')
            inner = self.comp_of(a, st)
            if inner is not None and (inner[2].endswith('.names') or inner[2].endswith('.types')):
                return inner
        if isinstance(e, ast.Call) and pf.dotted(e.func) in ('set', 'frozenset') and len(e.args) == 1 and not e.keywords:
            a = e.args[0]
            p = part(a) or dtype_of(a)
            if p:
                return ('comp', p[0], p[1] + '.nameset')
            inner = self.comp_of(a, st)
            if inner is not None and inner[2].endswith('.names'):
                return ('comp', inner[1], inner[2][:-6] + '.nameset')
        return None

    def entity_names(self, st: AgState) -> Set[str]:
        return {n for n, v in st.env.items() if v[0] in ('tab', 'coll', 'comp', 'names', 'renames')}

    def mentions_entities(self, e: ast.AST, st: AgState) -> bool:
        return bool(pf.names_in(e) & self.entity_names(st))

    def type_blind(self, e: ast.AST) -> bool:
        for n in ast.walk(e):
            if isinstance(n, ast.Attribute) and (n.attr in TYPEY_ATTRS or 'type' in n.attr.lower()):
                return False
            if isinstance(n, ast.Name) and 'type' in n.id.lower():
                return False
            if isinstance(n, ast.Call):
                d = pf.dotted(n.func) or ''
                if d in BLIND_CALLS:
                    continue
                if isinstance(n.func, ast.Attribute) and n.func.attr in ('keys', 'index', 'count', 'startswith', 'endswith'):
                    continue
                return False
            if isinstance(n, (ast.Lambda, ast.Await, ast.Yield, ast.YieldFrom, ast.NamedExpr, ast.JoinedStr)):
                return False
        return True

    # ---- tests ---------------------------------------------------------------------------------------------------------
    def gen_fact(self, elt: ast.AST, gens: Sequence[ast.comprehension], st: AgState, want_equal: bool) -> Optional[Tuple[str, List[tuple]]]:
        """`head.C != t.C for t in M` (want_equal False: the generator of any(...)) -> (C, members)."""
        if len(gens) != 1 or gens[0].ifs or not isinstance(gens[0].target, ast.Name):
            return None
        m = self.ev(gens[0].iter, st)
        if m is None or m[0] != 'coll':
            return None
        s2 = st.copy()
        cid = self.elt_id(m)
        s2.env[gens[0].target.id] = ('tab', cid)
        if not (isinstance(elt, ast.Compare) and len(elt.ops) == 1 and isinstance(elt.ops[0], (ast.Eq, ast.NotEq))):
            return None
        if isinstance(elt.ops[0], ast.Eq) != want_equal:
            return None
        a, b = self.comp_of(elt.left, s2), self.comp_of(elt.comparators[0], s2)
        if a is None or b is None or a[2] != b[2]:
            return None
        tids = {a[1], b[1]}
        if cid not in tids:
            return None
        members = list(m[1])
        other = (tids - {cid})
        if other:
            members.append(('one', next(iter(other))))
        return a[2], members

    def elt_id(self, coll: tuple) -> str:
        return 'elt:' + repr(coll[1])

    def assume(self, st: AgState, atom: ast.AST, pol: bool) -> None:
        if isinstance(atom, ast.Name):
            if atom.id in self.entity_names(st):
                return
            if atom.id in self.assigned:
                defs = [x.value for x in ast.walk(self.fn) if isinstance(x, ast.Assign) and len(x.targets) == 1 and isinstance(x.targets[0], ast.Name)
                        and x.targets[0].id == atom.id]
                others = [x for x in ast.walk(self.fn) if isinstance(x, ast.Name) and x.id == atom.id and isinstance(x.ctx, ast.Store)]
                if len(defs) == 1 and len(others) == 1 and self.mentions_entities(defs[0], st):
                    alts = self.dnf(defs[0], pol)
                    if len(alts) == 1:
                        for a2, p2 in alts[0]:
                            if not (isinstance(a2, ast.Name) and a2.id == atom.id):
                                self.assume(st, a2, p2)
                    elif not self.type_blind(defs[0]):
                        st.taint = st.taint or f'test on `{atom.id}` = `{pf.nsrc(defs[0])[:60]}`'
                elif any(self.mentions_entities(d, st) and not self.type_blind(d) for d in defs):
                    st.taint = st.taint or f'test on the local `{atom.id}`'
                return
            if st.flags.get(atom.id, pol) != pol:
                st.dead = True
            st.flags[atom.id] = pol
            return
        if isinstance(atom, ast.Constant):
            if bool(atom.value) != pol:
                st.dead = True
            return
        if not self.mentions_entities(atom, st):
            return
        fkey = None
        # a.C == b.C
        if isinstance(atom, ast.Compare) and len(atom.ops) == 1 and isinstance(atom.ops[0], (ast.Eq, ast.NotEq)):
            a, b = self.comp_of(atom.left, st), self.comp_of(atom.comparators[0], st)
            if a is not None and b is not None:
                if a[2] == b[2] and a[1] != b[1]:
                    equal = isinstance(atom.ops[0], ast.Eq) == pol
                    fkey = 'eq:' + a[2] + ':' + '|'.join(sorted([str(a[1]), str(b[1])]))
                    if st.flags.get(fkey, equal) != equal:
                        st.dead = True
                    st.flags[fkey] = equal
                    if equal:
                        st.add_fact(a[2], [self.member_of(a[1]), self.member_of(b[1])])
                    return
                st.taint = st.taint or f'comparison of different components `{pf.nsrc(atom)}`'
                return
            # len(set(C for t in M)) == 1
            left, right = atom.left, atom.comparators[0]
            if isinstance(right, ast.Constant) and right.value == 1 and isinstance(left, ast.Call) and pf.dotted(left.func) == 'len' and len(left.args) == 1:
                inner = left.args[0]
                gen = None
                if isinstance(inner, ast.Call) and pf.dotted(inner.func) in ('set', 'frozenset') and len(inner.args) == 1 and isinstance(inner.args[0], (ast.GeneratorExp, ast.ListComp, ast.SetComp)):
                    gen = inner.args[0]
                elif isinstance(inner, ast.SetComp):
                    gen = inner
                if gen is not None and len(gen.generators) == 1 and not gen.generators[0].ifs and isinstance(gen.generators[0].target, ast.Name):
                    m = self.ev(gen.generators[0].iter, st)
                    if m is not None and m[0] == 'coll':
                        s2 = st.copy()
                        cid = self.elt_id(m)
                        s2.env[gen.generators[0].target.id] = ('tab', cid)
                        c = self.comp_of(gen.elt, s2)
                        if c is not None and c[1] == cid:
                            same = isinstance(atom.ops[0], ast.Eq) == pol
                            fkey = 'allsame:' + c[2] + ':' + repr(m[1])
                            if st.flags.get(fkey, same) != same:
                                st.dead = True
                            st.flags[fkey] = same
                            if same:
                                st.add_fact(c[2], m[1])
                            return
                        if self.type_blind(gen.elt):
                            return
        if isinstance(atom, ast.Call) and pf.dotted(atom.func) in ('any', 'all') and len(atom.args) == 1 and isinstance(atom.args[0], (ast.GeneratorExp, ast.ListComp)):
            g = atom.args[0]
            is_any = pf.dotted(atom.func) == 'any'
            if is_any and not pol:
                f = self.gen_fact(g.elt, g.generators, st, want_equal=False)
                if f:
                    st.add_fact(f[0], f[1])
                    return
            if not is_any and pol:
                f = self.gen_fact(g.elt, g.generators, st, want_equal=True)
                if f:
                    st.add_fact(f[0], f[1])
                    return
            if self.gen_fact(g.elt, g.generators, st, True) or self.gen_fact(g.elt, g.generators, st, False):
                return   # recognised, but this truth value establishes nothing for every element
        if self.type_blind(atom):
            return
        st.taint = st.taint or f'unrecognised test `{pf.nsrc(atom)[:80]}`'

    def member_of(self, tid: str) -> tuple:
        return ('one', tid)

    def dnf(self, test: ast.AST, pol: bool) -> List[List[Tuple[ast.AST, bool]]]:
        return IdxProof.dnf(self, test, pol)  # type: ignore[arg-type]

    def branch(self, st: AgState, test: ast.AST, pol: bool) -> List[AgState]:
        out = []
        for conj in self.dnf(test, pol):
            s = st.copy()
            for atom, p in conj:
                self.assume(s, atom, p)
                if s.dead:
                    break
            if not s.dead:
                out.append(s)
        return out

    # ---- statements ----------------------------------------------------------------------------------------------------
    def emissions_in(self, node: ast.AST) -> List[ast.Call]:
        out = []
        for n in pf.walk_shallow(node):
            if isinstance(n, ast.Call):
                d = pf.dotted(n.func)
                if d and d.split('.')[-1] in self.nodes:
                    out.append(n)
        return out

    def merge(self, states: List[AgState]) -> List[AgState]:
        seen: Dict[tuple, AgState] = {}
        for s in states:
            k = s.key()
            if k not in seen:
                seen[k] = s
        out = list(seen.values())
        if len(out) > self.MAX_STATES:
            raise AnalysisError(f'{self.mod.rel}::{self.qual}: too many paths')
        return out

    def block(self, stmts: Sequence[ast.stmt], states: List[AgState]) -> List[AgState]:
        for s in stmts:
            if not states:
                return []
            nxt: List[AgState] = []
            for st in states:
                nxt += self.stmt(s, st)
            states = self.merge(nxt)
        return states

    def escapes(self, node: ast.AST, st: AgState) -> None:
        ents = {n for n, v in st.env.items() if v[0] in ('tab', 'coll')}
        for c in pf.walk_shallow(node):
            if not isinstance(c, ast.Call):
                continue
            d = pf.dotted(c.func) or ''
            last = d.split('.')[-1]
            if last in BLIND_CALLS or last in self.nodes or last in ('Table', 'MatrixTable', 'extend', 'append', 'format', 'info', 'warning', 'rename') \
                    or (isinstance(c.func, ast.Attribute) and (self.kind, c.func.attr) in PRESERVES):
                continue
            for a in list(c.args) + [k.value for k in c.keywords]:
                if isinstance(a, ast.Starred):
                    a = a.value
                if isinstance(a, ast.Name) and a.id in ents:
                    st.taint = st.taint or f'`{a.id}` is passed to `{pf.nsrc(c.func)}(...)`, which may check or change it'

    def fresh(self, base: str) -> str:
        self.n_tab += 1
        return f'{base.split("#")[0]}#{self.n_tab}'

    def transform(self, st: AgState, recv: tuple, call: ast.Call) -> tuple:
        """Result of `recv.method(...)` (a new table): carry over the facts of the components the method preserves."""
        meth = call.func.attr  # type: ignore[union-attr]
        old = recv[1]
        new = self.fresh(str(old))
        keep: Optional[Tuple[str, ...]] = PRESERVES.get((self.kind, meth))
        if meth == 'rename' and len(call.args) == 1 and not call.keywords:
            r = self.ev(call.args[0], st)
            if r is not None and r[0] == 'renames' and r[1] == old and r[2] in RENAME_TOUCHES:
                touched = RENAME_TOUCHES[r[2]]
                keep = tuple(p + '.dtype' for p in PY_PARTS[self.kind] if p not in touched)
        if keep is None:
            st.opaque.add(new)
            return ('tab', new)
        if old in st.opaque:
            st.opaque.add(new)
        keepc = set()
        for k in keep:
            keepc |= set(_close(k))
        for (c, ms) in list(st.facts):
            if c in keepc and ('one', old) in ms:
                st.add_fact(c, [('one', old), ('one', new)])
        return ('tab', new)

    def assign_name(self, st: AgState, name: str, value: ast.AST) -> None:
        v = self.ev(value, st)
        if v is None and isinstance(value, ast.Call) and isinstance(value.func, ast.Attribute):
            r = self.ev(value.func.value, st)
            if r is not None and r[0] == 'tab':
                v = self.transform(st, r, value)
        if v is None:
            if name in st.env and st.env[name][0] in ('tab', 'coll') and not self.type_blind(value):
                st.taint = st.taint or f'`{name}` re-assigned from `{pf.nsrc(value)[:60]}`'
            st.env.pop(name, None)
        else:
            st.env[name] = v

    def stmt(self, s: ast.stmt, st: AgState) -> List[AgState]:
        if isinstance(s, (ast.FunctionDef, ast.AsyncFunctionDef, ast.ClassDef, ast.Pass, ast.Import, ast.ImportFrom, ast.Global, ast.Nonlocal)):
            return [st]
        if isinstance(s, ast.Expr) and isinstance(s.value, ast.Constant):
            return [st]
        if isinstance(s, ast.If):
            for em in self.emissions_in(s.test):
                self.emit(em, st)
            self.escapes(s.test, st)
            t_in, f_in = self.branch(st, s.test, True), self.branch(st, s.test, False)
            t = self.block(s.body, [x.copy() for x in t_in])
            f = self.block(s.orelse, [x.copy() for x in f_in])
            # label the decision only when it made a difference
            if t and f and {x.key() for x in t} != {x.key() for x in f}:
                txt = pf.nsrc(s.test)
                txt = txt if len(txt) <= 70 else txt[:67] + '...'
                for x in t:
                    x.label = x.label + (txt,)
                for x in f:
                    x.label = x.label + ('not (' + txt + ')',)
            return t + f
        if isinstance(s, (ast.Return, ast.Raise)):
            for em in self.emissions_in(s):
                self.emit(em, st)
            return []
        if isinstance(s, (ast.Continue, ast.Break)):
            st.taint = st.taint or 'continue/break'
            return [st]
        if isinstance(s, ast.Assert):
            return self.branch(st, s.test, True)
        if isinstance(s, (ast.For, ast.AsyncFor)):
            return self.loop(s, st)
        if isinstance(s, (ast.While, ast.Try, ast.With, ast.AsyncWith)) or (hasattr(ast, 'Match') and isinstance(s, ast.Match)):
            touched = {n.id for n in ast.walk(s) if isinstance(n, ast.Name) and isinstance(n.ctx, ast.Store)} & self.entity_names(st)
            if self.emissions_in(s) or touched:
                st.taint = st.taint or f'{type(s).__name__} statement around tables / the emission'
                for em in self.emissions_in(s):
                    self.emit(em, st)
            return [st]
        # simple statements
        for em in self.emissions_in(s):
            self.emit(em, st)
        self.escapes(s, st)
        if isinstance(s, ast.Assign) and len(s.targets) == 1:
            t = s.targets[0]
            if isinstance(t, ast.Name):
                self.assign_name(st, t.id, s.value)
            elif isinstance(t, ast.Tuple) and all(isinstance(x, (ast.Name, ast.Starred)) for x in t.elts):
                v = None
                if isinstance(s.value, ast.Call) and (pf.dotted(s.value.func) or '').split('.')[-1] == 'deduplicate' and s.value.args:
                    a = self.names_of(s.value.args[0], st)
                    if a is not None:
                        v = ('renames', a[1], a[2])
                for i, x in enumerate(t.elts):
                    nm = x.id if isinstance(x, ast.Name) else x.value.id if isinstance(x.value, ast.Name) else None  # type: ignore[union-attr]
                    if nm is None:
                        continue
                    if nm in st.env and st.env[nm][0] in ('tab', 'coll'):
                        st.taint = st.taint or f'`{nm}` re-assigned by tuple unpacking'
                    st.env.pop(nm, None)
                    if v is not None and i == 0 and isinstance(x, ast.Name):
                        st.env[nm] = v
            elif isinstance(t, ast.Subscript) and isinstance(t.value, ast.Name) and t.value.id in st.env and st.env[t.value.id][0] == 'coll':
                idx = st.env.get(t.slice.id) if isinstance(t.slice, ast.Name) else None
                if idx is not None and idx[0] == 'idx' and idx[1] == t.value.id:
                    st.stored = self.rebuilt(st, s.value)
                else:
                    st.taint = st.taint or f'store into `{t.value.id}[...]` outside an enumerate loop over it'
        elif isinstance(s, ast.AugAssign) and isinstance(s.target, ast.Name) and s.target.id in st.env:
            if st.env[s.target.id][0] == 'coll' and isinstance(s.op, ast.Add):
                v = self.ev(s.value, st)
                if v is not None and v[0] == 'coll':
                    st.env[s.target.id] = ('coll', st.env[s.target.id][1] + v[1])
                    return [st]
            st.taint = st.taint or f'`{s.target.id}` updated in place'
        elif isinstance(s, ast.Expr) and isinstance(s.value, ast.Call) and isinstance(s.value.func, ast.Attribute) and isinstance(s.value.func.value, ast.Name):
            nm = s.value.func.value.id
            cur = st.env.get(nm)
            if cur is not None and cur[0] == 'coll':
                meth = s.value.func.attr
                arg = self.ev(s.value.args[0], st) if len(s.value.args) == 1 and not s.value.keywords else None
                if meth == 'extend' and arg is not None and arg[0] == 'coll':
                    st.env[nm] = ('coll', cur[1] + arg[1])
                elif meth == 'append' and arg is not None and arg[0] == 'tab':
                    st.env[nm] = ('coll', cur[1] + (('one', arg[1]),))
                else:
                    st.taint = st.taint or f'`{nm}.{meth}(...)`'
        return [st]

    # ---- loops ---------------------------------------------------------------------------------------------------------
    def loop(self, s: ast.For, st: AgState) -> List[AgState]:
        it = s.iter
        idx_name = None
        target = s.target
        coll_name = None
        if isinstance(it, ast.Call) and pf.dotted(it.func) == 'enumerate' and it.args and isinstance(target, ast.Tuple) and len(target.elts) == 2 \
                and isinstance(target.elts[0], ast.Name):
            plain_enum = len(it.args) == 1 and not it.keywords
            idx_name = target.elts[0].id if plain_enum else None
            if isinstance(it.args[0], ast.Name):
                coll_name = it.args[0].id
            it = it.args[0]
            target = target.elts[1]
        m = self.ev(it, st)
        stores = [n for n in ast.walk(s) if isinstance(n, ast.Subscript) and isinstance(n.ctx, ast.Store) and isinstance(n.value, ast.Name)
                  and n.value.id in st.env and st.env[n.value.id][0] == 'coll']
        touched = {n.id for b in s.body for n in ast.walk(b) if isinstance(n, ast.Name) and isinstance(n.ctx, ast.Store)} & self.entity_names(st)
        if m is None or m[0] != 'coll' or not isinstance(target, ast.Name):
            if stores or touched or self.emissions_in(s):
                st.taint = st.taint or f'loop over `{pf.nsrc(s.iter)[:50]}` changes tables / emits'
                for em in self.emissions_in(s):
                    self.emit(em, st)
                return [st]
            probe = st.copy()
            for b in s.body:
                self.escapes(b, probe)
            st.taint = st.taint or probe.taint
            if self.mentions_entities(s.iter, st) and any(isinstance(x, (ast.If, ast.Assert, ast.Raise)) for b in s.body for x in ast.walk(b)):
                st.taint = st.taint or f'checks inside a loop over `{pf.nsrc(s.iter)[:50]}`, an iterable this analysis does not understand'
            return [st]
        if touched or self.emissions_in(s) or s.orelse:
            st.taint = st.taint or f'loop over `{pf.nsrc(s.iter)[:50]}` re-assigns table variables'
            return [st]
        cid = self.elt_id(m)
        body_in = st.copy()
        body_in.env[target.id] = ('tab', cid)
        if idx_name and coll_name:
            body_in.env[idx_name] = ('idx', coll_name)
        body_in.stored = None
        outs = self.block(s.body, [body_in])
        if not outs:
            st.taint = st.taint or 'loop body never completes'
            return [st]
        rebuild = any(o.stored is not None for o in outs)
        if stores and not rebuild and not all(o.taint for o in outs):
            st.taint = st.taint or 'store into a table collection not understood'
            return [st]
        if not rebuild:
            # guard loop: facts about the generic element hold for every member of the collection
            res: List[AgState] = []
            for o in outs:
                n = st.copy()
                n.flags = dict(o.flags)
                n.taint = o.taint
                n.label = o.label
                for (c, ms) in o.facts:
                    if ('one', cid) in ms:
                        n.add_fact(c, [x for x in ms if x != ('one', cid)] + list(m[1]))
                    else:
                        n.add_fact(c, ms)
                res.append(n)
            # members of the same flag valuation took different routes through the body: only the common facts survive
            grouped: Dict[tuple, AgState] = {}
            for n in res:
                k = (tuple(sorted(n.flags.items())), n.taint)
                if k in grouped:
                    g = grouped[k]
                    g.facts = {f for f in g.facts if any(f[0] == h[0] and f[1] <= h[1] for h in n.facts)}
                else:
                    grouped[k] = n
            outs2 = list(grouped.values())
            # the collection may be empty: then the body's decisions were never taken.  Flag valuations no surviving body path has
            # continue with the facts known before the loop (agreement over the empty collection holds vacuously)
            names = sorted({k for o in outs2 for k in o.flags if k not in st.flags and k.isidentifier()})
            if 0 < len(names) <= 4:
                import itertools
                for vals in itertools.product([True, False], repeat=len(names)):
                    val = dict(zip(names, vals))
                    if not any(all(o.flags.get(k, v) == v for k, v in val.items()) for o in outs2):
                        z = st.copy()
                        z.flags.update(val)
                        for mm in m[1]:
                            if mm[0] in ('all', 'tail'):
                                z.flags['empty:' + str(mm[1])] = True
                        outs2.append(z)
            return outs2
        # rebuild loop:  for i, t in enumerate(L): L[i] = f(t)
        if coll_name is None or idx_name is None:
            st.taint = st.taint or 'collection rebuilt by an unrecognised loop'
            return [st]
        n = st.copy()
        kept = [o for o in outs if o.stored is None]
        built = [o for o in outs if o.stored is not None]
        for o in outs:
            n.taint = n.taint or o.taint
            extra = {k: v for k, v in o.flags.items() if st.flags.get(k) != v}
            if extra:
                n.taint = n.taint or 'a rebuild loop decides on a flag'
        kinds = {o.stored for o in built}
        if len(kinds) != 1:
            n.taint = n.taint or 'members are rebuilt in different ways'
            return [n]
        how = next(iter(kinds))     # ('rebuilt', method, preserved comps, new comps, problem)
        new_cid = self.fresh(coll_name)
        new_member = ('all', new_cid)
        members: List[tuple] = [new_member]
        if how[4]:
            n.notes = n.notes + (how[4],)
        if kept:
            # some members keep their old value: they are still described by the old members
            members += list(m[1])
            conds = sorted({' and '.join(o.label[len(st.label):]) or 'some path' for o in kept})
            n.notes = n.notes + (f'members of `{coll_name}` for which `{conds[0]}` are passed on as they are, not rebuilt by `{how[1]}`',)
        # facts the method preserves: every old member agrees with ... its rebuilt version; so agreement over the old collection carries over
        keepc = set()
        for k in how[2]:
            keepc |= set(_close(k))
        for (c, ms) in list(n.facts):
            if c in keepc and all(x in ms or self._covers(ms, x) for x in m[1]):
                n.add_fact(c, list(ms) + [new_member])
        for c in how[3]:
            n.add_fact(c, [new_member])
        if how[5]:
            n.taint = n.taint or how[5]
        n.env[coll_name] = ('coll', tuple(members))
        return [n]

    @staticmethod
    def _covers(ms: FrozenSet[tuple], x: tuple) -> bool:
        cid = x[1][5:] if x[0] == 'one' and isinstance(x[1], str) and x[1].startswith('head:') else x[1] if x[0] in ('tail', 'all') else None
        return cid is not None and ('all', cid) in ms

    # ---- L[i] = t.select(**F[i]) ---------------------------------------------------------------------------------------------
    def rebuilt(self, st: AgState, value: ast.AST) -> tuple:
        """('rebuilt', text, preserved comps, newly established comps, problem note, taint)."""
        txt = pf.nsrc(value)[:60]
        if not (isinstance(value, ast.Call) and isinstance(value.func, ast.Attribute)):
            return ('rebuilt', txt, (), (), None, f'member rebuilt from `{txt}`')
        recv = self.ev(value.func.value, st)
        meth = value.func.attr
        if recv is None or recv[0] != 'tab' or not str(recv[1]).startswith('elt:'):
            return ('rebuilt', txt, (), (), None, f'member rebuilt from `{txt}`')
        keep = PRESERVES.get((self.kind, meth))
        if keep is None:
            return ('rebuilt', txt, (), (), None, f'member rebuilt by the unrecognised method `{meth}`')
        new: Tuple[str, ...] = ()
        problem = None
        taint = None
        if self.kind == 'table' and meth == 'select':
            new = ('keyfirst',)
            # select(**F[i]): the value fields are exactly the entries of the dict F[i], in insertion order
            if not value.args and len(value.keywords) == 1 and value.keywords[0].arg is None and isinstance(value.keywords[0].value, ast.Subscript) \
                    and isinstance(value.keywords[0].value.value, ast.Name) and isinstance(value.keywords[0].value.slice, ast.Name) \
                    and st.env.get(value.keywords[0].value.slice.id, ('',))[0] == 'idx':
                fam = value.keywords[0].value.value.id
                coll = st.env[value.keywords[0].value.slice.id][1]
                status, why = self.dict_family(fam, coll)
                if status == 'ok':
                    new = ('keyfirst', 'row_value.dtype')
                elif status == 'bad':
                    problem = why
                else:
                    taint = why
            else:
                taint = f'fields selected by `{txt}` not analysed'
        return ('rebuilt', txt, tuple(keep), new, problem, taint)

    def dict_family(self, fam: str, coll: str) -> Tuple[str, str]:
        """Do the dicts fam[0..n-1] (one per member of `coll`) have the same keys in the same order with values of one type per key?"""
        ck = (fam, coll)
        if ck in self.family_cache:
            return self.family_cache[ck]
        r = self._dict_family(fam, coll)
        self.family_cache[ck] = r
        return r

    def _dict_family(self, fam: str, coll: str) -> Tuple[str, str]:
        fn = self.fn
        par = self.mod.parents()
        defs = [s for s in ast.walk(fn) if isinstance(s, ast.Assign) and len(s.targets) == 1 and isinstance(s.targets[0], ast.Name) and s.targets[0].id == fam]
        if len(defs) != 1:
            return 'und', f'`{fam}` is not defined exactly once'
        d = defs[0].value
        ok_init = False
        if isinstance(d, ast.ListComp) and len(d.generators) == 1 and not d.generators[0].ifs:
            e_ok = (isinstance(d.elt, ast.Dict) and not d.elt.keys) or (isinstance(d.elt, ast.Call) and pf.dotted(d.elt.func) == 'dict' and not d.elt.args and not d.elt.keywords)
            it = d.generators[0].iter
            it_ok = (isinstance(it, ast.Name) and it.id == coll) or (isinstance(it, ast.Call) and pf.dotted(it.func) == 'range' and len(it.args) == 1
                                                                    and pf.nsrc(it.args[0]) == f'len({coll})')
            ok_init = e_ok and it_ok
        if not ok_init:
            return 'und', f'`{fam}` is not initialised as one empty dict per member of `{coll}`'
        uses = [n for n in ast.walk(fn) if isinstance(n, ast.Name) and n.id == fam and n is not defs[0].targets[0]]
        stores = []
        for u in uses:
            p = par.get(u)
            pp = par.get(p) if p is not None else None
            if isinstance(p, ast.Subscript) and p.value is u and isinstance(pp, ast.Subscript) and pp.value is p and isinstance(pp.ctx, ast.Store):
                stores.append(pp)
            elif isinstance(p, ast.Subscript) and p.value is u and isinstance(p.ctx, ast.Load) and (
                    (isinstance(pp, ast.keyword) and pp.arg is None) or isinstance(pp, ast.Compare)
                    or (isinstance(pp, ast.Call) and pf.dotted(pp.func) in BLIND_CALLS)):
                continue   # read: select(**F[i]), list(F[i]), comparisons
            elif isinstance(p, ast.Subscript) and p.value is u and isinstance(p.ctx, ast.Load):
                # F[i].something / F[i] passed on
                if isinstance(pp, ast.Attribute) and pp.attr in ('keys', 'values', 'items', 'get'):
                    continue
                return 'und', f'`{fam}[...]` is used in `{pf.nsrc(pp)[:50]}`'
            else:
                return 'und', f'`{fam}` is used in `{pf.nsrc(p)[:50]}`'
        if not stores:
            return 'und', f'`{fam}` is never filled'
        for stn in stores:
            idx = stn.value.slice
            key = stn.slice
            asg = par.get(stn)
            if not (isinstance(asg, ast.Assign) and len(asg.targets) == 1 and asg.targets[0] is stn and isinstance(idx, ast.Name)):
                return 'und', f'unrecognised store `{pf.nsrc(asg)[:60]}`'
            inner = par.get(asg)
            cond = None
            if isinstance(inner, ast.If) and isinstance(par.get(inner), ast.For):
                cond = inner
                inner = par.get(inner)
            if not (isinstance(inner, ast.For) and isinstance(inner.target, ast.Name) and inner.target.id == idx.id):
                return 'und', f'store `{pf.nsrc(asg)[:60]}` is not the body of a loop over the members'
            if cond is not None:
                inner_locals = {n.id for b in inner.body for n in ast.walk(b) if isinstance(n, ast.Name) and isinstance(n.ctx, ast.Store)} | {idx.id}
                if not (pf.names_in(cond.test) & inner_locals):
                    pass    # the same decision for every member: the dicts stay uniform
                elif self.type_blind(cond.test) and asg in cond.body:
                    return 'bad', (f'`{pf.nsrc(asg)[:70]}` is executed only for the members with `{pf.nsrc(cond.test)[:50]}`: the other tables get no entry for that field, '
                                   f'so the per-table projections `{fam}[i]` no longer have the same fields')
                else:
                    return 'und', f'conditional store `{pf.nsrc(asg)[:60]}`'
            it = inner.iter
            if not (isinstance(it, ast.Call) and pf.dotted(it.func) == 'range' and len(it.args) == 1 and pf.nsrc(it.args[0]) == f'len({coll})'):
                return 'und', f'the filling loop runs over `{pf.nsrc(it)[:40]}`, not over every member of `{coll}`'
            if any(isinstance(x, (ast.Continue, ast.Break, ast.Return)) for x in ast.walk(inner)):
                return 'und', 'the filling loop can be left early'
            if idx.id in pf.names_in(key):
                return 'bad', f'the field name `{pf.nsrc(key)}` stored into `{fam}[{idx.id}]` depends on the member: the per-table dicts get different fields'
            outer = par.get(inner)
            if not isinstance(outer, ast.For):
                return 'und', 'the filling loop is not nested in a loop over the fields'
            # the value: one type for every member i
            tag = self.value_tag(asg.value, idx.id, outer, inner)
            if tag[0] == 'bad':
                return 'bad', tag[1]
            if tag[0] == 'und':
                return 'und', tag[1]
        return 'ok', ''

    def value_tag(self, v: ast.AST, ivar: str, outer: ast.For, inner: ast.For) -> Tuple[str, str]:
        """Type of the value stored for member `ivar`: ('uni', call) when it is the common type produced by one unify_exprs call."""
        local: Dict[str, ast.AST] = {}
        unified: Dict[str, Tuple[ast.Call, str]] = {}   # name -> (unify call, flag name)
        guard_ok: Set[str] = set()
        body = outer.body
        for s in body:
            if s is inner:
                break
            if isinstance(s, ast.Assign) and len(s.targets) == 1:
                t = s.targets[0]
                if isinstance(t, ast.Name):
                    local[t.id] = s.value
                elif isinstance(t, ast.Tuple) and len(t.elts) == 2 and isinstance(t.elts[0], ast.Starred) and isinstance(t.elts[0].value, ast.Name) \
                        and isinstance(t.elts[1], ast.Name) and isinstance(s.value, ast.Call) and (pf.dotted(s.value.func) or '').split('.')[-1] == 'unify_exprs':
                    unified[t.elts[0].value.id] = (s.value, t.elts[1].id)
            if isinstance(s, ast.If) and not s.orelse and ic._always_exits(s.body) and any(isinstance(x, ast.Raise) for x in s.body):
                if isinstance(s.test, ast.UnaryOp) and isinstance(s.test.op, ast.Not) and isinstance(s.test.operand, ast.Name):
                    guard_ok.add(s.test.operand.id)
            if isinstance(s, ast.Assert) and isinstance(s.test, ast.Name):
                guard_ok.add(s.test.id)

        def only_raw(e: ast.AST) -> bool:
            """e is computed from the raw per-table expressions and from nothing a unification produced."""
            seen: Set[str] = set()
            frontier = set(pf.names_in(e))
            raw_seen = False
            for _ in range(8):
                nxt: Set[str] = set()
                for n in frontier:
                    if n in seen:
                        continue
                    seen.add(n)
                    if n.startswith('__raw__'):
                        raw_seen = True
                    if n in unified:
                        return False
                    if n in local:
                        nxt |= pf.names_in(local[n])
                frontier = nxt
            return raw_seen

        def tag(e: ast.AST, depth: int = 0) -> Tuple[str, str]:
            r = tag1(e, depth)
            if r[0] == 'und' and only_raw(e):
                return ('raw', '')
            return r

        def tag1(e: ast.AST, depth: int = 0) -> Tuple[str, str]:
            if depth > 6:
                return ('und', 'too deep')
            if isinstance(e, ast.Name):
                if e.id.startswith('__raw__'):
                    return ('raw', '')
                if e.id in unified:
                    call, flag = unified[e.id]
                    if flag not in guard_ok:
                        return ('bad', f'the result of `{pf.nsrc(call)[:50]}` is used although `{flag}` is never checked: when the fields cannot be unified the expressions come back un-coerced')
                    return ('uni', e.id)
                if e.id in local:
                    return tag(local[e.id], depth + 1)
                return ('und', f'`{e.id}` not understood')
            if isinstance(e, ast.Subscript):
                b = tag(e.value, depth + 1)
                return b if b[0] in ('uni', 'bad', 'und', 'raw') else ('und', pf.nsrc(e))
            if isinstance(e, ast.Attribute) and e.attr == 'dtype':
                return tag(e.value, depth + 1)
            if isinstance(e, ast.Call):
                d = pf.dotted(e.func) or ''
                last = d.split('.')[-1]
                if last in ('missing', 'null') and len(e.args) == 1:
                    return tag(e.args[0], depth + 1)
                if last == 'dict' and len(e.args) == 1 and isinstance(e.args[0], ast.Call) and pf.dotted(e.args[0].func) == 'zip' and len(e.args[0].args) == 2:
                    return tag(e.args[0].args[1], depth + 1)
                if isinstance(e.func, ast.Attribute) and e.func.attr == 'get' and 1 <= len(e.args) <= 2:
                    a = tag(e.func.value, depth + 1)
                    if len(e.args) == 1:
                        return ('bad', f'`{pf.nsrc(e)}` is None for a member without the field') if a[0] == 'uni' else a
                    b = tag(e.args[1], depth + 1)
                    if a[0] == 'uni' and b[0] == 'uni':
                        return a if a[1] == b[1] else ('bad', f'`{pf.nsrc(e)}`: value and default come from different unifications')
                    for x in (a, b):
                        if x[0] == 'bad':
                            return x
                    for x in (a, b):
                        if x[0] == 'raw':
                            return x
                    return a if a[0] == 'und' else b
                if isinstance(e.func, ast.Attribute) and e.func.attr == 'values' and not e.args:
                    return tag(e.func.value, depth + 1)
                return ('und', f'`{pf.nsrc(e)[:50]}` not understood')
            return ('und', f'`{pf.nsrc(e)[:50]}` not understood')

        # the loop variables of the outer loop that carry the raw (per-table, un-unified) expressions
        raw = {n.id for n in ast.walk(outer.target) if isinstance(n, ast.Name)}
        for name in raw:
            local.setdefault(name, ast.Name(id='__raw__' + name, ctx=ast.Load()))

        r = tag(v)
        if r[0] == 'uni':
            return ('uni', r[1])
        if r[0] == 'raw':
            return ('bad', f'`{pf.nsrc(v)[:60]}` stores the tables\' own field expressions (or a type taken from them), not the expressions unify_exprs coerced to the common type: '
                           f'a field that is int32 in one table and float64 in another keeps both types')
        return r

    # ---- emission ------------------------------------------------------------------------------------------------------
    def emit(self, call: ast.Call, st: AgState) -> None:
        node = self.nodes[(pf.dotted(call.func) or '').split('.')[-1]]
        members: List[tuple] = []
        problem = None
        r = node.cls.resolve('__init__')
        lays = ic.layouts(node.cls)
        if r is None or len(lays) != 1:
            raise AnalysisError(f'{node.cls.key()}: constructor / child layout not recognised')
        ia = r[1].args
        pos_params = [x.arg for x in ia.posonlyargs + ia.args][1:]
        child_names = {sg.name for sg in lays[0].segs}
        bound: List[Tuple[str, ast.AST, bool]] = []
        for i, a in enumerate(call.args):
            if isinstance(a, ast.Starred):
                if ia.vararg is not None and i >= len(pos_params):
                    bound.append((ia.vararg.arg, a.value, True))
                else:
                    problem = f'starred argument `{pf.nsrc(a)[:40]}`'
            elif i < len(pos_params):
                bound.append((pos_params[i], a, False))
            elif ia.vararg is not None:
                bound.append((ia.vararg.arg, a, False))
            else:
                problem = 'too many arguments'
        for kw in call.keywords:
            if kw.arg is None:
                problem = '**kwargs'
            else:
                bound.append((kw.arg, kw.value, False))
        for prm, a, star in bound:
            if prm not in child_names:
                continue
            v = self.ev(a, st)
            if v is None:
                problem = f'child argument `{pf.nsrc(a)[:50]}` not understood'
            elif v[0] == 'coll':
                members += list(v[1])
            elif v[0] == 'tab' and not star:
                members.append(('one', v[1]))
            else:
                problem = f'child argument `{pf.nsrc(a)[:50]}` not understood'
        if not members and not problem:
            problem = 'no children recognised'
        where = f'{self.mod.rel}::{self.qual}::{node.cls.name}'
        path = '\x00PATH\x00'
        private = self.fn.name.startswith('_') and not self.fn.name.startswith('__')
        for comp in node.comps:
            key = f'{where}.{comp} [{path}]'
            if problem:
                self.raw.append((call, AgSiteResult(key, self.mod.path, call.lineno, 'und', problem), dict(st.flags)))
                continue
            alts = IMPLIED_BY[node.kind][comp]
            if any(all(st.covered(c, members) for c in alt) for alt in alts):
                self.raw.append((call, AgSiteResult(key, self.mod.path, call.lineno, 'ok', ''), dict(st.flags)))
                continue
            opaque = [str(m[1]) for m in members if m[0] == 'one' and m[1] in st.opaque]
            why = st.taint or (f'`{opaque[0]}` results from a call this analysis has no summary for' if opaque else None) or \
                ('private helper: the guards may live in its callers' if private else None)
            if why:
                self.raw.append((call, AgSiteResult(key, self.mod.path, call.lineno, 'und', why), dict(st.flags)))
                continue
            have = sorted({c for (c, ms) in st.facts if all(st.covered(c, members) for _ in [0]) and not c.endswith(('.nameset',))})
            need = ' or '.join('{' + ', '.join(alt) + '}' for alt in alts)
            notes = ('; ' + '; '.join(st.notes)) if st.notes else ''
            msg = (f'`{pf.nsrc(call)[:70]}` is emitted on the path [{path}] without the children being known to agree on the {WHAT_DIFFERS.get(comp, comp)}: '
                   f'the engine ({node.where}) requires `{comp}` of every child to equal that of the first, python\'s {node.cls.name}._compute_type never compares the children '
                   f'and the front end reports a type for an IR the engine cannot type. '
                   f'Established on this path for all children: {{{", ".join(have) or "nothing"}}}; needed: {need}{notes} ({WITNESS.get(comp, "")})')
            lacks = ' / '.join('{' + ', '.join(c for c in alt if not st.covered(c, members)) + '}' for alt in alts)
            self.raw.append((call, AgSiteResult(key + ' lacks ' + lacks, self.mod.path, call.lineno, 'bad', msg), dict(st.flags)))

    @staticmethod
    def show_flag(k: str, v: bool) -> str:
        if k.startswith('eq:'):
            _, comp, pair = k.split(':', 2)
            a, b = pair.split('|')
            return f'{a}.{comp} {"==" if v else "!="} {b}.{comp}'
        if k.startswith('allsame:'):
            _, comp, ms = k.split(':', 2)
            return f'{"all" if v else "not all"} {comp} equal'
        return k if v else f'not {k}'

    def run(self) -> List[AgSiteResult]:
        self.block(self.fn.body, [self.entry()])
        # Key of an instance: site, obligation, the boolean parameters decided on the path and - for a violation - which of the facts
        # that would determine the component are missing.  (The full path, including recognised comparisons, is in the message.)
        by_call: Dict[int, List[Tuple[AgSiteResult, Dict[str, bool]]]] = {}
        for call, r, flags in self.raw:
            by_call.setdefault(id(call), []).append((r, flags))
        for lst in by_call.values():
            keys = set()
            for _, fl in lst:
                keys |= set(fl)
            varying = sorted(k for k in keys if len({fl.get(k) for _, fl in lst}) > 1 and 'elt:' not in k)
            all_ok: Dict[str, bool] = {}
            for r, fl in lst:
                base = r.key.split(' lacks ')[0]
                all_ok[base] = all_ok.get(base, True) and r.status == 'ok'
            done: Set[str] = set()
            for r, fl in lst:
                full = ' & '.join(self.show_flag(k, fl[k]) for k in varying if k in fl) or 'every path'
                names = ' & '.join(self.show_flag(k, fl[k]) for k in sorted(fl) if k.isidentifier()) or 'every path'
                if all_ok[r.key.split(' lacks ')[0]]:
                    names = 'every path'
                r.key = r.key.replace('\x00PATH\x00', names)
                r.msg = r.msg.replace('\x00PATH\x00', full)
                if (r.key, r.status) in done:
                    continue
                done.add((r.key, r.status))
                self.results.append(r)
        return self.results


AGREE_QUICK_FILES = ('hail/python/hail/table.py', 'hail/python/hail/matrixtable.py')


def children_agreement_sites(table: ic.Table, thorough: bool = False) -> Tuple[List[AgSiteResult], List[AgreeNode], List[str], int]:
    """Every front-end emission (outside hail/ir) of a node whose children must agree, decided per obligation and per path."""
    from .common import read_repo
    nodes, notes = agreement_nodes(table)
    if not nodes:
        raise AnalysisError(f'{TYPECHECK_SCALA}: no relational node with a cross-child agreement requirement found (TableUnion / MatrixUnionRows arms vanished?)')
    by_name = {n.cls.name: n for n in nodes}
    rels = [r for r in (pf.walk_py([HAIL_PY]) if thorough else AGREE_QUICK_FILES) if not r.startswith(ic.IR_DIR)]
    results: Dict[str, AgSiteResult] = {}
    n_fn = 0
    for rel in rels:
        txt = read_repo(rel)
        if not any((n + '(') in txt for n in by_name):
            continue
        mod = pf.load(rel)
        fns: Dict[int, pf.FuncDef] = {}
        for call in _calls_of(mod, list(by_name)):
            fn = mod.enclosing_func(call)
            if fn is None:
                raise AnalysisError(f'{rel}:{call.lineno}: {pf.nsrc(call)[:40]} emitted at module level')
            # emission inside a nested function / lambda: analyse the outermost function
            fns[id(fn)] = fn
        for fn in fns.values():
            qual = mod.qualname(fn)
            kinds = {by_name[(pf.dotted(c.func) or '').split('.')[-1]].kind for c in _calls_of(mod, list(by_name)) if mod.enclosing_func(c) is fn}
            if len(kinds) != 1:
                raise AnalysisError(f'{rel}::{qual}: emits table and matrix nodes that need agreement - not analysed')
            kind = next(iter(kinds))
            n_fn += 1
            for r in AgreeFlow(mod, fn, qual, by_name, kind).run():
                prev = results.get(r.key)
                rank = {'ok': 0, 'und': 1, 'bad': 2}
                if prev is None or rank[r.status] > rank[prev.status]:
                    results[r.key] = r
    return list(results.values()), nodes, notes, n_fn
