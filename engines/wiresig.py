"""Helpers shared by C32 / C33 / C34: HailType class table, value-class role tables, and the
"wire program" abstraction of `_convert_to_encoding` / `_convert_from_encoding`.

Everything works on `ast` trees of hail/python/hail/expr/types.py and friends; nothing is imported or run.
"""
from __future__ import annotations

import ast
from typing import Any, Dict, List, Optional, Sequence, Tuple

from . import pyfacts as pf
from .common import AnalysisError

TYPES = 'hail/python/hail/expr/types.py'

VALUE_CLASS_FILES = {
    'Locus': 'hail/python/hail/genetics/locus.py',
    'Interval': 'hail/python/hail/utils/interval.py',
    'Call': 'hail/python/hail/genetics/call.py',
}


# --------------------------------------------------------------------------------------
# class table
# --------------------------------------------------------------------------------------


def hail_type_classes(m: pf.Module) -> Dict[str, ast.ClassDef]:
    """Top-level classes of types.py deriving (transitively, by base name inside the module) from HailType, in source order."""
    top = {c.name: c for c in m.tree.body if isinstance(c, ast.ClassDef)}
    if 'HailType' not in top:
        raise AnalysisError(f'anchor vanished: class HailType in {m.rel}')

    def derives(c: ast.ClassDef, seen=()) -> bool:
        for b in c.bases:
            n = pf.dotted(b)
            if n == 'HailType':
                return True
            if n in top and n not in seen and derives(top[n], seen + (n,)):
                return True
        return False

    return {n: c for n, c in top.items() if derives(c)}


def methods(c: ast.ClassDef) -> Dict[str, pf.FuncDef]:
    out: Dict[str, pf.FuncDef] = {}
    for st in c.body:
        if isinstance(st, (ast.FunctionDef, ast.AsyncFunctionDef)):
            out[st.name] = st  # the last definition wins, as in Python
    return out


def body_wo_doc(fn: pf.FuncDef) -> List[ast.stmt]:
    return [s for s in fn.body if not (isinstance(s, ast.Expr) and isinstance(s.value, ast.Constant) and isinstance(s.value.value, str))]


def param_names(fn: pf.FuncDef) -> List[str]:
    return [a.arg for a in fn.args.posonlyargs + fn.args.args]


# --------------------------------------------------------------------------------------
# value classes (Locus / Interval / Call): constructor parameter -> stored attribute, property -> stored attribute
# --------------------------------------------------------------------------------------


class ValueClass:
    def __init__(self, name: str):
        rel = VALUE_CLASS_FILES.get(name)
        if rel is None:
            raise AnalysisError(f'value class {name} is not in the table of known value classes')
        self.name = name
        self.rel = rel
        self.mod = pf.load(rel)
        self.cls = self.mod.cls(name)
        ms = methods(self.cls)
        if '__init__' not in ms:
            raise AnalysisError(f'{rel}::{name} has no __init__')
        init = ms['__init__']
        self.init = init
        self.params = param_names(init)[1:]
        self.kwonly = [a.arg for a in init.args.kwonlyargs]
        # stored: param -> set of attributes assigned *directly* from that parameter name anywhere in __init__
        self.stored: Dict[str, List[str]] = {}
        for st in ast.walk(init):
            if isinstance(st, ast.Assign) and len(st.targets) == 1:
                t = st.targets[0]
                if isinstance(t, ast.Attribute) and isinstance(t.value, ast.Name) and t.value.id == 'self' and isinstance(st.value, ast.Name):
                    self.stored.setdefault(st.value.id, []).append(t.attr)
        # props: property name -> attribute returned
        self.props: Dict[str, str] = {}
        for nm, fn in ms.items():
            if 'property' in pf.decorator_names(fn):
                b = body_wo_doc(fn)
                if len(b) == 1 and isinstance(b[0], ast.Return) and isinstance(b[0].value, ast.Attribute) \
                        and isinstance(b[0].value.value, ast.Name) and b[0].value.value.id == 'self':
                    self.props[nm] = b[0].value.attr

    def param_of_arg(self, call: ast.Call, arg: ast.expr) -> str:
        """Name of the constructor parameter that receives `arg` (a positional or keyword argument node of `call`)."""
        for i, a in enumerate(call.args):
            if a is arg:
                if isinstance(a, ast.Starred) or i >= len(self.params):
                    raise AnalysisError(f'{self.name}(...): cannot map positional argument {i}')
                return self.params[i]
        for kw in call.keywords:
            if kw.value is arg:
                if kw.arg is None or kw.arg not in self.params + self.kwonly:
                    raise AnalysisError(f'{self.name}(...): unknown keyword {kw.arg}')
                return kw.arg
        raise AnalysisError(f'{self.name}(...): argument not found')

    def attr_for_param(self, p: str) -> Optional[str]:
        a = self.stored.get(p, [])
        return a[0] if len(set(a)) == 1 else None

    def attr_for_prop(self, p: str) -> Optional[str]:
        return self.props.get(p)


_vc_cache: Dict[str, ValueClass] = {}


def value_class(name: str) -> ValueClass:
    if name not in _vc_cache:
        _vc_cache[name] = ValueClass(name)
    return _vc_cache[name]


def value_class_of_call(call: ast.Call) -> Optional[str]:
    """`genetics.Locus(...)`, `Interval(...)`, `hl.Interval(...)`, `genetics.Call(...)` -> class name."""
    d = pf.dotted(call.func)
    if d is None:
        return None
    last = d.split('.')[-1]
    return last if last in VALUE_CLASS_FILES else None


# --------------------------------------------------------------------------------------
# generic AST helpers
# --------------------------------------------------------------------------------------


def mentions(node: ast.AST, name: str) -> bool:
    return any(isinstance(n, ast.Name) and n.id == name for n in ast.walk(node))


def const_int(e: ast.AST) -> Optional[int]:
    """Evaluate an integer constant expression built from literals and + - * ** << | (no names)."""
    if isinstance(e, ast.Constant) and isinstance(e.value, int) and not isinstance(e.value, bool):
        return e.value
    if isinstance(e, ast.UnaryOp) and isinstance(e.op, ast.USub):
        v = const_int(e.operand)
        return None if v is None else -v
    if isinstance(e, ast.BinOp):
        a, b = const_int(e.left), const_int(e.right)
        if a is None or b is None:
            return None
        if isinstance(e.op, ast.Add):
            return a + b
        if isinstance(e.op, ast.Sub):
            return a - b
        if isinstance(e.op, ast.Mult):
            return a * b
        if isinstance(e.op, ast.Pow) and 0 <= b <= 128:
            return a**b
        if isinstance(e.op, ast.LShift) and 0 <= b <= 128:
            return a << b
        if isinstance(e.op, ast.BitOr):
            return a | b
    return None


# --------------------------------------------------------------------------------------
# wire programs
# --------------------------------------------------------------------------------------
#
# A wire program is a list of items (plain tuples) describing, in stream order, what a converter writes / reads:
#   ('prim', kind, info)            kind in i32 i64 f32 f64 bool byte ; info: dict(arg=ast|None, bind=name|None, node=ast)
#   ('bytes', info)                 info: dict(arg=ast (writer: the bytes written / reader: the byte count), view=bool, node=ast, bind=name|None)
#   ('rec', target_ast, info)       delegated converter call on another type object; info: dict(arg=ast|None, kwargs={...}, node=ast)
#   ('loop', info, body)            info: dict(iter=ast, target=ast|None, kind='for'|'comp'|'while', node=ast, count=ast|None, step=ast|None)
#   ('cond', test_ast, then, else, info)
#   ('missing_w', info)             the writer's missing-byte loop, info: dict(n=ast, step=int|None, chunk=int|None, shift=ast, subject=ast, idx=ast, node=ast, init=ast)
#   ('raise',)                      the converter unconditionally raises (unsupported type)

WRITE_KINDS = {'write_int32': 'i32', 'write_int64': 'i64', 'write_float32': 'f32', 'write_float64': 'f64', 'write_bool': 'bool', 'write_byte': 'byte'}
READ_KINDS = {'read_int32': 'i32', 'read_int64': 'i64', 'read_float32': 'f32', 'read_float64': 'f64', 'read_bool': 'bool'}


def _only_raises(fn: pf.FuncDef) -> bool:
    b = body_wo_doc(fn)
    return len(b) == 1 and isinstance(b[0], ast.Raise)


class Extractor:
    def __init__(self, m: pf.Module, cls: str, fn: pf.FuncDef, side: str):
        self.m = m
        self.cls = cls
        self.fn = fn
        self.side = side  # 'w' | 'r'
        self.where = f'{m.rel}::{cls}.{fn.name}'
        ps = param_names(fn)
        if fn.args.vararg is not None or len(ps) < 2:
            self.stream = None
            self.value = None
        else:
            self.stream = ps[1]
            self.value = ps[2] if len(ps) > 2 and side == 'w' else None

    def fail(self, node: Optional[ast.AST], msg: str):
        ln = getattr(node, 'lineno', self.fn.lineno)
        raise AnalysisError(f'{self.where} (line {ln}): {msg}')

    def program(self) -> List[tuple]:
        if _only_raises(self.fn):
            return [('raise',)]
        if self.stream is None:
            self.fail(self.fn, 'unrecognised parameter list')
        return self.seq(body_wo_doc(self.fn))

    # -- statements --------------------------------------------------------
    def seq(self, stmts: Sequence[ast.stmt]) -> List[tuple]:
        out: List[tuple] = []
        for idx, st in enumerate(stmts):
            if isinstance(st, (ast.FunctionDef, ast.AsyncFunctionDef, ast.ClassDef)):
                if mentions(st, self.stream):
                    self.fail(st, 'nested definition touches the byte stream (unrecognised idiom)')
                continue
            if not mentions(st, self.stream):
                continue
            if isinstance(st, ast.While):
                if self.side == 'w':
                    out.append(self.missing_writer(st, stmts[:idx]))
                else:
                    out.append(self.while_reader(st, stmts[:idx]))
            elif isinstance(st, ast.For):
                if st.orelse:
                    self.fail(st, 'for/else around stream operations')
                if mentions(st.iter, self.stream):
                    self.fail(st, 'loop iterable touches the byte stream')
                out.append(('loop', dict(iter=st.iter, target=st.target, kind='for', node=st), self.seq(st.body)))
            elif isinstance(st, ast.If):
                if mentions(st.test, self.stream):
                    self.fail(st, 'branch condition reads the byte stream')
                out.append(('cond', st.test, self.seq(st.body), self.seq(st.orelse), dict(node=st)))
            elif isinstance(st, ast.Assign):
                if len(st.targets) != 1:
                    self.fail(st, 'multiple assignment targets around a stream operation')
                bind = st.targets[0].id if isinstance(st.targets[0], ast.Name) else None
                out += self.expr(st.value, bind, st)
            elif isinstance(st, ast.AnnAssign) and st.value is not None:
                bind = st.target.id if isinstance(st.target, ast.Name) else None
                out += self.expr(st.value, bind, st)
            elif isinstance(st, (ast.Expr, ast.Return)):
                if st.value is None:
                    continue
                out += self.expr(st.value, None, st)
            else:
                self.fail(st, f'unrecognised statement kind {type(st).__name__} touching the byte stream')
        return out

    # -- expressions (evaluation order) ------------------------------------
    def expr(self, e: ast.AST, bind: Optional[str], st: ast.stmt) -> List[tuple]:
        """Stream operations performed while evaluating e, in evaluation order.  `bind` is the name the *whole* value is assigned to."""
        if not mentions(e, self.stream):
            return []
        if isinstance(e, ast.Call):
            f = e.func
            if isinstance(f, ast.Attribute) and isinstance(f.value, ast.Name) and f.value.id == self.stream:
                for a in list(e.args) + [k.value for k in e.keywords]:
                    if mentions(a, self.stream):
                        self.fail(e, 'nested stream operation inside the argument of a stream operation')
                return [self.stream_op(e, f.attr, bind)]
            conv = '_convert_to_encoding' if self.side == 'w' else '_convert_from_encoding'
            if isinstance(f, ast.Attribute) and f.attr == conv and e.args and isinstance(e.args[0], ast.Name) and e.args[0].id == self.stream:
                rest = list(e.args[1:]) + [k.value for k in e.keywords]
                if mentions(f.value, self.stream) or any(mentions(a, self.stream) for a in rest):
                    self.fail(e, 'delegated converter call with a nested stream operation')
                info = dict(arg=e.args[1] if len(e.args) > 1 else None, args=list(e.args[1:]), kwargs={k.arg: k.value for k in e.keywords}, node=e, bind=bind)
                return [('rec', f.value, info)]
            # ordinary call: callee expression first, then arguments left to right
            out = self.expr(f, None, st)
            for a in e.args:
                out += self.expr(a.value if isinstance(a, ast.Starred) else a, None, st)
            for k in e.keywords:
                out += self.expr(k.value, None, st)
            # the stream object itself must not escape into an unknown callee
            for a in list(e.args) + [k.value for k in e.keywords]:
                if isinstance(a, ast.Name) and a.id == self.stream:
                    self.fail(e, f'byte stream passed to an unrecognised callee `{pf.nsrc(f)}`')
            return out
        if isinstance(e, (ast.ListComp, ast.GeneratorExp, ast.SetComp)):
            if len(e.generators) != 1 or e.generators[0].ifs or e.generators[0].is_async:
                self.fail(e, 'comprehension with several generators / filters around a stream operation')
            g = e.generators[0]
            if mentions(g.iter, self.stream):
                self.fail(e, 'comprehension iterable reads the byte stream')
            body = self.expr(e.elt, None, st)
            return [('loop', dict(iter=g.iter, target=g.target, kind='comp', node=e, bind=bind), body)]
        if isinstance(e, ast.Attribute):
            return self.expr(e.value, None, st)
        if isinstance(e, ast.Subscript):
            return self.expr(e.value, None, st) + self.expr(e.slice, None, st)
        if isinstance(e, ast.BinOp):
            return self.expr(e.left, None, st) + self.expr(e.right, None, st)
        if isinstance(e, ast.UnaryOp):
            return self.expr(e.operand, None, st)
        if isinstance(e, (ast.Tuple, ast.List)):
            out: List[tuple] = []
            for x in e.elts:
                out += self.expr(x, None, st)
            return out
        if isinstance(e, ast.Compare) and len(e.ops) == 1:
            return self.expr(e.left, None, st) + self.expr(e.comparators[0], None, st)
        if isinstance(e, ast.IfExp):
            if mentions(e.test, self.stream):
                self.fail(e, 'conditional expression tests the byte stream')
            return [('cond', e.test, self.expr(e.body, None, st), self.expr(e.orelse, None, st), dict(node=e))]
        self.fail(e, f'unrecognised expression kind {type(e).__name__} touching the byte stream: `{pf.nsrc(e)[:80]}`')
        return []

    def stream_op(self, call: ast.Call, attr: str, bind: Optional[str]) -> tuple:
        if self.side == 'w':
            if attr in WRITE_KINDS:
                if len(call.args) != 1 or call.keywords:
                    self.fail(call, f'{attr} with unexpected arguments')
                return ('prim', WRITE_KINDS[attr], dict(arg=call.args[0], bind=None, node=call))
            if attr == 'write_bytes':
                if len(call.args) != 1 or call.keywords:
                    self.fail(call, 'write_bytes with unexpected arguments')
                return ('bytes', dict(arg=call.args[0], view=False, node=call, bind=None))
        else:
            if attr in READ_KINDS:
                if call.args or call.keywords:
                    self.fail(call, f'{attr} with unexpected arguments')
                return ('prim', READ_KINDS[attr], dict(arg=None, bind=bind, node=call))
            if attr in ('read_bytes', 'read_bytes_view'):
                if len(call.args) != 1 or call.keywords:
                    self.fail(call, f'{attr} with unexpected arguments')
                return ('bytes', dict(arg=call.args[0], view=attr == 'read_bytes_view', node=call, bind=bind))
        self.fail(call, f'unknown byte-stream operation `{attr}` on the {"writer" if self.side == "w" else "reader"} side')
        return ('raise',)

    # -- idioms ---------------------------------------------------------------
    def _counter_init(self, name: str, before: Sequence[ast.stmt]) -> Optional[ast.expr]:
        init = None
        for st in before:
            if isinstance(st, ast.Assign) and len(st.targets) == 1 and isinstance(st.targets[0], ast.Name) and st.targets[0].id == name:
                init = st.value
        return init

    def _counted_while(self, st: ast.While, before: Sequence[ast.stmt]) -> Tuple[str, ast.expr, ast.expr, ast.AugAssign, List[ast.stmt]]:
        """`i = <init>` ... `while i < N: body ; i += step`  ->  (i, init, N, increment statement, body without the increment)."""
        t = st.test
        if st.orelse or not (isinstance(t, ast.Compare) and len(t.ops) == 1 and isinstance(t.ops[0], ast.Lt) and isinstance(t.left, ast.Name)):
            self.fail(st, 'while loop around stream operations is not of the form `while i < N`')
        i = t.left.id
        init = self._counter_init(i, before)
        if init is None:
            self.fail(st, f'no initialisation of loop counter `{i}` before the while loop')
        incs = [s for s in ast.walk(st) if isinstance(s, (ast.AugAssign, ast.Assign)) and any(isinstance(x, ast.Name) and x.id == i and isinstance(x.ctx, ast.Store) for x in ast.walk(s))]
        last = st.body[-1]
        if len(incs) != 1 or incs[0] is not last or not isinstance(last, ast.AugAssign) or not isinstance(last.op, ast.Add):
            self.fail(st, f'loop counter `{i}` is not advanced by exactly one trailing `{i} += step`')
        for n in ast.walk(st):
            if isinstance(n, (ast.Break, ast.Continue)):
                self.fail(st, 'break/continue in a counted stream loop')
        return i, init, t.comparators[0], last, st.body[:-1]

    def missing_writer(self, st: ast.While, before: Sequence[ast.stmt]) -> tuple:
        i, init, n, inc, body = self._counted_while(st, before)
        # body: acc = 0 ; for j in range(min(C, N - i)): if <missing>(subject[idx]): acc |= 1 << f(j) ; write_byte(acc)
        if len(body) != 3 or not (isinstance(body[0], ast.Assign) and isinstance(body[1], ast.For) and isinstance(body[2], ast.Expr)):
            self.fail(st, 'while loop on the writer side is not the recognised missing-byte idiom (acc = 0; for …; write_byte(acc))')
        acc_st, for_st, wr_st = body
        if not (len(acc_st.targets) == 1 and isinstance(acc_st.targets[0], ast.Name)):
            self.fail(acc_st, 'unrecognised accumulator initialisation')
        acc = acc_st.targets[0].id
        wr = wr_st.value
        if not (isinstance(wr, ast.Call) and isinstance(wr.func, ast.Attribute) and isinstance(wr.func.value, ast.Name) and wr.func.value.id == self.stream
                and len(wr.args) == 1 and isinstance(wr.args[0], ast.Name) and wr.args[0].id == acc):
            self.fail(wr_st, 'missing-byte loop does not end by writing the accumulator')
        j = for_st.target.id if isinstance(for_st.target, ast.Name) else None
        rng = for_st.iter
        chunk = None
        rng_ok = False
        if j and isinstance(rng, ast.Call) and pf.dotted(rng.func) == 'range' and len(rng.args) == 1:
            a = rng.args[0]
            if isinstance(a, ast.Call) and pf.dotted(a.func) == 'min' and len(a.args) == 2:
                consts = [x for x in a.args if const_int(x) is not None]
                others = [x for x in a.args if const_int(x) is None]
                if len(consts) == 1 and len(others) == 1:
                    chunk = const_int(consts[0])
                    o = others[0]
                    rng_ok = isinstance(o, ast.BinOp) and isinstance(o.op, ast.Sub) and pf.nsrc(o.left) == pf.nsrc(n) and pf.nsrc(o.right) == i
        if not rng_ok:
            self.fail(for_st, 'inner loop of the missing-byte idiom is not `for j in range(min(C, N - i))`')
        if len(for_st.body) != 1 or not isinstance(for_st.body[0], ast.If) or for_st.body[0].orelse or len(for_st.body[0].body) != 1:
            self.fail(for_st, 'inner loop body of the missing-byte idiom is not a single `if missing(...): acc |= bit`')
        iff = for_st.body[0]
        setbit = iff.body[0]
        if not (isinstance(setbit, ast.AugAssign) and isinstance(setbit.op, ast.BitOr) and isinstance(setbit.target, ast.Name) and setbit.target.id == acc):
            self.fail(setbit, 'missing-byte idiom does not OR a bit into the accumulator')
        test = iff.test
        if not (isinstance(test, ast.Call) and pf.dotted(test.func) in ('HailType._missing', 'self._missing') and len(test.args) == 1):
            self.fail(iff, 'missing-byte idiom does not test HailType._missing(<element>)')
        info = dict(n=n, init=init, step=const_int(inc.value), chunk=chunk, acc_init=acc_st.value, bit=setbit.value, j=j, i=i,
                    subject=test.args[0], write=wr.func.attr, node=st)
        return ('missing_w', info)

    def while_reader(self, st: ast.While, before: Sequence[ast.stmt]) -> tuple:
        i, init, n, inc, body = self._counted_while(st, before)
        info = dict(iter=None, target=ast.Name(id=i, ctx=ast.Load()), kind='while', node=st, count=n, step=inc.value, init=init, counter=i)
        return ('loop', info, self.seq(body))


def flatten_prims(prog: Sequence[tuple]) -> List[tuple]:
    out = []
    for it in prog:
        if it[0] in ('prim', 'bytes', 'rec', 'missing_w'):
            out.append(it)
        elif it[0] == 'loop':
            out += flatten_prims(it[2])
        elif it[0] == 'cond':
            out += flatten_prims(it[2]) + flatten_prims(it[3])
    return out


def show_program(prog: Sequence[tuple]) -> str:
    parts = []
    for it in prog:
        k = it[0]
        if k == 'prim':
            parts.append(it[1].upper())
        elif k == 'bytes':
            parts.append('BYTES(' + pf.nsrc(it[1]['arg'])[:40] + ')')
        elif k == 'rec':
            parts.append('REC(' + pf.nsrc(it[1]) + ')')
        elif k == 'loop':
            inf = it[1]
            dom = pf.nsrc(inf['iter']) if inf.get('iter') is not None else 'count ' + pf.nsrc(inf['count'])
            parts.append(f'LOOP[{dom[:50]}]{{' + show_program(it[2]) + '}')
        elif k == 'cond':
            parts.append(f'IF[{pf.nsrc(it[1])[:50]}]{{' + show_program(it[2]) + '}{' + show_program(it[3]) + '}')
        elif k == 'missing_w':
            parts.append('MISSINGBYTES(' + pf.nsrc(it[1]['n']) + ')')
        elif k == 'raise':
            parts.append('RAISE')
    return ' '.join(parts)
