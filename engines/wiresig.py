"""Helpers shared by C32 / C33 / C34: HailType class table, value-class role tables, and the
"wire program" abstraction of `_convert_to_encoding` / `_convert_from_encoding`.

Everything works on `ast` trees of hail/python/hail/expr/types.py and friends; nothing is imported or run.

Further down (added for the strengthened rules):
  * TypeTables / Guard        - which HailType classes a test on a type object admits (is_numeric(t), isinstance, `t in _numeric_types`, ...),
                                evaluated from the module's own class-set tables; dead guards carry the reason
  * codec_state               - purity / memo-key analysis of converter methods (state that outlives a call, key atoms vs value atoms)
  * inline_stream_helpers     - converters analysed with the helpers that receive the byte stream inlined (engines/inline.py does the rewriting)
  * MissingBitsEval / check_missing_region  - own interpreter for the statements that pack missing bits, over a symbolic missingness vector
  * MissingBitsReadEval / check_missing_reader - the same for decoders: symbolic missing bytes, which symbol guards the k-th delegated decode
  * type_params_passed        - value-class constructor parameters that are parameters of the Hail type must come from self
  * MAP_BASE / _MapKey        - MissingBitsEval: entries of a view of a Mapping value (value.values() / .items() / .keys()) are slots in the value's OWN
                                iteration order (symbols >= MAP_BASE), distinct from the declared slots; check_missing_region reports a header built from them
  * packed_read_summary       - composite reader operation of the stream class that unpacks `count` values of one struct code -> one 'packed' wire item
"""
from __future__ import annotations

import ast
import copy
from typing import Any, Dict, List, Optional, Sequence, Set, Tuple

from . import pyfacts as pf
from .common import AnalysisError

TYPES = 'hail/python/hail/expr/types.py'

VALUE_CLASS_FILES = {
    'Locus': 'hail/python/hail/genetics/locus.py',
    'Interval': 'hail/python/hail/utils/interval.py',
    'Call': 'hail/python/hail/genetics/call.py',
}


# --------------------------------------------------------------------------------------
# class table
# --------------------------------------------------------------------------------------


def hail_type_classes(m: pf.Module) -> Dict[str, ast.ClassDef]:
    """Top-level classes of types.py deriving (transitively, by base name inside the module) from HailType, in source order."""
    top = {c.name: c for c in m.tree.body if isinstance(c, ast.ClassDef)}
    if 'HailType' not in top:
        raise AnalysisError(f'anchor vanished: class HailType in {m.rel}')

    def derives(c: ast.ClassDef, seen=()) -> bool:
        for b in c.bases:
            n = pf.dotted(b)
            if n == 'HailType':
                return True
            if n in top and n not in seen and derives(top[n], seen + (n,)):
                return True
        return False

    return {n: c for n, c in top.items() if derives(c)}


def methods(c: ast.ClassDef) -> Dict[str, pf.FuncDef]:
    out: Dict[str, pf.FuncDef] = {}
    for st in c.body:
        if isinstance(st, (ast.FunctionDef, ast.AsyncFunctionDef)):
            out[st.name] = st  # the last definition wins, as in Python
    return out


def body_wo_doc(fn: pf.FuncDef) -> List[ast.stmt]:
    return [s for s in fn.body if not (isinstance(s, ast.Expr) and isinstance(s.value, ast.Constant) and isinstance(s.value.value, str))]


def param_names(fn: pf.FuncDef) -> List[str]:
    return [a.arg for a in fn.args.posonlyargs + fn.args.args]


# --------------------------------------------------------------------------------------
# value classes (Locus / Interval / Call): constructor parameter -> stored attribute, property -> stored attribute
# --------------------------------------------------------------------------------------


class ValueClass:
    def __init__(self, name: str):
        rel = VALUE_CLASS_FILES.get(name)
        if rel is None:
            raise AnalysisError(f'value class {name} is not in the table of known value classes')
        self.name = name
        self.rel = rel
        self.mod = pf.load(rel)
        self.cls = self.mod.cls(name)
        ms = methods(self.cls)
        if '__init__' not in ms:
            raise AnalysisError(f'{rel}::{name} has no __init__')
        init = ms['__init__']
        self.init = init
        self.params = param_names(init)[1:]
        self.kwonly = [a.arg for a in init.args.kwonlyargs]
        # stored: param -> set of attributes assigned *directly* from that parameter name anywhere in __init__
        self.stored: Dict[str, List[str]] = {}
        for st in ast.walk(init):
            if isinstance(st, ast.Assign) and len(st.targets) == 1:
                t = st.targets[0]
                if isinstance(t, ast.Attribute) and isinstance(t.value, ast.Name) and t.value.id == 'self' and isinstance(st.value, ast.Name):
                    self.stored.setdefault(st.value.id, []).append(t.attr)
        # props: property name -> attribute returned
        self.props: Dict[str, str] = {}
        for nm, fn in ms.items():
            if 'property' in pf.decorator_names(fn):
                b = body_wo_doc(fn)
                if len(b) == 1 and isinstance(b[0], ast.Return) and isinstance(b[0].value, ast.Attribute) \
                        and isinstance(b[0].value.value, ast.Name) and b[0].value.value.id == 'self':
                    self.props[nm] = b[0].value.attr

    def param_of_arg(self, call: ast.Call, arg: ast.expr) -> str:
        """Name of the constructor parameter that receives `arg` (a positional or keyword argument node of `call`)."""
        for i, a in enumerate(call.args):
            if a is arg:
                if isinstance(a, ast.Starred) or i >= len(self.params):
                    raise AnalysisError(f'{self.name}(...): cannot map positional argument {i}')
                return self.params[i]
        for kw in call.keywords:
            if kw.value is arg:
                if kw.arg is None or kw.arg not in self.params + self.kwonly:
                    raise AnalysisError(f'{self.name}(...): unknown keyword {kw.arg}')
                return kw.arg
        raise AnalysisError(f'{self.name}(...): argument not found')

    def attr_for_param(self, p: str) -> Optional[str]:
        a = self.stored.get(p, [])
        return a[0] if len(set(a)) == 1 else None

    def attr_for_prop(self, p: str) -> Optional[str]:
        return self.props.get(p)


_vc_cache: Dict[str, ValueClass] = {}


def value_class(name: str) -> ValueClass:
    if name not in _vc_cache:
        _vc_cache[name] = ValueClass(name)
    return _vc_cache[name]


def value_class_of_call(call: ast.Call) -> Optional[str]:
    """`genetics.Locus(...)`, `Interval(...)`, `hl.Interval(...)`, `genetics.Call(...)` -> class name."""
    d = pf.dotted(call.func)
    if d is None:
        return None
    last = d.split('.')[-1]
    return last if last in VALUE_CLASS_FILES else None


# --------------------------------------------------------------------------------------
# generic AST helpers
# --------------------------------------------------------------------------------------


def mentions(node: ast.AST, name: str) -> bool:
    return any(isinstance(n, ast.Name) and n.id == name for n in ast.walk(node))


def const_int(e: ast.AST) -> Optional[int]:
    """Evaluate an integer constant expression built from literals and + - * ** << | (no names)."""
    if isinstance(e, ast.Constant) and isinstance(e.value, int) and not isinstance(e.value, bool):
        return e.value
    if isinstance(e, ast.UnaryOp) and isinstance(e.op, ast.USub):
        v = const_int(e.operand)
        return None if v is None else -v
    if isinstance(e, ast.BinOp):
        a, b = const_int(e.left), const_int(e.right)
        if a is None or b is None:
            return None
        if isinstance(e.op, ast.Add):
            return a + b
        if isinstance(e.op, ast.Sub):
            return a - b
        if isinstance(e.op, ast.Mult):
            return a * b
        if isinstance(e.op, ast.Pow) and 0 <= b <= 128:
            return a**b
        if isinstance(e.op, ast.LShift) and 0 <= b <= 128:
            return a << b
        if isinstance(e.op, ast.BitOr):
            return a | b
    return None


# --------------------------------------------------------------------------------------
# wire programs
# --------------------------------------------------------------------------------------
#
# A wire program is a list of items (plain tuples) describing, in stream order, what a converter writes / reads:
#   ('prim', kind, info)            kind in i32 i64 f32 f64 bool byte ; info: dict(arg=ast|None, bind=name|None, node=ast)
#   ('bytes', info)                 info: dict(arg=ast (writer: the bytes written / reader: the byte count), view=bool, node=ast, bind=name|None)
#   ('rec', target_ast, info)       delegated converter call on another type object; info: dict(arg=ast|None, kwargs={...}, node=ast)
#   ('loop', info, body)            info: dict(iter=ast, target=ast|None, kind='for'|'comp'|'while', node=ast, count=ast|None, step=ast|None)
#   ('cond', test_ast, then, else, info)
#   ('missing_w', info)             the writer's missing-byte loop, info: dict(n=ast, step=int|None, chunk=int|None, shift=ast, subject=ast, idx=ast, node=ast, init=ast)
#   ('raise',)                      the converter unconditionally raises (unsupported type)
#   ('packed', info)                reader: a composite stream operation that unpacks `count` consecutive values of ONE struct code (summarised
#                                   from the stream class by packed_read_summary); info: dict(count=ast, code=ast, order=str, op=name, node=ast, bind=name|None)

WRITE_KINDS = {'write_int32': 'i32', 'write_int64': 'i64', 'write_float32': 'f32', 'write_float64': 'f64', 'write_bool': 'bool', 'write_byte': 'byte'}
READ_KINDS = {'read_int32': 'i32', 'read_int64': 'i64', 'read_float32': 'f32', 'read_float64': 'f64', 'read_bool': 'bool'}
PACK_KINDS = {'i': 'i32', 'q': 'i64', 'f': 'f32', 'd': 'f64', 'B': 'byte'}   # struct codes (standard sizes, '=' / '<') of the primitives
STREAM_FILE = 'hail/python/hail/utils/byte_reader.py'
PRIMITIVE_STREAM_OPS = set(WRITE_KINDS) | set(READ_KINDS) | {'write_bytes', 'read_bytes', 'read_bytes_view'}


def _always_exits(stmts: Sequence[ast.stmt]) -> bool:
    for st in stmts:
        if isinstance(st, (ast.Return, ast.Raise)):
            return True
        if isinstance(st, ast.If) and st.orelse and _always_exits(st.body) and _always_exits(st.orelse):
            return True
    return False


def _only_raise(stmts: Sequence[ast.stmt]) -> bool:
    return len(stmts) >= 1 and isinstance(stmts[-1], ast.Raise) and not any(isinstance(n, ast.Return) for st in stmts for n in ast.walk(st))


def _only_raises(fn: pf.FuncDef) -> bool:
    b = body_wo_doc(fn)
    return len(b) == 1 and isinstance(b[0], ast.Raise)


_PACKED_CACHE: Dict[tuple, Optional[dict]] = {}


def reader_cursor_attrs(c: ast.ClassDef) -> Optional[Tuple[str, str]]:
    """(buffer attribute, offset attribute) of the reader class, taken from read_bytes_view: `self.<buf>[self.<off> : self.<off> + n]`, `self.<off> += n`."""
    fn = methods(c).get('read_bytes_view')
    if fn is None:
        return None
    ps = param_names(fn)
    if len(ps) != 2:
        return None
    sls = [x for x in ast.walk(fn) if isinstance(x, ast.Subscript) and isinstance(x.slice, ast.Slice)]
    incs = [x for x in ast.walk(fn) if isinstance(x, ast.AugAssign)]
    if len(sls) != 1 or len(incs) != 1:
        return None
    sl = sls[0]
    if not (isinstance(sl.value, ast.Attribute) and isinstance(sl.value.value, ast.Name) and sl.value.value.id == ps[0] and isinstance(sl.slice.lower, ast.Attribute)
            and isinstance(sl.slice.lower.value, ast.Name) and sl.slice.lower.value.id == ps[0] and pf.nsrc(incs[0].target) == pf.nsrc(sl.slice.lower)):
        return None
    return sl.value.attr, sl.slice.lower.attr


def packed_read_summary(m: pf.Module, op: str) -> Optional[dict]:
    """Summary of a composite READER operation `op` of the stream class that unpacks `count` consecutive values of one struct code:
    dict(order=<struct order character>, count=<parameter name>, code=<parameter name>, params=[names after self], line=int), or None when `op`
    is not such an operation.  Decided by a straight-line symbolic evaluation of the method body: a format string <order><count><code> built from
    two parameters, unpacked (struct.Struct(F).unpack_from / struct.unpack_from / struct.unpack of the slice [off : off + size(F)]) from the reader's
    buffer at its current offset, the offset advanced once by exactly size(F) (S.size / struct.calcsize(F)), the unpacked tuple returned."""
    key = (id(m), op)
    if key in _PACKED_CACHE:
        return _PACKED_CACHE[key]
    _PACKED_CACHE[key] = None
    c = stream_class(m, 'r')
    if c is None or op not in methods(c) or op in PRIMITIVE_STREAM_OPS:
        return None
    fn = methods(c)[op]
    cur = reader_cursor_attrs(c)
    if cur is None or pf.decorator_names(fn) or fn.args.vararg or fn.args.kwarg or fn.args.kwonlyargs:
        return None
    buf_attr, off_attr = cur
    ps = param_names(fn)
    if len(ps) < 3:
        return None
    selfname, params = ps[0], ps[1:]
    env: Dict[str, tuple] = {p_: ('param', p_) for p_ in params}
    state = {'read': None, 'advanced': None, 'ret': None}

    def is_self_attr(e: ast.AST, a: str) -> bool:
        return isinstance(e, ast.Attribute) and e.attr == a and isinstance(e.value, ast.Name) and e.value.id == selfname

    def fmt_of(parts: List[Any]) -> Optional[tuple]:
        # parts: str constants / ('param', p) in order
        if len(parts) == 3 and isinstance(parts[0], str) and len(parts[0]) == 1 and parts[0] in '=<>!@' and all(isinstance(x, tuple) and x[0] == 'param' for x in parts[1:]):
            return ('fmt', parts[0], parts[1][1], parts[2][1])
        return None

    def ev(e: ast.AST) -> Optional[tuple]:
        if isinstance(e, ast.Name):
            return env.get(e.id)
        if isinstance(e, ast.JoinedStr):
            parts: List[Any] = []
            for v in e.values:
                if isinstance(v, ast.Constant) and isinstance(v.value, str):
                    parts.append(v.value)
                elif isinstance(v, ast.FormattedValue) and v.format_spec is None and v.conversion in (-1, 115) and isinstance(v.value, ast.Name):
                    parts.append(env.get(v.value.id))
                else:
                    return None
            return fmt_of(parts)
        if isinstance(e, ast.BinOp) and isinstance(e.op, ast.Add):
            flat: List[ast.AST] = []

            def fl(x: ast.AST) -> None:
                if isinstance(x, ast.BinOp) and isinstance(x.op, ast.Add):
                    fl(x.left)
                    fl(x.right)
                else:
                    flat.append(x)
            fl(e)
            parts = []
            for x in flat:
                if isinstance(x, ast.Constant) and isinstance(x.value, str):
                    parts.append(x.value)
                elif isinstance(x, ast.Call) and pf.dotted(x.func) == 'str' and len(x.args) == 1 and isinstance(x.args[0], ast.Name):
                    parts.append(env.get(x.args[0].id))
                elif isinstance(x, ast.Name):
                    parts.append(env.get(x.id))
                else:
                    return None
            return fmt_of(parts)
        if isinstance(e, ast.Attribute):
            if is_self_attr(e, buf_attr):
                return ('buf',)
            if is_self_attr(e, off_attr):
                return ('off',)
            b = ev(e.value)
            if b is not None and b[0] == 'structobj' and e.attr == 'size':
                return ('size', b[1])
            return None
        if isinstance(e, ast.Call):
            d = pf.dotted(e.func)
            args = [ev(a) for a in e.args]
            kw = {k.arg: ev(k.value) for k in e.keywords}
            if d == 'struct.Struct' and len(args) == 1 and not kw and args[0] is not None and args[0][0] == 'fmt':
                return ('structobj', args[0])
            if d == 'struct.calcsize' and len(args) == 1 and not kw and args[0] is not None and args[0][0] == 'fmt':
                return ('size', args[0])
            if d in ('tuple', 'list') and len(args) == 1 and not kw and args[0] is not None and args[0][0] == 'unpacked':
                return args[0]
            f_: Optional[tuple] = None
            rest: List[Optional[tuple]] = []
            if d == 'struct.unpack_from' and args and args[0] is not None and args[0][0] == 'fmt':
                f_, rest, how = args[0], args[1:], 'from'
            elif d == 'struct.unpack' and args and args[0] is not None and args[0][0] == 'fmt':
                f_, rest, how = args[0], args[1:], 'slice'
            elif isinstance(e.func, ast.Attribute) and e.func.attr in ('unpack_from', 'unpack'):
                so = ev(e.func.value)
                if so is not None and so[0] == 'structobj':
                    f_, rest, how = so[1], args, ('from' if e.func.attr == 'unpack_from' else 'slice')
            if f_ is not None:
                if how == 'from':
                    off = rest[1] if len(rest) > 1 else kw.get('offset')
                    if len(rest) >= 1 and rest[0] == ('buf',) and off == ('off',) and state['advanced'] is None:
                        return ('unpacked', f_)
                    return None
                if len(rest) == 1 and rest[0] == ('slice', f_) and state['advanced'] is None:
                    return ('unpacked', f_)
            return None
        if isinstance(e, ast.Subscript) and isinstance(e.slice, ast.Slice) and e.slice.step is None and ev(e.value) == ('buf',):
            lo, hi = e.slice.lower, e.slice.upper
            if lo is not None and hi is not None and ev(lo) == ('off',) and isinstance(hi, ast.BinOp) and isinstance(hi.op, ast.Add):
                for a_, b_ in ((hi.left, hi.right), (hi.right, hi.left)):
                    sz = ev(b_)
                    if ev(a_) == ('off',) and sz is not None and sz[0] == 'size':
                        return ('slice', sz[1])
            return None
        return None

    for st in body_wo_doc(fn):
        if isinstance(st, ast.Assign) and len(st.targets) == 1 and isinstance(st.targets[0], ast.Name):
            v = ev(st.value)
            if v is None:
                return None
            if v[0] == 'unpacked':
                if state['read'] is not None:
                    return None
                state['read'] = v[1]
            env[st.targets[0].id] = v
        elif isinstance(st, ast.AugAssign) and isinstance(st.op, ast.Add) and is_self_attr(st.target, off_attr):
            v = ev(st.value)
            if v is None or v[0] != 'size' or state['advanced'] is not None:
                return None
            state['advanced'] = v[1]
        elif isinstance(st, ast.Return) and st.value is not None:
            v = ev(st.value)
            if v is None or v[0] != 'unpacked':
                return None
            if state['read'] is None:
                state['read'] = v[1]   # `return S.unpack_from(...)` would skip the advance: rejected below
            state['ret'] = v[1]
            break
        else:
            return None
    f_ = state['read']
    if f_ is None or state['advanced'] != f_ or state['ret'] != f_:
        return None
    out = dict(order=f_[1], count=f_[2], code=f_[3], params=params, line=fn.lineno, cls=c.name)
    _PACKED_CACHE[key] = out
    return out


class Extractor:
    def __init__(self, m: pf.Module, cls: str, fn: pf.FuncDef, side: str):
        self.m = m
        self.cls = cls
        self.fn = fn
        self.side = side  # 'w' | 'r'
        self.where = f'{m.rel}::{cls}.{fn.name}'
        ps = param_names(fn)
        self.inlined: List[str] = []
        if fn.args.vararg is not None or len(ps) < 2:
            self.stream = None
            self.value = None
        else:
            self.stream = ps[1]
            self.value = ps[2] if len(ps) > 2 and side == 'w' else None
            # helpers that receive the stream (extracted missing-bit writers, shared readers, ...) are analysed in place
            self.fn, self.inlined = inline_stream_helpers(m, cls, fn, self.stream)
            # composite operations defined on the stream class itself (ByteWriter.write_str = write_int32 + append, ...) are analysed in
            # place too: their bodies are rewritten onto the stream name; the primitive operations (R1 of C33 decides those) stay calls
            self.fn, more = inline_stream_methods(m, self.fn, self.stream, side)
            self.inlined += more
        self.buf_attr = stream_buffer_attr(m, side) if side == 'w' else None
        self.selfname = ps[0] if ps else 'self'

    def fail(self, node: Optional[ast.AST], msg: str):
        ln = getattr(node, 'lineno', self.fn.lineno)
        raise AnalysisError(f'{self.where} (line {ln}): {msg}')

    def program(self) -> List[tuple]:
        if _only_raises(self.fn):
            return [('raise',)]
        if self.stream is None:
            self.fail(self.fn, 'unrecognised parameter list')
        return self.seq(body_wo_doc(self.fn))

    # -- statements --------------------------------------------------------
    def _writes_byte(self, st: ast.AST) -> bool:
        return any(isinstance(n, ast.Call) and isinstance(n.func, ast.Attribute) and n.func.attr == 'write_byte' and isinstance(n.func.value, ast.Name)
                   and n.func.value.id == self.stream for n in ast.walk(st))

    def seq(self, stmts: Sequence[ast.stmt], before: Sequence[ast.stmt] = ()) -> List[tuple]:
        """`before`: statements executed before this block (enclosing blocks' prefixes), context for the missing-bit evaluator."""
        out: List[tuple] = []
        stmts = list(stmts)
        region: Tuple[int, int] = (-1, -1)
        if self.side == 'w':
            hits = [i for i, st in enumerate(stmts) if not isinstance(st, (ast.FunctionDef, ast.AsyncFunctionDef, ast.ClassDef)) and self._writes_byte(st)]
            # a block that merely *contains* the region deeper down (an enclosing `if`) is handled when the recursion reaches it
            if hits and all(isinstance(stmts[i], (ast.While, ast.For, ast.Expr)) or (isinstance(stmts[i], ast.If) and not self._other_stream_ops(stmts[i])) for i in hits):
                region = (hits[0], hits[-1])
        for idx, st in enumerate(stmts):
            if region[0] <= idx <= region[1]:
                if idx == region[0]:
                    out.append(self.missing_region(stmts[region[0]:region[1] + 1], list(before) + stmts[:region[0]]))
                continue
            if isinstance(st, (ast.FunctionDef, ast.AsyncFunctionDef, ast.ClassDef)):
                if mentions(st, self.stream):
                    self.fail(st, 'nested definition touches the byte stream (unrecognised idiom)')
                continue
            rest = stmts[idx + 1:]
            if isinstance(st, ast.If) and not st.orelse and rest and _always_exits(st.body) and any(mentions(r, self.stream) for r in rest):
                # early exit: `if c: ...; return` followed by more stream operations  ==  if c: ... else: <rest>
                if mentions(st.test, self.stream):
                    self.fail(st, 'branch condition reads the byte stream')
                if _only_raise(st.body) and not mentions(st, self.stream):
                    continue  # an error guard (`if bad: raise`) does not select a layout
                out.append(('cond', st.test, self.seq(st.body, list(before) + stmts[:idx]), self.seq(rest, list(before) + stmts[:idx + 1]), dict(node=st, early_return=True)))
                return out
            if not mentions(st, self.stream):
                # a statement that performs no stream operation but leaves the block (return / break / continue somewhere inside it) decides which of the
                # following stream operations run: the normal form turns the guard idioms into if/else; anything left is not modelled
                if rest and any(mentions(r, self.stream) for r in rest):
                    own = [n for n in pf.walk_shallow(st) if isinstance(n, (ast.Return, ast.Break, ast.Continue))]
                    inner = {id(n) for lp in pf.walk_shallow(st) if isinstance(lp, (ast.For, ast.AsyncFor, ast.While)) for n in ast.walk(lp) if isinstance(n, (ast.Break, ast.Continue))}
                    if any(isinstance(n, ast.Return) or id(n) not in inner for n in own):
                        self.fail(st, 'a statement without stream operations leaves the block (return / break / continue) in front of further stream operations (unrecognised idiom)')
                continue
            if isinstance(st, ast.While):
                if self.side == 'w':
                    self.fail(st, 'while loop around stream operations other than the missing bytes on the writer side')
                else:
                    out.append(self.while_reader(st, stmts[:idx]))
            elif isinstance(st, ast.For):
                if st.orelse:
                    self.fail(st, 'for/else around stream operations')
                if mentions(st.iter, self.stream):
                    self.fail(st, 'loop iterable touches the byte stream')
                out.append(('loop', dict(iter=st.iter, target=st.target, kind='for', node=st), self.seq(st.body, list(before) + stmts[:idx])))
            elif isinstance(st, ast.If):
                if mentions(st.test, self.stream):
                    self.fail(st, 'branch condition reads the byte stream')
                out.append(('cond', st.test, self.seq(st.body, list(before) + stmts[:idx]), self.seq(st.orelse, list(before) + stmts[:idx]), dict(node=st)))
            elif isinstance(st, ast.Assign):
                if len(st.targets) != 1:
                    self.fail(st, 'multiple assignment targets around a stream operation')
                bind = st.targets[0].id if isinstance(st.targets[0], ast.Name) else None
                out += self.expr(st.value, bind, st)
            elif isinstance(st, ast.AnnAssign) and st.value is not None:
                bind = st.target.id if isinstance(st.target, ast.Name) else None
                out += self.expr(st.value, bind, st)
            elif isinstance(st, (ast.Expr, ast.Return)):
                if st.value is None:
                    continue
                out += self.expr(st.value, None, st)
            elif isinstance(st, ast.AugAssign) and self.side == 'w' and self.buf_attr is not None and isinstance(st.op, ast.Add) \
                    and isinstance(st.target, ast.Attribute) and isinstance(st.target.value, ast.Name) and st.target.value.id == self.stream \
                    and st.target.attr == self.buf_attr and not mentions(st.value, self.stream):
                # `<stream>._buf += E` (body of an inlined stream method): what write_bytes(E) does - or a primitive when E is struct.pack(<fmt>, v)
                out.append(self.direct_append(st))
            else:
                self.fail(st, f'unrecognised statement kind {type(st).__name__} touching the byte stream')
        return out

    # -- expressions (evaluation order) ------------------------------------
    def expr(self, e: ast.AST, bind: Optional[str], st: ast.stmt) -> List[tuple]:
        """Stream operations performed while evaluating e, in evaluation order.  `bind` is the name the *whole* value is assigned to."""
        if not mentions(e, self.stream):
            return []
        if isinstance(e, ast.Call):
            f = e.func
            if isinstance(f, ast.Attribute) and isinstance(f.value, ast.Name) and f.value.id == self.stream:
                for a in list(e.args) + [k.value for k in e.keywords]:
                    if mentions(a, self.stream):
                        self.fail(e, 'nested stream operation inside the argument of a stream operation')
                return [self.stream_op(e, f.attr, bind)]
            conv = '_convert_to_encoding' if self.side == 'w' else '_convert_from_encoding'
            if isinstance(f, ast.Attribute) and f.attr == conv and e.args and isinstance(e.args[0], ast.Name) and e.args[0].id == self.stream:
                rest = list(e.args[1:]) + [k.value for k in e.keywords]
                if mentions(f.value, self.stream) or any(mentions(a, self.stream) for a in rest):
                    self.fail(e, 'delegated converter call with a nested stream operation')
                info = dict(arg=e.args[1] if len(e.args) > 1 else None, args=list(e.args[1:]), kwargs={k.arg: k.value for k in e.keywords}, node=e, bind=bind)
                return [('rec', f.value, info)]
            # ordinary call: callee expression first, then arguments left to right
            out = self.expr(f, None, st)
            for a in e.args:
                out += self.expr(a.value if isinstance(a, ast.Starred) else a, None, st)
            for k in e.keywords:
                out += self.expr(k.value, None, st)
            # the stream object itself must not escape into an unknown callee
            for a in list(e.args) + [k.value for k in e.keywords]:
                if isinstance(a, ast.Name) and a.id == self.stream:
                    self.fail(e, f'byte stream passed to an unrecognised callee `{pf.nsrc(f)}`')
            return out
        if isinstance(e, (ast.ListComp, ast.GeneratorExp, ast.SetComp)):
            if len(e.generators) != 1 or e.generators[0].ifs or e.generators[0].is_async:
                self.fail(e, 'comprehension with several generators / filters around a stream operation')
            g = e.generators[0]
            if mentions(g.iter, self.stream):
                self.fail(e, 'comprehension iterable reads the byte stream')
            body = self.expr(e.elt, None, st)
            return [('loop', dict(iter=g.iter, target=g.target, kind='comp', node=e, bind=bind), body)]
        if isinstance(e, ast.DictComp):
            if len(e.generators) != 1 or e.generators[0].ifs or e.generators[0].is_async:
                self.fail(e, 'comprehension with several generators / filters around a stream operation')
            g = e.generators[0]
            if mentions(g.iter, self.stream):
                self.fail(e, 'comprehension iterable reads the byte stream')
            body = self.expr(e.key, None, st) + self.expr(e.value, None, st)   # per entry: key, then value
            return [('loop', dict(iter=g.iter, target=g.target, kind='comp', node=e, bind=bind), body)]
        if isinstance(e, ast.Attribute):
            return self.expr(e.value, None, st)
        if isinstance(e, ast.Subscript):
            return self.expr(e.value, None, st) + self.expr(e.slice, None, st)
        if isinstance(e, ast.BinOp):
            return self.expr(e.left, None, st) + self.expr(e.right, None, st)
        if isinstance(e, ast.UnaryOp):
            return self.expr(e.operand, None, st)
        if isinstance(e, (ast.Tuple, ast.List)):
            out: List[tuple] = []
            for x in e.elts:
                out += self.expr(x, None, st)
            return out
        if isinstance(e, ast.Compare) and len(e.ops) == 1:
            return self.expr(e.left, None, st) + self.expr(e.comparators[0], None, st)
        if isinstance(e, ast.IfExp):
            if mentions(e.test, self.stream):
                self.fail(e, 'conditional expression tests the byte stream')
            return [('cond', e.test, self.expr(e.body, None, st), self.expr(e.orelse, None, st), dict(node=e))]
        self.fail(e, f'unrecognised expression kind {type(e).__name__} touching the byte stream: `{pf.nsrc(e)[:80]}`')
        return []

    def stream_op(self, call: ast.Call, attr: str, bind: Optional[str]) -> tuple:
        if self.side == 'w':
            if attr in WRITE_KINDS:
                if len(call.args) != 1 or call.keywords:
                    self.fail(call, f'{attr} with unexpected arguments')
                return ('prim', WRITE_KINDS[attr], dict(arg=call.args[0], bind=None, node=call))
            if attr == 'write_bytes':
                if len(call.args) != 1 or call.keywords:
                    self.fail(call, 'write_bytes with unexpected arguments')
                return ('bytes', dict(arg=call.args[0], view=False, node=call, bind=None))
        else:
            if attr in READ_KINDS:
                if call.args or call.keywords:
                    self.fail(call, f'{attr} with unexpected arguments')
                return ('prim', READ_KINDS[attr], dict(arg=None, bind=bind, node=call))
            if attr in ('read_bytes', 'read_bytes_view'):
                if len(call.args) != 1 or call.keywords:
                    self.fail(call, f'{attr} with unexpected arguments')
                return ('bytes', dict(arg=call.args[0], view=attr == 'read_bytes_view', node=call, bind=bind))
            sm = packed_read_summary(self.m, attr)
            if sm is not None:
                # a bulk read defined on the stream class (count values of one struct code, back to back): kept as one item; the rule
                # compares it with `count` repetitions of the element's own primitive
                actual: Dict[str, ast.AST] = {}
                if any(isinstance(a, ast.Starred) for a in call.args) or len(call.args) > len(sm['params']) or any(k.arg not in sm['params'] for k in call.keywords):
                    self.fail(call, f'{attr} with unexpected arguments')
                for prm, a in list(zip(sm['params'], call.args)) + [(k.arg, k.value) for k in call.keywords]:
                    actual[prm] = a
                if sm['count'] not in actual or sm['code'] not in actual:
                    self.fail(call, f'{attr}: count / code argument missing')
                return ('packed', dict(count=actual[sm['count']], code=actual[sm['code']], order=sm['order'], op=attr, node=call, bind=bind))
        self.fail(call, f'unknown byte-stream operation `{attr}` on the {"writer" if self.side == "w" else "reader"} side')
        return ('raise',)

    def direct_append(self, st: ast.AugAssign) -> tuple:
        v = st.value
        if isinstance(v, ast.Call) and pf.dotted(v.func) == 'struct.pack':
            fmt = pf.const_str(v.args[0]) if v.args else None
            if fmt is None or len(fmt) != 2 or fmt[0] not in '=<' or fmt[1] not in PACK_KINDS or len(v.args) != 2 or v.keywords:
                self.fail(st, f'bytes appended to the stream buffer are `{pf.nsrc(v)[:60]}`: not a struct format of the primitive table')
            return ('prim', PACK_KINDS[fmt[1]], dict(arg=v.args[1], bind=None, node=st))
        return ('bytes', dict(arg=v, view=False, node=st, bind=None))

    # -- idioms ---------------------------------------------------------------
    def _counter_init(self, name: str, before: Sequence[ast.stmt]) -> Optional[ast.expr]:
        init = None
        for st in before:
            if isinstance(st, ast.Assign) and len(st.targets) == 1 and isinstance(st.targets[0], ast.Name) and st.targets[0].id == name:
                init = st.value
        return init

    def _counted_while(self, st: ast.While, before: Sequence[ast.stmt]) -> Tuple[str, ast.expr, ast.expr, ast.AugAssign, List[ast.stmt]]:
        """`i = <init>` ... `while i < N: body ; i += step`  ->  (i, init, N, increment statement, body without the increment)."""
        t = st.test
        if st.orelse or not (isinstance(t, ast.Compare) and len(t.ops) == 1 and isinstance(t.ops[0], ast.Lt) and isinstance(t.left, ast.Name)):
            self.fail(st, 'while loop around stream operations is not of the form `while i < N`')
        i = t.left.id
        init = self._counter_init(i, before)
        if init is None:
            self.fail(st, f'no initialisation of loop counter `{i}` before the while loop')
        incs = [s for s in ast.walk(st) if isinstance(s, (ast.AugAssign, ast.Assign)) and any(isinstance(x, ast.Name) and x.id == i and isinstance(x.ctx, ast.Store) for x in ast.walk(s))]
        last = st.body[-1]
        if len(incs) != 1 or incs[0] is not last or not isinstance(last, ast.AugAssign) or not isinstance(last.op, ast.Add):
            self.fail(st, f'loop counter `{i}` is not advanced by exactly one trailing `{i} += step`')
        for n in ast.walk(st):
            if isinstance(n, (ast.Break, ast.Continue)):
                self.fail(st, 'break/continue in a counted stream loop')
        return i, init, t.comparators[0], last, st.body[:-1]

    def _other_stream_ops(self, st: ast.AST) -> List[ast.AST]:
        """Uses of the stream inside st other than `stream.write_byte(...)`."""
        ok_names = set()
        for n in ast.walk(st):
            if isinstance(n, ast.Call) and isinstance(n.func, ast.Attribute) and n.func.attr == 'write_byte' and isinstance(n.func.value, ast.Name) and n.func.value.id == self.stream:
                ok_names.add(id(n.func.value))
        return [n for n in ast.walk(st) if isinstance(n, ast.Name) and n.id == self.stream and id(n) not in ok_names]

    def missing_region(self, stmts: Sequence[ast.stmt], before: Sequence[ast.stmt]) -> tuple:
        """The statements that compute and write the missing bytes (first to last statement calling write_byte in one block).
        They are not pattern-matched: rules evaluate them with MissingBitsEval over a symbolic missingness vector."""
        for st in stmts:
            bad = self._other_stream_ops(st)
            if bad:
                self.fail(bad[0], 'the statements that write the missing bytes also perform other stream operations (unrecognised idiom)')
        info = dict(stmts=list(stmts), before=[b for b in before if not isinstance(b, (ast.FunctionDef, ast.AsyncFunctionDef, ast.ClassDef))], node=stmts[0], semantic=True,
                    where=self.where, selfname=self.selfname, stream=self.stream, value=self.value, inlined=list(self.inlined))
        return ('missing_w', info)

    def missing_writer(self, st: ast.While, before: Sequence[ast.stmt]) -> tuple:
        i, init, n, inc, body = self._counted_while(st, before)
        # body: acc = 0 ; for j in range(min(C, N - i)): if <missing>(subject[idx]): acc |= 1 << f(j) ; write_byte(acc)
        if len(body) != 3 or not (isinstance(body[0], ast.Assign) and isinstance(body[1], ast.For) and isinstance(body[2], ast.Expr)):
            self.fail(st, 'while loop on the writer side is not the recognised missing-byte idiom (acc = 0; for …; write_byte(acc))')
        acc_st, for_st, wr_st = body
        if not (len(acc_st.targets) == 1 and isinstance(acc_st.targets[0], ast.Name)):
            self.fail(acc_st, 'unrecognised accumulator initialisation')
        acc = acc_st.targets[0].id
        wr = wr_st.value
        if not (isinstance(wr, ast.Call) and isinstance(wr.func, ast.Attribute) and isinstance(wr.func.value, ast.Name) and wr.func.value.id == self.stream
                and len(wr.args) == 1 and isinstance(wr.args[0], ast.Name) and wr.args[0].id == acc):
            self.fail(wr_st, 'missing-byte loop does not end by writing the accumulator')
        j = for_st.target.id if isinstance(for_st.target, ast.Name) else None
        rng = for_st.iter
        chunk = None
        rng_ok = False
        if j and isinstance(rng, ast.Call) and pf.dotted(rng.func) == 'range' and len(rng.args) == 1:
            a = rng.args[0]
            if isinstance(a, ast.Call) and pf.dotted(a.func) == 'min' and len(a.args) == 2:
                consts = [x for x in a.args if const_int(x) is not None]
                others = [x for x in a.args if const_int(x) is None]
                if len(consts) == 1 and len(others) == 1:
                    chunk = const_int(consts[0])
                    o = others[0]
                    rng_ok = isinstance(o, ast.BinOp) and isinstance(o.op, ast.Sub) and pf.nsrc(o.left) == pf.nsrc(n) and pf.nsrc(o.right) == i
        if not rng_ok:
            self.fail(for_st, 'inner loop of the missing-byte idiom is not `for j in range(min(C, N - i))`')
        if len(for_st.body) != 1 or not isinstance(for_st.body[0], ast.If) or for_st.body[0].orelse or len(for_st.body[0].body) != 1:
            self.fail(for_st, 'inner loop body of the missing-byte idiom is not a single `if missing(...): acc |= bit`')
        iff = for_st.body[0]
        setbit = iff.body[0]
        if not (isinstance(setbit, ast.AugAssign) and isinstance(setbit.op, ast.BitOr) and isinstance(setbit.target, ast.Name) and setbit.target.id == acc):
            self.fail(setbit, 'missing-byte idiom does not OR a bit into the accumulator')
        test = iff.test
        if not (isinstance(test, ast.Call) and pf.dotted(test.func) in ('HailType._missing', 'self._missing') and len(test.args) == 1):
            self.fail(iff, 'missing-byte idiom does not test HailType._missing(<element>)')
        info = dict(n=n, init=init, step=const_int(inc.value), chunk=chunk, acc_init=acc_st.value, bit=setbit.value, j=j, i=i,
                    subject=test.args[0], write=wr.func.attr, node=st)
        return ('missing_w', info)

    def while_reader(self, st: ast.While, before: Sequence[ast.stmt]) -> tuple:
        i, init, n, inc, body = self._counted_while(st, before)
        info = dict(iter=None, target=ast.Name(id=i, ctx=ast.Load()), kind='while', node=st, count=n, step=inc.value, init=init, counter=i)
        return ('loop', info, self.seq(body))


def flatten_prims(prog: Sequence[tuple]) -> List[tuple]:
    out = []
    for it in prog:
        if it[0] in ('prim', 'bytes', 'rec', 'missing_w', 'packed'):
            out.append(it)
        elif it[0] == 'loop':
            out += flatten_prims(it[2])
        elif it[0] == 'cond':
            out += flatten_prims(it[2]) + flatten_prims(it[3])
    return out


def show_program(prog: Sequence[tuple]) -> str:
    parts = []
    for it in prog:
        k = it[0]
        if k == 'prim':
            parts.append(it[1].upper())
        elif k == 'bytes':
            parts.append('BYTES(' + pf.nsrc(it[1]['arg'])[:40] + ')')
        elif k == 'rec':
            parts.append('REC(' + pf.nsrc(it[1]) + ')')
        elif k == 'loop':
            inf = it[1]
            dom = pf.nsrc(inf['iter']) if inf.get('iter') is not None else 'count ' + pf.nsrc(inf['count'])
            parts.append(f'LOOP[{dom[:50]}]{{' + show_program(it[2]) + '}')
        elif k == 'cond':
            parts.append(f'IF[{pf.nsrc(it[1])[:50]}]{{' + show_program(it[2]) + '}{' + show_program(it[3]) + '}')
        elif k == 'missing_w':
            parts.append('MISSINGBYTES(' + (pf.nsrc(it[1]['n']) if it[1].get('n') is not None else '…') + ')')
        elif k == 'raise':
            parts.append('RAISE')
        elif k == 'packed':
            parts.append(f'PACKED({pf.nsrc(it[1]["count"])[:30]} x {pf.nsrc(it[1]["code"])[:30]})')
    return ' '.join(parts)


# --------------------------------------------------------------------------------------
# type guards: which HailType classes does a test on a type object admit?
# --------------------------------------------------------------------------------------


class Guard:
    """Result of evaluating a test on a type-valued expression.
    subject: ast of the tested type expression;  admitted: names of the (concrete) classes of the module for which the test is
    true;  dead: reason text when the test can never be true for any HailType instance (admitted is then empty)."""

    def __init__(self, subject: ast.AST, admitted: frozenset, dead: Optional[str] = None, why: str = ''):
        self.subject = subject
        self.admitted = admitted
        self.dead = dead
        self.why = why

    @property
    def subject_text(self) -> str:
        return pf.nsrc(self.subject)


class TypeTables:
    """Evaluates class-set expressions (`_numeric_types`, `_primitive_types.union({_tstr})`, tuples of classes) and the type
    predicates built on them (`is_numeric(t)`, `isinstance(t, (...))`, `t.__class__ in G`, `t == tint32`, `t in G`) from the module's
    own definitions.  Everything unrecognised yields None (the caller declines)."""

    def __init__(self, m: pf.Module, classes: Optional[Dict[str, ast.ClassDef]] = None):
        self.m = m
        self.classes = classes if classes is not None else hail_type_classes(m)
        self.all = frozenset(self.classes)
        self.top_funcs = {f.name: f for f in m.tree.body if isinstance(f, ast.FunctionDef)}

    # ---- class sets ---------------------------------------------------------
    def _global(self, name: str) -> Optional[ast.expr]:
        vals = []
        for st in self.m.tree.body:
            if isinstance(st, ast.Assign) and any(isinstance(t, ast.Name) and t.id == name for t in st.targets):
                vals.append(st.value)
            elif isinstance(st, ast.AnnAssign) and isinstance(st.target, ast.Name) and st.target.id == name and st.value is not None:
                vals.append(st.value)
            elif isinstance(st, ast.AugAssign) and isinstance(st.target, ast.Name) and st.target.id == name:
                return None
        return vals[0] if len(vals) == 1 else None

    def class_set(self, e: ast.AST, depth: int = 16) -> Optional[frozenset]:
        """Set of class names denoted by e (a set/tuple/list display of class names, a global bound to one, unions of those)."""
        if depth <= 0:
            return None
        if isinstance(e, ast.Name):
            if e.id in self.classes:
                return frozenset([e.id])
            g = self._global(e.id)
            return self.class_set(g, depth - 1) if g is not None else None
        if isinstance(e, (ast.Set, ast.Tuple, ast.List)):
            out: set = set()
            for x in e.elts:
                s = self.class_set(x, depth - 1)
                if s is None:
                    return None
                out |= s
            return frozenset(out)
        if isinstance(e, ast.Call) and isinstance(e.func, ast.Name) and e.func.id in ('set', 'frozenset', 'tuple', 'list') and len(e.args) == 1 and not e.keywords:
            return self.class_set(e.args[0], depth - 1)
        if isinstance(e, ast.Call) and isinstance(e.func, ast.Attribute) and e.func.attr in ('union', 'difference', 'intersection') and not e.keywords:
            acc = self.class_set(e.func.value, depth - 1)
            if acc is None:
                return None
            for a in e.args:
                s = self.class_set(a, depth - 1)
                if s is None:
                    return None
                acc = acc | s if e.func.attr == 'union' else (acc - s if e.func.attr == 'difference' else acc & s)
            return acc
        if isinstance(e, ast.BinOp) and isinstance(e.op, (ast.BitOr, ast.Sub, ast.BitAnd)):
            a, b = self.class_set(e.left, depth - 1), self.class_set(e.right, depth - 1)
            if a is None or b is None:
                return None
            return a | b if isinstance(e.op, ast.BitOr) else (a - b if isinstance(e.op, ast.Sub) else a & b)
        return None

    def subclasses(self, names: frozenset) -> frozenset:
        out = set()
        for cn, c in self.classes.items():
            seen = set()
            stack = [cn]
            while stack:
                x = stack.pop()
                if x in seen or x not in self.classes and x != cn:
                    continue
                seen.add(x)
                if x in names:
                    out.add(cn)
                    break
                for b in self.classes[x].bases if x in self.classes else []:
                    d = pf.dotted(b)
                    if d:
                        stack.append(d)
        return frozenset(out)

    def instance_class(self, e: ast.AST) -> Optional[str]:
        """`tint32` / `hl.tint32` (a global bound to a zero-argument construction of a module class) -> that class name."""
        d = pf.dotted(e)
        if d is None:
            return None
        g = self._global(d.split('.')[-1])
        if isinstance(g, ast.Call) and isinstance(g.func, ast.Name) and g.func.id in self.classes and not g.args and not g.keywords:
            return g.func.id
        return None

    def instance_vs_classes_dead(self) -> Optional[str]:
        """`<instance> in <set of classes>` is always False when HailType.__eq__ rejects non-instances, nothing overrides it and there is no metaclass."""
        try:
            ht = self.m.cls('HailType')
        except AnalysisError:
            return None
        if ht.keywords:
            return None
        ms = methods(ht)
        if '__eq__' not in ms:
            return None
        b = body_wo_doc(ms['__eq__'])
        ps = param_names(ms['__eq__'])
        if len(ps) != 2:
            return None
        other = ps[1]
        if not (len(b) == 1 and isinstance(b[0], ast.Return) and isinstance(b[0].value, ast.BoolOp) and isinstance(b[0].value.op, ast.And)
                and pf.nsrc(b[0].value.values[0]) == f'isinstance({other}, HailType)'):
            return None
        for cn, c in self.classes.items():
            if '__eq__' in methods(c) or c.keywords:
                return None
        return ('the right-hand side is a set of classes while the left-hand side is an instance; HailType.__eq__ requires isinstance(other, HailType), '
                'no subclass overrides __eq__, no metaclass: the membership test is always False')

    # ---- predicates -----------------------------------------------------------
    def guard(self, test: ast.AST, depth: int = 4) -> Optional[Guard]:
        if depth <= 0:
            return None
        if isinstance(test, ast.UnaryOp) and isinstance(test.op, ast.Not):
            g = self.guard(test.operand, depth)
            if g is None:
                return None
            return Guard(g.subject, self.all - g.admitted, None, f'not ({g.why})')
        if isinstance(test, ast.BoolOp):
            gs = [self.guard(v, depth) for v in test.values]
            if any(g is None for g in gs) or len({g.subject_text for g in gs}) != 1:
                return None
            acc = gs[0].admitted
            for g in gs[1:]:
                acc = acc | g.admitted if isinstance(test.op, ast.Or) else acc & g.admitted
            dead = None
            if not acc and all(g.dead for g in gs):
                dead = '; '.join(g.dead for g in gs)
            return Guard(gs[0].subject, acc, dead, (' or ' if isinstance(test.op, ast.Or) else ' and ').join(g.why for g in gs))
        if isinstance(test, ast.Call) and isinstance(test.func, ast.Name) and test.func.id == 'isinstance' and len(test.args) == 2 and not test.keywords:
            s = self.class_set(test.args[1])
            if s is None:
                return None
            return Guard(test.args[0], self.subclasses(s), None, f'isinstance of {sorted(s)}')
        if isinstance(test, ast.Call) and isinstance(test.func, ast.Name) and test.func.id in self.top_funcs and len(test.args) == 1 and not test.keywords:
            fn = self.top_funcs[test.func.id]
            ps = param_names(fn)
            b = body_wo_doc(fn)
            if len(ps) != 1 or fn.args.vararg or fn.args.kwarg or len(b) != 1 or not isinstance(b[0], ast.Return) or b[0].value is None:
                return None
            if any(n not in ('typecheck', 'typecheck_method') for n in pf.decorator_names(fn)):
                return None
            inner = _SubstName(ps[0], test.args[0]).visit(copy.deepcopy(b[0].value))
            g = self.guard(inner, depth - 1)
            if g is None:
                return None
            return Guard(g.subject, g.admitted, g.dead, f'{test.func.id}(): {g.why}')
        if isinstance(test, ast.Compare) and len(test.ops) == 1:
            l, op, r = test.left, test.ops[0], test.comparators[0]
            if isinstance(op, (ast.In, ast.NotIn)):
                neg = isinstance(op, ast.NotIn)
                cls_of = None
                if isinstance(l, ast.Attribute) and l.attr == '__class__':
                    cls_of = l.value
                elif isinstance(l, ast.Call) and isinstance(l.func, ast.Name) and l.func.id == 'type' and len(l.args) == 1:
                    cls_of = l.args[0]
                s = self.class_set(r)
                if cls_of is not None and s is not None:
                    return Guard(cls_of, (self.all - s) if neg else s, None, f'class {"not " if neg else ""}in {sorted(s)}')
                if cls_of is None and s is not None and s:
                    why = self.instance_vs_classes_dead()
                    if why is None or neg:
                        return None
                    return Guard(l, frozenset(), f'`{pf.nsrc(test)}`: {pf.nsrc(r)} = {{{", ".join(sorted(s))}}}; {why}', 'instance in set of classes')
                if cls_of is None and isinstance(r, (ast.Tuple, ast.List, ast.Set)):
                    ics = [self.instance_class(x) for x in r.elts]
                    if ics and all(ics):
                        adm = frozenset(ics)
                        return Guard(l, (self.all - adm) if neg else adm, None, f'{"not " if neg else ""}one of {sorted(adm)} instances')
                return None
            if isinstance(op, (ast.Eq, ast.NotEq, ast.Is, ast.IsNot)):
                neg = isinstance(op, (ast.NotEq, ast.IsNot))
                for a, b_ in ((l, r), (r, l)):
                    ic = self.instance_class(b_)
                    if ic is not None and self.instance_class(a) is None:
                        adm = frozenset([ic])
                        return Guard(a, (self.all - adm) if neg else adm, None, f'{"not " if neg else ""}the {ic} instance')
                    # S.__class__ == C / type(S) is C
                    cls_of = None
                    if isinstance(a, ast.Attribute) and a.attr == '__class__':
                        cls_of = a.value
                    elif isinstance(a, ast.Call) and isinstance(a.func, ast.Name) and a.func.id == 'type' and len(a.args) == 1:
                        cls_of = a.args[0]
                    if cls_of is not None and isinstance(b_, ast.Name) and b_.id in self.classes:
                        adm = frozenset([b_.id])
                        return Guard(cls_of, (self.all - adm) if neg else adm, None, f'class {"is not" if neg else "is"} {b_.id}')
                return None
        return None


class _SubstName(ast.NodeTransformer):
    def __init__(self, name: str, rep: ast.AST):
        self.name, self.rep = name, rep

    def visit_Name(self, node: ast.Name):
        if node.id == self.name and isinstance(node.ctx, ast.Load):
            return copy.deepcopy(self.rep)
        return node


# --------------------------------------------------------------------------------------
# codec purity: the result of a converter depends only on (parameters of the type, the converted value)
# --------------------------------------------------------------------------------------

MUTATORS = {'append', 'add', 'extend', 'insert', 'update', 'setdefault', 'pop', 'popitem', 'clear', 'remove', 'discard', 'appendleft', 'sort', 'reverse',
            '__setitem__', '__delitem__', 'move_to_end'}
EVICTORS = {'pop', 'popitem', 'clear', 'remove', 'discard', 'move_to_end'}
HARMLESS_DECORATORS = {'staticmethod', 'classmethod', 'typecheck', 'typecheck_method', 'abc.abstractmethod', 'abstractmethod', 'property'}
CACHE_DECORATORS = {'functools.lru_cache', 'lru_cache', 'functools.cache', 'cache'}


class StateFinding:
    def __init__(self, kind: str, construct: str, message: str, line: int = 0, detail: Any = None):
        self.kind = kind  # 'violation' | 'ok' | 'undecided'
        self.construct = construct
        self.message = message
        self.line = line
        self.detail = detail


def _loc_text(loc: tuple) -> str:
    if loc[0] == 'inst':
        return f'self.{loc[1]}'
    if loc[0] == 'class':
        return f'{loc[1]}.{loc[2]}'
    if loc[0] == 'global':
        return loc[1]
    return f'default argument {loc[2]} of {loc[1]}'


class _FnState:
    """State accesses of one function (nested defs included)."""

    def __init__(self, m: pf.Module, cname: Optional[str], fn: pf.FuncDef, module_classes: Set[str], module_globals: Set[str]):
        self.m, self.cname, self.fn = m, cname, fn
        self.qual = f'{cname}.{fn.name}' if cname else fn.name
        ps = param_names(fn)
        decos = pf.decorator_names(fn)
        self.static = 'staticmethod' in decos
        self.clsmeth = 'classmethod' in decos
        self.selfname = ps[0] if (cname and ps and not self.static and not self.clsmeth) else None
        self.clsname_param = ps[0] if (cname and ps and self.clsmeth) else None
        self.params = set(ps) | {a.arg for a in fn.args.kwonlyargs}
        if fn.args.vararg:
            self.params.add(fn.args.vararg.arg)
        if fn.args.kwarg:
            self.params.add(fn.args.kwarg.arg)
        self.module_classes, self.module_globals = module_classes, module_globals
        self.defs = pf.assignments(fn)
        self.globals_declared = {n for st in ast.walk(fn) if isinstance(st, (ast.Global, ast.Nonlocal)) for n in st.names}
        self.locals = {n.id for n in ast.walk(fn) if isinstance(n, ast.Name) and isinstance(n.ctx, (ast.Store, ast.Del))} - self.globals_declared
        for sub in ast.walk(fn):
            if isinstance(sub, (ast.FunctionDef, ast.AsyncFunctionDef, ast.Lambda)) and sub is not fn:
                a = sub.args
                self.locals |= {x.arg for x in a.posonlyargs + a.args + a.kwonlyargs}
        self.locals |= self.params
        # mutable defaults
        self.mut_defaults: Set[str] = set()
        pos = fn.args.posonlyargs + fn.args.args
        for a, d in list(zip(pos[len(pos) - len(fn.args.defaults):], fn.args.defaults)) + [(a, d) for a, d in zip(fn.args.kwonlyargs, fn.args.kw_defaults) if d is not None]:
            if isinstance(d, (ast.Dict, ast.List, ast.Set, ast.DictComp, ast.ListComp, ast.SetComp)) or \
                    (isinstance(d, ast.Call) and pf.dotted(d.func) in ('dict', 'list', 'set', 'collections.defaultdict', 'defaultdict', 'collections.OrderedDict', 'OrderedDict', 'bytearray')):
                self.mut_defaults.add(a.arg)
        self.par: Dict[ast.AST, ast.AST] = {}
        for p in ast.walk(fn):
            for c in ast.iter_child_nodes(p):
                self.par[c] = p
        self.writes: List[dict] = []
        self.reads: List[dict] = []
        self._scan()

    def loc_of(self, e: ast.AST, depth: int = 3) -> Optional[tuple]:
        if isinstance(e, ast.Attribute):
            v = e.value
            if isinstance(v, ast.Name):
                if self.selfname and v.id == self.selfname:
                    return ('inst', e.attr)
                if self.clsname_param and v.id == self.clsname_param:
                    return ('class', self.cname, e.attr)
                if v.id in self.module_classes and v.id not in self.locals:
                    return ('class', v.id, e.attr)
                if self.selfname and v.id in self.locals and v.id not in self.params:
                    # `cls = type(self)` / `cls = self.__class__` followed by cls.<attr>
                    ds = self.defs.get(v.id, [])
                    if len(ds) == 1 and pf.nsrc(ds[0]) in (f'type({self.selfname})', f'{self.selfname}.__class__'):
                        return ('class', self.cname, e.attr)
            if self.selfname and ((isinstance(v, ast.Attribute) and v.attr == '__class__' and isinstance(v.value, ast.Name) and v.value.id == self.selfname)
                                  or (isinstance(v, ast.Call) and pf.dotted(v.func) == 'type' and len(v.args) == 1 and isinstance(v.args[0], ast.Name) and v.args[0].id == self.selfname)):
                return ('class', self.cname, e.attr)
            return None
        if isinstance(e, ast.Name):
            if e.id in self.mut_defaults:
                return ('default', self.qual, e.id)
            if e.id in self.globals_declared or (e.id in self.module_globals and e.id not in self.locals):
                return ('global', e.id)
            if e.id in self.locals and e.id not in self.params and depth > 0:
                ds = self.defs.get(e.id, [])
                if len(ds) == 1 and isinstance(ds[0], (ast.Attribute, ast.Name)):
                    return self.loc_of(ds[0], depth - 1)
        return None

    def _scan(self) -> None:
        fn = self.fn
        write_bases: Set[int] = set()
        for n in ast.walk(fn):
            tgts: List[Tuple[ast.AST, Optional[ast.AST], ast.AST]] = []
            if isinstance(n, ast.Assign):
                tgts = [(t, n.value, n) for t in n.targets]
            elif isinstance(n, ast.AnnAssign) and n.value is not None:
                tgts = [(n.target, n.value, n)]
            elif isinstance(n, ast.AugAssign):
                tgts = [(n.target, n.value, n)]
            elif isinstance(n, ast.Delete):
                tgts = [(t, None, n) for t in n.targets]
            for t, val, st in tgts:
                for tt in (t.elts if isinstance(t, (ast.Tuple, ast.List)) else [t]):
                    form = 'del' if isinstance(st, ast.Delete) else ('aug' if isinstance(st, ast.AugAssign) else 'assign')
                    if isinstance(tt, ast.Subscript):
                        loc = self.loc_of(tt.value)
                        if loc is not None:
                            write_bases.add(id(tt.value))
                            self.writes.append(dict(loc=loc, form='delitem' if form == 'del' else ('augitem' if form == 'aug' else 'setitem'), key=tt.slice, value=val, node=st, fs=self))
                    elif isinstance(tt, ast.Attribute):
                        loc = self.loc_of(tt)
                        if loc is not None:
                            write_bases.add(id(tt))
                            self.writes.append(dict(loc=loc, form='attr-' + form, key=None, value=val, node=st, fs=self))
                    elif isinstance(tt, ast.Name) and tt.id in self.globals_declared:
                        write_bases.add(id(tt))
                        self.writes.append(dict(loc=('global', tt.id), form='attr-' + form, key=None, value=val, node=st, fs=self))
            if isinstance(n, ast.Call) and isinstance(n.func, ast.Attribute) and n.func.attr in MUTATORS:
                loc = self.loc_of(n.func.value)
                if loc is not None:
                    write_bases.add(id(n.func.value))
                    key = n.args[0] if n.func.attr == 'setdefault' and n.args else None
                    val = n.args[1] if n.func.attr == 'setdefault' and len(n.args) > 1 else None
                    self.writes.append(dict(loc=loc, form='call:' + n.func.attr, key=key, value=val, node=n, fs=self))
        for n in ast.walk(fn):
            if not isinstance(n, (ast.Attribute, ast.Name)) or not isinstance(getattr(n, 'ctx', None), ast.Load) or id(n) in write_bases:
                continue
            p = self.par.get(n)
            if isinstance(p, ast.Attribute) and p.value is n and self.loc_of(p) is not None:
                continue  # `tlocus` inside `tlocus._x` etc.
            loc = self.loc_of(n)
            if loc is None:
                continue
            form, key = 'load', None
            if isinstance(p, ast.Attribute) and p.value is n:
                pp = self.par.get(p)
                if isinstance(pp, ast.Call) and pp.func is p:
                    if p.attr in ('get',) and pp.args:
                        form, key = 'get', pp.args[0]
                    elif p.attr in ('keys', 'values', 'items', 'copy', '__len__', '__contains__'):
                        form = 'load'
            elif isinstance(p, ast.Subscript) and p.value is n and isinstance(p.ctx, ast.Load):
                form, key = 'getitem', p.slice
            elif isinstance(p, ast.Compare) and len(p.ops) == 1 and isinstance(p.ops[0], (ast.In, ast.NotIn)) and p.comparators[0] is n:
                form, key = 'contains', p.left
            elif isinstance(p, ast.Call) and pf.dotted(p.func) == 'len' and p.args and p.args[0] is n:
                form = 'len'
            self.reads.append(dict(loc=loc, form=form, key=key, node=n, fs=self))

    # ---- atoms -------------------------------------------------------------
    def atoms(self, e: Optional[ast.AST], skip_loc: Optional[tuple], depth: int = 6, seen: Optional[Set[str]] = None) -> Set[str]:
        """Inputs an expression depends on: 'self.<attr>' (a parameter of the type), '<param>' / '<param>[...]' access paths."""
        out: Set[str] = set()
        if e is None:
            return out
        seen = seen if seen is not None else set()

        def chain_root(x: ast.AST) -> Optional[ast.Name]:
            while isinstance(x, (ast.Attribute, ast.Subscript)):
                if isinstance(x, ast.Subscript) and not isinstance(x.slice, ast.Constant):
                    return None
                x = x.value
            return x if isinstance(x, ast.Name) else None

        def rec(x: ast.AST) -> None:
            if isinstance(x, ast.Call) and pf.dotted(x.func) == 'id' and len(x.args) == 1 and not x.keywords:
                # the identity of an object says nothing about its content (the object may have been mutated since): `id(v)` is an input of its own,
                # it does not stand for `v`
                out.add(f'id({pf.nsrc(x.args[0])})')
                return
            if isinstance(x, (ast.Attribute, ast.Subscript)):
                r = chain_root(x)
                if r is not None and self.selfname and r.id == self.selfname:
                    cur = x
                    while not (isinstance(cur, ast.Attribute) and isinstance(cur.value, ast.Name)):
                        cur = cur.value  # type: ignore[union-attr]
                    out.add(f'self.{cur.attr}')
                    return
                if r is not None and r.id in self.params and r.id != self.selfname:
                    out.add(pf.nsrc(x))
                    return
            if isinstance(x, ast.Name):
                if not isinstance(x.ctx, ast.Load):
                    return
                if self.selfname and x.id == self.selfname:
                    out.add('self')
                elif x.id in self.params:
                    out.add(x.id)
                elif x.id in self.defs and x.id not in seen and depth > 0:
                    seen.add(x.id)
                    for d in self.defs[x.id]:
                        src = d
                        if isinstance(d, (ast.For, ast.AsyncFor, ast.comprehension)):
                            src = d.iter
                        elif isinstance(d, (ast.Assign, ast.AugAssign)):
                            src = d.value
                        elif isinstance(d, ast.withitem):
                            src = d.context_expr
                        elif not isinstance(d, ast.expr):
                            continue
                        if skip_loc is not None and any(self.loc_of(y) == skip_loc for y in ast.walk(src) if isinstance(y, (ast.Attribute, ast.Name))):
                            continue  # the value read back from the store itself
                        out.update(self.atoms(src, skip_loc, depth - 1, seen))
                return
            for c in ast.iter_child_nodes(x):
                rec(c)

        rec(e)
        return out


def _covered(atom: str, keys: Set[str]) -> bool:
    return any(atom == k or atom.startswith(k + '[') or atom.startswith(k + '.') for k in keys)


def codec_state(m: pf.Module, classes: Dict[str, ast.ClassDef], is_codec) -> Tuple[List[StateFinding], int]:
    """Purity / memo-key analysis of every method `is_codec(name)` of the given classes (and the same-module helpers they call).
    Returns (findings, number of codec methods analysed).  A finding is a violation when a recognised shape makes the result depend on
    history; 'undecided' when state is read and written in a shape that is not recognised."""
    rel = m.rel
    module_classes = {c.name for c in m.tree.body if isinstance(c, ast.ClassDef)}
    top_funcs = {f.name: f for f in m.tree.body if isinstance(f, (ast.FunctionDef, ast.AsyncFunctionDef))}
    module_globals: Set[str] = set()
    for st in m.tree.body:
        for t in (st.targets if isinstance(st, ast.Assign) else [st.target] if isinstance(st, (ast.AnnAssign, ast.AugAssign)) else []):
            if isinstance(t, ast.Name):
                module_globals.add(t.id)
    all_cls = {c.name: c for c in m.tree.body if isinstance(c, ast.ClassDef)}

    def mro_lookup(cn: str, meth: str, seen=()) -> Optional[Tuple[str, pf.FuncDef]]:
        c = all_cls.get(cn)
        if c is None or cn in seen:
            return None
        ms = methods(c)
        if meth in ms:
            return cn, ms[meth]
        for b in c.bases:
            d = pf.dotted(b)
            if d in all_cls:
                r = mro_lookup(d, meth, seen + (cn,))
                if r is not None:
                    return r
        return None

    units: Dict[Tuple[Optional[str], str], _FnState] = {}
    roots: List[Tuple[Optional[str], str]] = []
    work: List[Tuple[Optional[str], pf.FuncDef, int]] = []
    for cn, c in classes.items():
        for nm, fn in methods(c).items():
            if is_codec(nm):
                roots.append((cn, nm))
                work.append((cn, fn, 0))
    base = all_cls.get('HailType')
    if base is not None and 'HailType' not in classes:
        for nm, fn in methods(base).items():
            if is_codec(nm):
                roots.append(('HailType', nm))
                work.append(('HailType', fn, 0))
    findings: List[StateFinding] = []
    owner: Dict[Tuple[Optional[str], str], Set[str]] = {}
    while work:
        cn, fn, d = work.pop()
        key = (cn, fn.name)
        if key in units:
            continue
        fs = _FnState(m, cn, fn, module_classes, module_globals)
        units[key] = fs
        for dn in pf.decorator_names(fn):
            if dn in HARMLESS_DECORATORS:
                continue
            if dn in CACHE_DECORATORS:
                findings.append(StateFinding('ok', f'{rel}::{fs.qual}::{dn}', 'memoised on all of its arguments (including self): the key is complete by construction', fn.lineno))
                continue
            findings.append(StateFinding('undecided', f'{rel}::{fs.qual}::decorator {dn}', f'{rel}::{fs.qual} is wrapped by an unrecognised decorator `{dn}`', fn.lineno))
        if d >= 3:
            continue
        for call in (n for n in ast.walk(fn) if isinstance(n, ast.Call)):
            f = call.func
            tgt: Optional[Tuple[Optional[str], pf.FuncDef]] = None
            if isinstance(f, ast.Attribute) and isinstance(f.value, ast.Name):
                if cn and fs.selfname and f.value.id == fs.selfname:
                    tgt = mro_lookup(cn, f.attr)
                elif f.value.id in all_cls and f.value.id not in fs.locals:
                    tgt = mro_lookup(f.value.id, f.attr)
            elif isinstance(f, ast.Name) and f.id in top_funcs and f.id not in fs.locals:
                tgt = (None, top_funcs[f.id])
            if tgt is not None and not is_codec(tgt[1].name) and tgt[1].name not in ('__init__',):
                work.append((tgt[0], tgt[1], d + 1))
    # aggregate per location
    writes: Dict[tuple, List[dict]] = {}
    reads: Dict[tuple, List[dict]] = {}
    for fs in units.values():
        for w in fs.writes:
            writes.setdefault(w['loc'] if w['loc'][0] != 'inst' else ('inst', fs.cname, w['loc'][1]), []).append(w)
    for fs in units.values():
        for r in fs.reads:
            k = r['loc'] if r['loc'][0] != 'inst' else ('inst', fs.cname, r['loc'][1])
            if k in writes:
                reads.setdefault(k, []).append(r)
    for k, ws in sorted(writes.items(), key=lambda kv: str(kv[0])):
        loc = ws[0]['loc']
        shared = loc[0] != 'inst'
        lt = _loc_text(loc)
        where = ws[0]['fs'].qual
        cons = f'{rel}::{where}::state {lt}'
        line = getattr(ws[0]['node'], 'lineno', 0)
        rs = reads.get(k, [])
        vreads = [r for r in rs if r['form'] != 'len']
        # a bare counter (`X.n += 1`) reads itself only
        if not vreads:
            findings.append(StateFinding('ok', cons, f'{lt} is written by {where} but never read back by any converter: results do not depend on it', line))
            continue
        scope = ('shared by every instance of the type (and every call)' if shared else 'kept on the type instance')
        # lazy creation of the container (`if self._c is None: self._c = {}`) is neither a remembered value nor a read of one
        def _empty(v: Optional[ast.AST]) -> bool:
            return (isinstance(v, (ast.Dict, ast.List, ast.Set)) and not getattr(v, 'keys', getattr(v, 'elts', None))) or \
                   (isinstance(v, ast.Call) and pf.dotted(v.func) in ('dict', 'list', 'set', 'collections.OrderedDict', 'OrderedDict') and not v.args and not v.keywords) or \
                   (isinstance(v, ast.Constant) and v.value is None)
        ws = [w for w in ws if not (w['form'] in ('attr-assign',) and _empty(w['value']))] or ws
        def _none_test(r: dict) -> bool:
            p_ = r['fs'].par.get(r['node'])
            return isinstance(p_, ast.Compare) and len(p_.ops) == 1 and isinstance(p_.ops[0], (ast.Is, ast.IsNot)) and isinstance(p_.comparators[0], ast.Constant) and p_.comparators[0].value is None
        vreads = [r for r in vreads if not (r['form'] == 'load' and _none_test(r))]
        if not vreads:
            findings.append(StateFinding('ok', cons, f'{lt} is only created / tested for existence by the converters', line))
            continue
        keyed_w = all(w['form'] in ('setitem',) or w['form'] == 'call:setdefault' or w['form'] in ('delitem',) or (w['form'].startswith('call:') and w['form'][5:] in EVICTORS) for w in ws)
        keyed_r = all(r['form'] in ('get', 'getitem', 'contains') for r in vreads)
        plain_w = all(w['form'] in ('attr-assign',) for w in ws)
        plain_r = all(r['form'] == 'load' for r in vreads)
        if keyed_w and keyed_r:
            bad = None
            for w in ws:
                if w['form'] not in ('setitem', 'call:setdefault') or w['value'] is None:
                    continue
                fs = w['fs']
                va = fs.atoms(w['value'], loc)
                if not shared:
                    va = {a for a in va if not a.startswith('self')}
                keysets = [fs.atoms(w['key'], loc)] + [r['fs'].atoms(r['key'], loc) for r in vreads]
                for ka in keysets:
                    miss = sorted(a for a in va if not _covered(a, ka))
                    if miss:
                        bad = (w, miss, sorted(ka), sorted(va))
                        break
                if bad:
                    break
            if bad:
                w, miss, ka, va = bad
                selfmiss = [a for a in miss if a.startswith('self')]
                hist = (f'decode the same wire value first with a type whose {", ".join(selfmiss)} is A and then with one whose {", ".join(selfmiss)} is B: the second call returns the object built for A'
                        if selfmiss else f'convert two values that agree on {ka} but differ in {miss}: the second call returns the result remembered for the first')
                findings.append(StateFinding('violation', cons,
                                             f'{where} memoises in {lt} ({scope}) under the key `{pf.nsrc(w["key"])}` (depends on {ka}) a value `{pf.nsrc(w["value"])[:80]}` that also depends on {miss}: '
                                             f'the result of a conversion depends on what was converted before. History: {hist}', getattr(w['node'], 'lineno', line),
                                             dict(key_atoms=ka, value_atoms=va, missing=miss)))
            else:
                findings.append(StateFinding('ok', cons, f'memo {lt}: every input of the stored value is part of the key', line))
            continue
        if plain_w and plain_r:
            bad = None
            for w in ws:
                fs = w['fs']
                va = fs.atoms(w['value'], loc)
                if not shared:
                    va = {a for a in va if not a.startswith('self')}
                if va:
                    bad = (w, sorted(va))
                    break
            if bad:
                w, va = bad
                findings.append(StateFinding('violation', cons,
                                             f'{where} stores `{pf.nsrc(w["value"])[:80]}` (depends on {va}) in {lt} ({scope}) and a converter reads it back: a later conversion sees the value computed '
                                             f'for an earlier input. History: convert two values that differ in {va}', getattr(w['node'], 'lineno', line), dict(value_atoms=va)))
            else:
                findings.append(StateFinding('ok', cons, f'{lt} caches a value that depends on nothing but the type itself', line))
            continue
        findings.append(StateFinding('undecided', cons, f'{where} reads and writes {lt} ({scope}) in a shape that is not a recognised memo (forms: writes {sorted({w["form"] for w in ws})}, '
                                                        f'reads {sorted({r["form"] for r in vreads})}): cannot decide whether results depend on history', line))
    return findings, len(roots)


# --------------------------------------------------------------------------------------
# seeing through helpers that receive the byte stream
# --------------------------------------------------------------------------------------


def inline_stream_helpers(m: pf.Module, cls_name: str, fn: pf.FuncDef, stream: str, conv_names: Tuple[str, ...] = ('_convert_to_encoding', '_convert_from_encoding'),
                          max_rounds: int = 3) -> Tuple[pf.FuncDef, List[str]]:
    """Copy of `fn` in which statement-level calls that pass the byte stream `stream` to a helper defined in the same module
    (a method of the class or of one of its bases called as self.h(...) / Cls.h(...), static or not, or a module-level function) are
    replaced by the helper's body (engines/inline.py does the substitution).  Calls it cannot inline are left alone (the extractor then
    declines on them).  Returns (function, names of the helpers inlined); `fn` itself when nothing was inlined."""
    from . import inline as INL
    all_cls = {c.name: c for c in m.tree.body if isinstance(c, ast.ClassDef)}
    top_funcs = {f.name: f for f in m.tree.body if isinstance(f, ast.FunctionDef)}

    def mro_lookup(cn: str, meth: str, seen=()) -> Optional[pf.FuncDef]:
        c = all_cls.get(cn)
        if c is None or cn in seen:
            return None
        ms = methods(c)
        if meth in ms:
            return ms[meth]
        for b in c.bases:
            d = pf.dotted(b)
            if d in all_cls:
                r = mro_lookup(d, meth, seen + (cn,))
                if r is not None:
                    return r
        return None

    ps = param_names(fn)
    selfname = ps[0] if ps else 'self'
    cur = fn
    inlined: List[str] = []

    def resolve(call: ast.Call) -> Optional[Tuple[pf.FuncDef, bool, str]]:
        """(definition, prepend self, label) of a same-module helper that is handed the stream by this call"""
        args = list(call.args) + [k.value for k in call.keywords]
        if not any(isinstance(a, ast.Name) and a.id == stream for a in args):
            return None
        f = call.func
        target: Optional[pf.FuncDef] = None
        prepend_self = False
        label = ''
        if isinstance(f, ast.Attribute) and f.attr not in conv_names and isinstance(f.value, ast.Name):
            if f.value.id == selfname:
                target = mro_lookup(cls_name, f.attr)
                label = f'{cls_name}.{f.attr}'
                prepend_self = target is not None and 'staticmethod' not in pf.decorator_names(target)
            elif f.value.id in all_cls:
                target = mro_lookup(f.value.id, f.attr)
                label = f'{f.value.id}.{f.attr}'
        elif isinstance(f, ast.Name) and f.id in top_funcs:
            target = top_funcs[f.id]
            label = f.id
        if target is None:
            return None
        decos = pf.decorator_names(target)
        if any(d not in ('staticmethod', 'typecheck', 'typecheck_method') for d in decos):
            return None
        if prepend_self and not param_names(target):
            return None
        return target, prepend_self, label

    for _ in range(max_rounds):
        work = copy.deepcopy(cur)
        # a helper call nested in an expression (`return tuple(h(stream, ...))`) is first bound to a temporary, when nothing but plain loads is
        # evaluated before it in that statement (the order of stream operations is unchanged)
        from . import c32norm as NRM
        NRM._hoist(work, lambda c: resolve(c) is not None)
        helpers: Dict[str, pf.FuncDef] = {}
        n_rewritten = 0
        for call in [n for n in ast.walk(work) if isinstance(n, ast.Call)]:
            r = resolve(call)
            if r is None:
                continue
            target, prepend_self, label = r
            f = call.func
            new_name = '__inl_' + label.replace('.', '_')
            if new_name not in helpers:
                h = copy.deepcopy(target)
                h.name = new_name
                h.decorator_list = []
                helpers[new_name] = h
            call.func = ast.copy_location(ast.Name(id=new_name, ctx=ast.Load()), f)
            if prepend_self:
                call.args = [ast.copy_location(ast.Name(id=selfname, ctx=ast.Load()), f)] + list(call.args)
            n_rewritten += 1
        if not n_rewritten:
            break
        il = INL.Inliner(helpers, None, max_depth=2)
        il.run(work)
        if not il.inlined:
            break
        # calls that were rewritten but not inlined (not at statement level, non-tail return, ...) keep an unknown callee name: the extractor declines on them
        inlined += [n[len('__inl_'):] for n, _ in il.inlined]
        ast.fix_missing_locations(work)
        cur = work
    return cur, inlined


def stream_class(m: pf.Module, side: str) -> Optional[ast.ClassDef]:
    """The class of the byte stream handed to the converters of direction `side`: the one the entry point of HailType constructs
    (`self._convert_to_encoding(ByteWriter(buf), value)` / `self._convert_from_encoding(ByteReader(...))`), when the module imports that
    name from the byte-stream module.  None when this cannot be established (the extractor then declines on unknown operations)."""
    conv = '_convert_to_encoding' if side == 'w' else '_convert_from_encoding'
    try:
        base = m.cls('HailType')
    except AnalysisError:
        return None
    names: Set[str] = set()
    for fn in methods(base).values():
        for c in pf.calls_in(fn):
            if isinstance(c.func, ast.Attribute) and c.func.attr == conv and c.args and isinstance(c.args[0], ast.Call) and isinstance(c.args[0].func, ast.Name):
                names.add(c.args[0].func.id)
    if len(names) != 1:
        return None
    name = next(iter(names))
    imported = any(isinstance(st, ast.ImportFrom) and (st.module or '').split('.')[-1] == 'byte_reader' and any((a.asname or a.name) == name and a.name == name for a in st.names)
                   for st in m.tree.body)
    if not imported:
        return None
    try:
        return pf.load(STREAM_FILE).cls(name)
    except AnalysisError:
        return None


def stream_buffer_attr(m: pf.Module, side: str) -> Optional[str]:
    """Attribute of the writer that `write_bytes(bs)` appends to (`self._buf += bs`), else None."""
    c = stream_class(m, side)
    if c is None:
        return None
    wb = methods(c).get('write_bytes')
    if wb is None:
        return None
    b = body_wo_doc(wb)
    ps = param_names(wb)
    if len(b) == 1 and len(ps) == 2 and isinstance(b[0], ast.AugAssign) and isinstance(b[0].op, ast.Add) and isinstance(b[0].target, ast.Attribute) \
            and isinstance(b[0].target.value, ast.Name) and b[0].target.value.id == ps[0] and isinstance(b[0].value, ast.Name) and b[0].value.id == ps[1]:
        return b[0].target.attr
    return None


def inline_stream_methods(m: pf.Module, fn: pf.FuncDef, stream: str, side: str) -> Tuple[pf.FuncDef, List[str]]:
    """Copy of `fn` in which statement-level calls `<stream>.op(...)` of NON-primitive operations defined on the stream class (composite
    readers / writers such as write_str = length prefix + bytes) are replaced by the operation's body, with its `self` renamed to the
    stream.  Primitive operations (PRIMITIVE_STREAM_OPS) stay calls.  Returns (function, labels of the operations inlined)."""
    from . import inline as INL
    c = stream_class(m, side)
    if c is None:
        return fn, []
    helpers = {n: f for n, f in methods(c).items() if n not in PRIMITIVE_STREAM_OPS and not n.startswith('__') and isinstance(f, ast.FunctionDef)
               and not (side == 'r' and packed_read_summary(m, n) is not None)}   # bulk reads are summarised (one 'packed' item), not inlined
    used = {n.func.attr for n in ast.walk(fn) if isinstance(n, ast.Call) and isinstance(n.func, ast.Attribute) and isinstance(n.func.value, ast.Name)
            and n.func.value.id == stream and n.func.attr in helpers}
    if not used:
        return fn, []
    work = copy.deepcopy(fn)
    il = INL.Inliner({k: copy.deepcopy(v) for k, v in helpers.items()}, stream, max_depth=3)
    il.run(work)
    if not il.inlined:
        return fn, []
    ast.fix_missing_locations(work)
    return work, [f'{c.name}.{n}' for n, _ in il.inlined]


# --------------------------------------------------------------------------------------
# missing-bit regions: an evaluator of the extracted statements over a symbolic missingness vector
# --------------------------------------------------------------------------------------
#
# The statements that compute and write the missing bytes of a container with N component slots are executed by the small
# interpreter below (never by Python): integers, ranges and sequences are concrete (N is fixed per run, N = 0..MAX_N), the
# missingness of slot k is a symbol m_k, and a byte accumulator is a map  bit position -> set of symbols OR-ed into it.
# The bytes handed to write_byte are compared with the engine layout: ceil(N/8) bytes, byte b holds exactly slots 8b..8b+7,
# slot e at bit e % 8.  Because every accumulator bit is a disjunction of symbols, agreement of the symbolic bytes is agreement
# for all 2^N missingness vectors.

MAX_N = 17
CONST1 = -1  # pseudo-symbol: the bit is set unconditionally


class ModelledError(Exception):
    """The modelled program raises at run time (IndexError, struct.error, ...) for the evaluated N."""


class _Elem:
    def __init__(self, k: int):
        self.k = k


class _Key:
    def __init__(self, k: int):
        self.k = k

    def __eq__(self, o):
        return isinstance(o, _Key) and o.k == self.k

    def __hash__(self):
        return hash(('key', self.k))


MAP_BASE = 1000  # slot numbers >= MAP_BASE: the (k - MAP_BASE)-th entry of a Mapping value in the value's OWN iteration order


class _MapKey(_Key):
    """key of the p-th entry of `value.keys()` / `value.items()`: the mapping's own order, which the type does not determine"""

    def __init__(self, p: int):
        super().__init__(MAP_BASE + p)


class _TypeC:
    def __init__(self, k: int):
        self.k = k


class _Miss:
    def __init__(self, k: int):
        self.k = k


class _Obj:
    def __init__(self, kind: str):
        self.kind = kind  # 'self' | 'value' | 'stream'


class SymInt:
    def __init__(self, bits: Optional[Dict[int, frozenset]] = None):
        self.bits: Dict[int, frozenset] = {b: s for b, s in (bits or {}).items() if s}

    @staticmethod
    def of(v: Any) -> 'SymInt':
        if isinstance(v, SymInt):
            return v
        if isinstance(v, _Miss):
            return SymInt({0: frozenset([v.k])})
        if isinstance(v, bool):
            v = int(v)
        if isinstance(v, int):
            if v < 0:
                raise AnalysisError('missing-bit evaluator: negative accumulator value')
            return SymInt({b: frozenset([CONST1]) for b in range(v.bit_length()) if (v >> b) & 1})
        raise AnalysisError(f'missing-bit evaluator: {type(v).__name__} used as a bit pattern')

    def norm(self) -> Dict[int, frozenset]:
        return {b: (frozenset([CONST1]) if CONST1 in s else s) for b, s in self.bits.items()}

    def concrete(self) -> Optional[int]:
        if all(CONST1 in s for s in self.bits.values()):
            return sum(1 << b for b in self.bits)
        return None

    def __or__(self, o: 'SymInt') -> 'SymInt':
        out = dict(self.bits)
        for b, s in o.bits.items():
            out[b] = out.get(b, frozenset()) | s
        return SymInt(out)

    def shift(self, n: int) -> 'SymInt':
        return SymInt({b + n: s for b, s in self.bits.items() if b + n >= 0})

    def mask(self, m: int) -> 'SymInt':
        return SymInt({b: s for b, s in self.bits.items() if (m >> b) & 1})


class _Break(Exception):
    pass


class _Continue(Exception):
    pass


class _Return(Exception):
    pass


class MissingBitsEval:
    def __init__(self, where: str, selfname: str, stream: str, value: Optional[str], n: int):
        self.where, self.n = where, n
        self.env: Dict[str, Any] = {selfname: _Obj('self'), stream: _Obj('stream')}
        if value:
            self.env[value] = _Obj('value')
        self.emitted: List[Tuple[SymInt, ast.AST]] = []
        self.size_sources: Set[str] = set()
        self.map_views: List[str] = []   # source text of the views of a Mapping value that were iterated (value.values(), ...)
        self.steps = 0

    def fail(self, node: Optional[ast.AST], msg: str):
        raise AnalysisError(f'{self.where} (line {getattr(node, "lineno", 0)}): missing-bit evaluator: {msg}')

    # ---- sequences --------------------------------------------------------------
    def seq_of(self, v: Any, node: ast.AST) -> List[Any]:
        if isinstance(v, (list, tuple)):
            return list(v)
        if isinstance(v, range):
            return list(v)
        if isinstance(v, _Obj) and v.kind == 'value':
            self.size_sources.add('value')
            return [_Elem(k) for k in range(self.n)]
        self.fail(node, f'cannot iterate over `{pf.nsrc(node)[:60]}`')
        return []

    # ---- expressions --------------------------------------------------------------
    def ev(self, e: ast.AST) -> Any:
        self.steps += 1
        if self.steps > 200000:
            self.fail(e, 'evaluation does not terminate')
        if isinstance(e, ast.Constant):
            return e.value
        if isinstance(e, ast.Name):
            if e.id in self.env:
                return self.env[e.id]
            if e.id in ('True', 'False', 'None'):
                return {'True': True, 'False': False, 'None': None}[e.id]
            self.fail(e, f'unbound name `{e.id}`')
        if isinstance(e, (ast.List, ast.Tuple)):
            vals = [self.ev(x) for x in e.elts]
            return vals if isinstance(e, ast.List) else tuple(vals)
        if isinstance(e, ast.Attribute):
            if e.attr == '_missing' and isinstance(e.value, ast.Name) and (e.value.id == 'HailType' or (isinstance(self.env.get(e.value.id), _Obj) and self.env[e.value.id].kind == 'self')):
                return _Obj('missing-predicate')  # the predicate handed around as a value
            base = self.ev(e.value)
            if isinstance(base, _Obj) and base.kind == 'self':
                if e.attr in ('types', '_types'):
                    self.size_sources.add('fields')
                    return [_TypeC(k) for k in range(self.n)]
                if e.attr in ('fields', '_fields'):
                    self.size_sources.add('fields')
                    return [_Key(k) for k in range(self.n)]
                if e.attr == '_field_types':
                    return _Obj('fieldtypes')
            self.fail(e, f'unsupported attribute `{pf.nsrc(e)[:60]}`')
        if isinstance(e, ast.Subscript):
            base = self.ev(e.value)
            if isinstance(e.slice, ast.Slice):
                self.fail(e, 'slicing')
            idx = self.ev(e.slice)
            if isinstance(base, _Obj) and base.kind == 'value':
                if isinstance(idx, _Key):
                    return _Elem(idx.k)
                if isinstance(idx, int) and not isinstance(idx, bool):
                    if not (-self.n <= idx < self.n):
                        raise ModelledError(f'`{pf.nsrc(e)}` indexes slot {idx} of a value with {self.n} slot(s): IndexError')
                    return _Elem(idx % self.n if self.n else 0)
                self.fail(e, f'value indexed by `{pf.nsrc(e.slice)[:40]}`')
            if isinstance(base, (list, tuple)) and isinstance(idx, int) and not isinstance(idx, bool):
                if not (-len(base) <= idx < len(base)):
                    raise ModelledError(f'`{pf.nsrc(e)}` indexes position {idx} of a sequence of length {len(base)} (n = {self.n}): IndexError')
                return base[idx]
            self.fail(e, f'unsupported subscript `{pf.nsrc(e)[:60]}`')
        if isinstance(e, ast.UnaryOp):
            v = self.ev(e.operand)
            if isinstance(e.op, ast.Not):
                if isinstance(v, (_Miss, SymInt)):
                    self.fail(e, 'negated missingness in a value position')
                return not v
            if isinstance(v, (int, float)) and not isinstance(v, bool) or isinstance(v, bool):
                return {ast.USub: lambda: -v, ast.UAdd: lambda: +v, ast.Invert: lambda: ~v}[type(e.op)]()
            self.fail(e, 'unary operator on a symbolic value')
        if isinstance(e, ast.BinOp):
            return self.binop(e, self.ev(e.left), self.ev(e.right))
        if isinstance(e, ast.BoolOp):
            res: Any = None
            for i_, v in enumerate(e.values):
                res = self.ev(v)
                if isinstance(res, (_Miss, SymInt)):
                    if i_ == len(e.values) - 1:
                        return res  # `concrete-guard and missing(x)`: the guards before it were decided concretely
                    self.fail(e, 'missingness combined with and/or')
                if isinstance(e.op, ast.And) and not res:
                    return res
                if isinstance(e.op, ast.Or) and res:
                    return res
            return res
        if isinstance(e, ast.Compare):
            left = self.ev(e.left)
            for op, c in zip(e.ops, e.comparators):
                right = self.ev(c)
                for x in (left, right):
                    if not isinstance(x, (int, float, str, type(None), _Key)) and not isinstance(x, bool):
                        self.fail(e, f'comparison involving a symbolic or opaque value `{pf.nsrc(e)[:60]}`')
                try:
                    ok = {ast.Eq: lambda: left == right, ast.NotEq: lambda: left != right, ast.Lt: lambda: left < right, ast.LtE: lambda: left <= right,
                          ast.Gt: lambda: left > right, ast.GtE: lambda: left >= right, ast.Is: lambda: left is right, ast.IsNot: lambda: left is not right}[type(op)]()
                except KeyError:
                    self.fail(e, 'unsupported comparison operator')
                if not ok:
                    return False
                left = right
            return True
        if isinstance(e, ast.IfExp):
            t = self.ev(e.test)
            if isinstance(t, _Miss):
                a, b = self.ev(e.body), self.ev(e.orelse)
                if isinstance(b, int) and not isinstance(b, bool) and b == 0 and isinstance(a, int) and not isinstance(a, bool) and a >= 0:
                    return SymInt({bit: frozenset([t.k]) for bit in range(a.bit_length()) if (a >> bit) & 1})
                self.fail(e, 'conditional on missingness whose alternatives are not (bit pattern, 0)')
            if isinstance(t, SymInt):
                self.fail(e, 'conditional on a symbolic integer')
            return self.ev(e.body) if t else self.ev(e.orelse)
        if isinstance(e, (ast.ListComp, ast.GeneratorExp, ast.SetComp)):
            out: List[Any] = []
            saved = dict(self.env)

            def gen(i: int):
                if i == len(e.generators):
                    out.append(self.ev(e.elt))
                    return
                g = e.generators[i]
                for item in self.seq_of(self.ev(g.iter), g.iter):
                    self.assign(g.target, item)
                    if all(self.truth(c) for c in g.ifs):
                        gen(i + 1)
            gen(0)
            self.env = saved
            return out
        if isinstance(e, ast.Call):
            return self.call(e)
        self.fail(e, f'unsupported expression `{pf.nsrc(e)[:60]}`')

    def truth(self, e: ast.AST) -> bool:
        v = self.ev(e)
        if isinstance(v, (_Miss, SymInt)):
            self.fail(e, 'missingness used as a filter')
        return bool(v)

    def binop(self, e: ast.BinOp, a: Any, b: Any) -> Any:
        sym = isinstance(a, (SymInt, _Miss)) or isinstance(b, (SymInt, _Miss))
        op = type(e.op)
        if not sym:
            for x in (a, b):
                if not isinstance(x, (int, float)):
                    if isinstance(x, (list, tuple)) and op is ast.Add and isinstance(a, type(b)):
                        return a + b
                    self.fail(e, f'arithmetic on `{type(x).__name__}`')
            try:
                return {ast.Add: lambda: a + b, ast.Sub: lambda: a - b, ast.Mult: lambda: a * b, ast.FloorDiv: lambda: a // b, ast.Div: lambda: a / b, ast.Mod: lambda: a % b,
                        ast.LShift: lambda: a << b, ast.RShift: lambda: a >> b, ast.BitOr: lambda: a | b, ast.BitAnd: lambda: a & b, ast.BitXor: lambda: a ^ b,
                        ast.Pow: lambda: a ** b}[op]()
            except KeyError:
                self.fail(e, 'unsupported operator')
            except (ZeroDivisionError, ValueError, TypeError) as ex:
                raise ModelledError(f'`{pf.nsrc(e)}` raises {type(ex).__name__} for n = {self.n}')
        if op in (ast.BitOr, ast.Add, ast.BitXor):
            x, y = SymInt.of(a), SymInt.of(b)
            if op is not ast.BitOr and set(x.bits) & set(y.bits):
                self.fail(e, f'`{pf.nsrc(e)[:50]}` adds overlapping symbolic bit patterns')
            return x | y
        if op in (ast.LShift, ast.RShift, ast.Mult) and isinstance(b, int) and not isinstance(b, bool):
            x = SymInt.of(a)
            if op is ast.Mult:
                if b <= 0 or b & (b - 1):
                    self.fail(e, 'symbolic value multiplied by a non-power-of-two')
                return x.shift(b.bit_length() - 1)
            if b < 0:
                raise ModelledError(f'`{pf.nsrc(e)}`: negative shift count for n = {self.n}')
            return x.shift(b if op is ast.LShift else -b)
        if op is ast.Mult and isinstance(a, int) and not isinstance(a, bool) and a > 0 and a & (a - 1) == 0:
            return SymInt.of(b).shift(a.bit_length() - 1)
        if op is ast.BitAnd:
            for x, m in ((a, b), (b, a)):
                if isinstance(m, int) and not isinstance(m, bool) and m >= 0:
                    return SymInt.of(x).mask(m)
        self.fail(e, f'unsupported operation on a symbolic value `{pf.nsrc(e)[:60]}`')

    def call(self, e: ast.Call) -> Any:
        f = e.func
        d = pf.dotted(f)
        if isinstance(f, ast.Name) and isinstance(self.env.get(f.id), _Obj) and self.env[f.id].kind == 'missing-predicate' and len(e.args) == 1 and not e.keywords:
            return self.missing(e, self.ev(e.args[0]))
        if e.keywords and d not in ('enumerate',):
            self.fail(e, f'keyword arguments in `{pf.nsrc(e)[:60]}`')
        if isinstance(f, ast.Attribute):
            base = self.ev(f.value) if not (isinstance(f.value, ast.Name) and f.value.id not in self.env) else None
            if isinstance(base, _Obj) and base.kind == 'stream':
                args = [self.ev(a) for a in e.args]
                if f.attr == 'write_byte':
                    if len(args) != 1:
                        self.fail(e, 'write_byte arity')
                    v = args[0]
                    if isinstance(v, int) and not isinstance(v, bool) and v < 0:
                        raise ModelledError(f'write_byte({v}) for n = {self.n}: struct.error')
                    self.emitted.append((SymInt.of(v), e))
                return None
            if isinstance(base, _Obj) and base.kind == 'value':
                # views of a Mapping value (only a mapping has them): n entries - a well-typed struct value has the declared key set - in
                # the value's own iteration order, which nothing ties to the declared field order
                if f.attr in ('values', 'keys', 'items') and not e.args:
                    self.size_sources.add('mapping')
                    if pf.nsrc(e) not in self.map_views:
                        self.map_views.append(pf.nsrc(e))
                    if f.attr == 'values':
                        return [_Elem(MAP_BASE + p) for p in range(self.n)]
                    if f.attr == 'keys':
                        return [_MapKey(p) for p in range(self.n)]
                    return [(_MapKey(p), _Elem(MAP_BASE + p)) for p in range(self.n)]
                if f.attr == 'get' and len(e.args) == 1:
                    k_ = self.ev(e.args[0])
                    if isinstance(k_, _Key):
                        return _Elem(k_.k)   # an absent key yields None, which the missingness test treats like a missing field
            if isinstance(base, _Obj) and base.kind in ('self', 'fieldtypes'):
                if f.attr == 'keys' and not e.args:
                    self.size_sources.add('fields')
                    return [_Key(k) for k in range(self.n)]
                if f.attr == 'items' and not e.args:
                    self.size_sources.add('fields')
                    return [(_Key(k), _TypeC(k)) for k in range(self.n)]
                if f.attr == 'values' and not e.args:
                    self.size_sources.add('fields')
                    return [_TypeC(k) for k in range(self.n)]
                if f.attr == '_missing' and len(e.args) == 1:
                    return self.missing(e, self.ev(e.args[0]))
            if d in ('HailType._missing',) and len(e.args) == 1:
                return self.missing(e, self.ev(e.args[0]))
            if d == 'math.ceil' and len(e.args) == 1:
                v = self.ev(e.args[0])
                if isinstance(v, (int, float)):
                    import math
                    return math.ceil(v)
            if isinstance(base, list) and f.attr == 'append' and len(e.args) == 1:
                base.append(self.ev(e.args[0]))
                return None
            self.fail(e, f'unsupported call `{pf.nsrc(e)[:60]}`')
        if d == 'len' and len(e.args) == 1:
            v = self.ev(e.args[0])
            if isinstance(v, _Obj) and v.kind in ('self', 'value', 'fieldtypes'):
                self.size_sources.add('value' if v.kind == 'value' else 'fields')
                return self.n
            if isinstance(v, (list, tuple, range)):
                return len(v)
            self.fail(e, f'len of `{pf.nsrc(e.args[0])[:40]}`')
        if d == 'range' and 1 <= len(e.args) <= 3:
            args = [self.ev(a) for a in e.args]
            if all(isinstance(a, int) and not isinstance(a, bool) for a in args):
                try:
                    return range(*args)
                except ValueError as ex:
                    raise ModelledError(f'`{pf.nsrc(e)}`: {ex}')
            self.fail(e, 'range over non-integers')
        if d in ('min', 'max') and e.args:
            args = [self.ev(a) for a in e.args]
            if len(args) == 1:
                args = self.seq_of(args[0], e.args[0])
            if all(isinstance(a, (int, float)) and not isinstance(a, bool) for a in args) and args:
                return (min if d == 'min' else max)(args)
            self.fail(e, f'{d} over non-numbers')
        if d == 'enumerate' and 1 <= len(e.args) <= 2:
            start = self.ev(e.args[1]) if len(e.args) == 2 else 0
            for k in e.keywords:
                if k.arg == 'start':
                    start = self.ev(k.value)
            return [(start + i, x) for i, x in enumerate(self.seq_of(self.ev(e.args[0]), e.args[0]))]
        if d in ('list', 'tuple') and len(e.args) <= 1:
            if not e.args:
                return [] if d == 'list' else ()
            s = self.seq_of(self.ev(e.args[0]), e.args[0])
            return s if d == 'list' else tuple(s)
        if d == 'zip':
            return list(zip(*[self.seq_of(self.ev(a), a) for a in e.args]))
        if d == 'reversed' and len(e.args) == 1:
            return list(reversed(self.seq_of(self.ev(e.args[0]), e.args[0])))
        if d in ('int', 'bool') and len(e.args) == 1:
            v = self.ev(e.args[0])
            if isinstance(v, _Miss):
                return v
            if isinstance(v, (int, float, bool)):
                return int(v) if d == 'int' else bool(v)
        if d == 'divmod' and len(e.args) == 2:
            a, b = self.ev(e.args[0]), self.ev(e.args[1])
            if isinstance(a, int) and isinstance(b, int) and b:
                return divmod(a, b)
        if d == 'bytearray' and not e.args:
            return []
        self.fail(e, f'unsupported call `{pf.nsrc(e)[:60]}`')

    def missing(self, e: ast.AST, v: Any) -> Any:
        if isinstance(v, _Elem):
            return _Miss(v.k)
        self.fail(e, 'missingness test of something that is not a slot of the value')

    # ---- statements -------------------------------------------------------------------
    def assign(self, t: ast.AST, v: Any) -> None:
        if isinstance(t, ast.Name):
            self.env[t.id] = v
        elif isinstance(t, (ast.Tuple, ast.List)):
            vals = self.seq_of(v, t)
            if len(vals) != len(t.elts) or any(isinstance(x, ast.Starred) for x in t.elts):
                self.fail(t, 'unpacking mismatch')
            for x, y in zip(t.elts, vals):
                self.assign(x, y)
        elif isinstance(t, ast.Subscript):
            base = self.ev(t.value)
            idx = self.ev(t.slice)
            if isinstance(base, list) and isinstance(idx, int) and -len(base) <= idx < len(base):
                base[idx] = v
            else:
                self.fail(t, 'unsupported store')
        else:
            self.fail(t, 'unsupported assignment target')

    def run(self, stmts: Sequence[ast.stmt]) -> None:
        for st in stmts:
            self.stmt(st)

    def stmt(self, st: ast.stmt) -> None:
        self.steps += 1
        if self.steps > 200000:
            self.fail(st, 'evaluation does not terminate')
        if isinstance(st, (ast.Pass, ast.Assert, ast.FunctionDef, ast.AsyncFunctionDef, ast.Import, ast.ImportFrom)):
            return
        if isinstance(st, ast.Expr):
            if isinstance(st.value, ast.Constant):
                return
            self.ev(st.value)
        elif isinstance(st, ast.Assign):
            v = self.ev(st.value)
            for t in st.targets:
                self.assign(t, v)
        elif isinstance(st, ast.AnnAssign):
            if st.value is not None:
                self.assign(st.target, self.ev(st.value))
        elif isinstance(st, ast.AugAssign):
            if not isinstance(st.target, (ast.Name, ast.Subscript)):
                self.fail(st, 'augmented assignment to an attribute')
            cur = self.ev(st.target)
            fake = ast.BinOp(left=st.target, op=st.op, right=st.value)
            ast.copy_location(fake, st)
            self.assign(st.target, self.binop(fake, cur, self.ev(st.value)))
        elif isinstance(st, ast.If):
            t = self.ev(st.test)
            if isinstance(t, _Miss):
                self.guarded(st, t.k)
            elif isinstance(t, SymInt):
                self.fail(st, 'branch on a symbolic integer')
            else:
                self.run(st.body if t else st.orelse)
        elif isinstance(st, ast.While):
            n = 0
            while True:
                t = self.ev(st.test)
                if isinstance(t, (_Miss, SymInt)):
                    self.fail(st, 'loop condition depends on missingness')
                if not t:
                    self.run(st.orelse)
                    break
                n += 1
                if n > 5000:
                    self.fail(st, f'loop does not terminate for n = {self.n}')
                try:
                    self.run(st.body)
                except _Break:
                    break
                except _Continue:
                    continue
        elif isinstance(st, ast.For):
            broke = False
            for item in self.seq_of(self.ev(st.iter), st.iter):
                self.assign(st.target, item)
                try:
                    self.run(st.body)
                except _Break:
                    broke = True
                    break
                except _Continue:
                    continue
            if not broke:
                self.run(st.orelse)
        elif isinstance(st, ast.Break):
            raise _Break()
        elif isinstance(st, ast.Continue):
            raise _Continue()
        elif isinstance(st, ast.Return):
            raise _Return()
        else:
            self.fail(st, f'unsupported statement {type(st).__name__}')

    def guarded(self, st: ast.If, k: int) -> None:
        """`if missing(slot k): body` - the body may only OR constant bits into integer variables (no stream output)."""
        if st.orelse:
            self.fail(st, 'else branch of a missingness test inside the missing-bit computation')
        before = dict(self.env)
        n_emit = len(self.emitted)
        self.run(st.body)
        if len(self.emitted) != n_emit:
            self.fail(st, 'stream output under a missingness test inside the missing-bit computation')
        after = self.env
        merged = dict(before)
        for name, new in after.items():
            old = before.get(name)
            if new is old:
                continue
            if name not in before:
                continue  # a temporary introduced in the body
            try:
                so, sn = SymInt.of(old), SymInt.of(new)
            except AnalysisError:
                self.fail(st, f'`{name}` is changed under a missingness test in a way that is not OR-ing bits')
            so_n, sn_n = so.norm(), sn.norm()
            delta = {}
            for b, s in sn_n.items():
                if b in so_n and so_n[b] == s:
                    continue
                if CONST1 in s and CONST1 not in so_n.get(b, frozenset()):
                    delta[b] = frozenset([k])
                elif so_n.get(b, frozenset()) <= s:
                    extra = s - so_n.get(b, frozenset())
                    if extra - {k}:
                        self.fail(st, 'conjunction of missingness symbols')
                    delta[b] = frozenset([k])
                else:
                    self.fail(st, f'`{name}` loses bits under a missingness test')
            if any(b not in sn_n for b in so_n):
                self.fail(st, f'`{name}` loses bits under a missingness test')
            merged[name] = so | SymInt(delta)
        self.env = merged


def expected_missing_bytes(n: int) -> List[Dict[int, frozenset]]:
    return [{j: frozenset([8 * b + j]) for j in range(8) if 8 * b + j < n} for b in range((n + 7) // 8)]


def eval_missing_region(info: dict, n: int, views: Optional[List[str]] = None) -> Tuple[List[Dict[int, frozenset]], Set[str]]:
    """Symbolic bytes written by the missing-bit region `info` (from Extractor) for a container with n slots.
    `views` (optional) collects the source text of the Mapping views of the value the region iterated."""
    ev = MissingBitsEval(info['where'], info['selfname'], info['stream'], info['value'], n)
    try:
        ev.run(list(info['before']) + list(info['stmts']))
    except _Return:
        pass
    except (_Break, _Continue):
        raise AnalysisError(f'{info["where"]}: break/continue outside a loop in the missing-bit region')
    if views is not None:
        views += [v for v in ev.map_views if v not in views]
    return [s.norm() for s, _ in ev.emitted], ev.size_sources


def _declared_order(got: List[Dict[int, frozenset]]) -> Tuple[List[Dict[int, frozenset]], bool]:
    """Bytes with every own-iteration-order slot of a Mapping value renamed to the declared slot of the same number (what the bytes
    would be IF the value listed its fields in declared order), and whether such slots occur at all."""
    used = False
    out: List[Dict[int, frozenset]] = []
    for g in got:
        d: Dict[int, frozenset] = {}
        for bit, syms in g.items():
            if any(x >= MAP_BASE for x in syms):
                used = True
            d[bit] = frozenset((x - MAP_BASE if x >= MAP_BASE else x) for x in syms)
        out.append(d)
    return out, used


def check_missing_region(info: dict, max_n: int = MAX_N, own_order_is_defect: bool = True) -> Tuple[Optional[str], Set[str]]:
    """None when the region writes exactly the engine's missing bytes for every n <= max_n and every missingness vector; otherwise a
    message with a concrete counter-example.  Also returns which size the region ranges over ('value' = len(value), 'fields', 'mapping' =
    a view of a Mapping value).  own_order_is_defect: slots are the DECLARED components of a fixed-arity type (struct), so a header that
    follows the value's own iteration order is wrong; False for containers whose slots are the entries of the value itself."""
    sources: Set[str] = set()
    views: List[str] = []
    own_order = False
    for n in range(0, max_n + 1):
        try:
            got, src = eval_missing_region(info, n, views)
        except ModelledError as ex:
            return f'for a container with n = {n} slots the missing-bit code raises: {ex}', sources
        sources |= src
        # slots taken from a Mapping value's own iteration order: first decide the packing as if that order were the declared one
        # (any other defect is reported as such); the order itself is decided after the loop
        got, used = _declared_order(got)
        own_order = own_order or (used and n >= 2)
        want = expected_missing_bytes(n)
        if len(got) != len(want):
            return (f'for n = {n} slots {len(got)} missing byte(s) are written, the layout has ceil(n/8) = {len(want)}: every later field is read from the wrong offset'), sources
        for b, (g, w) in enumerate(zip(got, want)):
            if g == w:
                continue
            for bit in sorted(set(g) | set(w)):
                gs, ws = g.get(bit, frozenset()), w.get(bit, frozenset())
                if gs == ws:
                    continue
                if bit >= 8:
                    return f'for n = {n} the value handed to write_byte has bit {bit} set (does not fit a byte: struct.error)', sources
                own = 8 * b + bit
                extra = sorted(x for x in gs - ws)
                if extra:
                    e0 = extra[0]
                    whose = 'unconditionally' if e0 == CONST1 else f'when slot {e0} is missing'
                    tgt = f'slot {own}' if own < n else f'no slot (n = {n})'
                    hint = ' (bits of an earlier byte leak into this one: the accumulator is not reset after it is written)' if e0 != CONST1 and e0 // 8 < b and e0 % 8 == bit else ''
                    return (f'n = {n}, ' + ('only ' if e0 != CONST1 else '') + (f'slot {e0} missing' if e0 != CONST1 else 'nothing missing') + f': byte {b} of the missing bytes has bit {bit} set {whose}, '
                            f'but bit {bit} of byte {b} belongs to {tgt}{hint}; the engine (and the Python reader) look up slot e at bit e % 8 of byte e // 8, so '
                            + (f'slot {own} is decoded as missing and every later value is read from the wrong offset' if own < n else 'the byte differs from the engine layout')), sources
                lost = sorted(ws - gs)
                return (f'n = {n}, slot {lost[0]} missing: bit {bit} of byte {b} is not set' + (f' (it is set for slot(s) {sorted(gs)} instead)' if gs else '')
                        + ': the reader decodes a value for the missing slot and every later value is read from the wrong offset'), sources
    if own_order and own_order_is_defect:
        v = ', '.join(f'`{x}`' for x in views) or 'a view of the value'
        return (f'bit k of the missing bytes is computed from the k-th entry of {v}, i.e. in the iteration order of the value itself, but bit k belongs to the k-th DECLARED '
                f'field (the payload loop, the decoder and the engine\'s EBaseStruct all go by the type); a well-typed struct value is any Mapping with the declared keys, '
                f'in any order: for struct{{f0, f1}} the value {{f1: None, f0: x}} yields header bits 0b01 (f0 marked missing, f1 present) while the payload holds f0 only - '
                f'the decoder skips f0 and decodes f1 from f0\'s bytes'), sources
    return None, sources


def type_params_passed(classes: Dict[str, ast.ClassDef], cname: str, fn: pf.FuncDef, ctor: ast.Call, vc: ValueClass) -> List[Tuple[str, Optional[bool], str]]:
    """For every constructor parameter of the value class that is also a parameter of the Hail type (same name as a property / attribute of the
    type class, e.g. Locus(reference_genome=) <-> tlocus.reference_genome, Interval(point_type=) <-> tinterval.point_type): does the decoder pass
    the type's own value?  [(parameter, ok, what is passed)]; ok is None when what is passed is not recognised (neither the type's own value nor
    recognisably something else)"""
    ms = methods(classes[cname])
    selfname = param_names(fn)[0] if param_names(fn) else 'self'
    out: List[Tuple[str, bool, str]] = []
    eq = methods(vc.cls).get('__eq__')
    for p in vc.params + vc.kwonly:
        if p not in ms or 'property' not in pf.decorator_names(ms[p]):
            continue
        # only parameters that take part in the value's equality are a necessary condition of "reads back equal"
        attr = vc.attr_for_param(p)
        if eq is None or attr is None or not any(isinstance(n, ast.Attribute) and n.attr == attr for n in ast.walk(eq)):
            continue
        b = body_wo_doc(ms[p])
        stored = None
        if len(b) == 1 and isinstance(b[0], ast.Return) and isinstance(b[0].value, ast.Attribute) and isinstance(b[0].value.value, ast.Name):
            stored = b[0].value.attr
        passed = None
        for a in list(ctor.args) + [k.value for k in ctor.keywords]:
            try:
                if vc.param_of_arg(ctor, a) == p:
                    passed = a
            except AnalysisError:
                continue
        if passed is None:
            out.append((p, False, 'nothing (the constructor default)'))
            continue
        r = pf.resolve_expr(fn, passed)
        ok: Optional[bool] = pf.nsrc(r) in (f'{selfname}.{p}',) + ((f'{selfname}.{stored}',) if stored else ())
        if not ok and not (isinstance(r, ast.Constant) or (isinstance(r, ast.Attribute) and isinstance(r.value, ast.Name) and r.value.id == selfname)
                           or (isinstance(r, ast.Name) and not pf.assignments(fn).get(r.id))):
            # neither the type's own parameter nor something recognisably different (a constant, another attribute of the type, a module-level name):
            # the caller declines
            ok = None
        out.append((p, ok, f'`{pf.nsrc(passed)}`'))
    return out


# --------------------------------------------------------------------------------------
# reader side: which symbol decides whether slot k is decoded?
# --------------------------------------------------------------------------------------
#
# The decoder of a container with N slots is executed by the same interpreter with the missing bytes *symbolic*: bit j of byte b is the
# symbol s_(8b+j) (0 beyond slot N-1).  A branch on a value computed from them forks; the delegated decode calls reached are logged with
# the branch decisions they sit under.  The layout demands: ceil(N/8) missing bytes are read first, and the k-th delegated decode is
# performed exactly when s_k is 0 - whatever idiom (lookup_bit, inline shifts, a helper returning a list of flags) computes that.


class _Decoded:
    def __init__(self, idx: int):
        self.idx = idx


class _CondVal:
    def __init__(self, guard: tuple, a: Any, b: Any):
        self.guard, self.a, self.b = guard, a, b


class _SymCond:
    def __init__(self, syms: frozenset, neg: bool = False):
        self.syms, self.neg = syms, neg


class _ReturnV(Exception):
    def __init__(self, value: Any):
        self.value = value


def _same(a: Any, b: Any) -> bool:
    if type(a) is not type(b):
        return False
    if isinstance(a, SymInt):
        return a.norm() == b.norm()
    if isinstance(a, (_Elem, _Key, _TypeC, _Miss)):
        return a.k == b.k
    if isinstance(a, _Decoded):
        return a.idx == b.idx
    if isinstance(a, _Obj):
        return a.kind == b.kind
    if isinstance(a, _CondVal):
        return a.guard == b.guard and _same(a.a, b.a) and _same(a.b, b.b)
    if isinstance(a, (list, tuple)):
        return len(a) == len(b) and all(_same(x, y) for x, y in zip(a, b))
    if isinstance(a, dict):
        return set(a) == set(b) and all(_same(a[k], b[k]) for k in a)
    try:
        return a == b
    except Exception:  # noqa: BLE001
        return False


_HELPER_CACHE: Dict[tuple, Any] = {}


class MissingBitsReadEval(MissingBitsEval):
    def __init__(self, m: pf.Module, cls: str, where: str, selfname: str, stream: str, n: int):
        super().__init__(where, selfname, stream, None, n)
        self.m, self.cls = m, cls
        self.events: List[tuple] = []       # ('bytes', k, guards) | ('rec', target, guards, line) | ('i32', guards)
        self.guards: List[Tuple[frozenset, bool]] = []
        self.depth = 0

    # ---- symbolic conditions -------------------------------------------------------
    def as_cond(self, v: Any, node: ast.AST) -> Any:
        """concrete bool, or _SymCond"""
        if isinstance(v, _SymCond):
            return v
        if isinstance(v, _Miss):
            return _SymCond(frozenset([v.k]))
        if isinstance(v, SymInt):
            syms: Set[int] = set()
            for s in v.bits.values():
                syms |= set(s)
            if CONST1 in syms:
                return True
            if not syms:
                return False
            return _SymCond(frozenset(syms))
        if isinstance(v, (_CondVal, _Decoded, _Elem)):
            self.fail(node, 'branch on a decoded value')
        return bool(v)

    def ev(self, e: ast.AST) -> Any:
        if isinstance(e, ast.UnaryOp) and isinstance(e.op, ast.Not):
            v = self.as_cond(self.ev(e.operand), e)
            return _SymCond(v.syms, not v.neg) if isinstance(v, _SymCond) else (not v)
        if isinstance(e, ast.Compare) and len(e.ops) == 1:
            l, r = self.ev(e.left), self.ev(e.comparators[0])
            for a, b in ((l, r), (r, l)):
                if isinstance(a, (SymInt, _Miss)) and isinstance(b, int) and not isinstance(b, bool) and isinstance(e.ops[0], (ast.Eq, ast.NotEq)):
                    s = SymInt.of(a)
                    if (set(s.bits) - {0}) and b != 0:
                        self.fail(e, f'comparison of a multi-bit symbolic value `{pf.nsrc(e)[:60]}`')
                    c = self.as_cond(s, e)   # non-zero iff some contributing bit is set
                    if b not in (0, 1):
                        return isinstance(e.ops[0], ast.NotEq)
                    want_true = (b == 1) == isinstance(e.ops[0], ast.Eq)
                    if isinstance(c, _SymCond):
                        return c if want_true else _SymCond(c.syms, not c.neg)
                    return c if want_true else (not c)
            if isinstance(l, (SymInt, _Miss, _SymCond)) or isinstance(r, (SymInt, _Miss, _SymCond)):
                self.fail(e, f'comparison involving a symbolic value `{pf.nsrc(e)[:60]}`')
            # fall through to the concrete comparison with the operands already evaluated
            for x in (l, r):
                if not isinstance(x, (int, float, str, type(None), _Key)) and not isinstance(x, bool):
                    self.fail(e, f'comparison involving an opaque value `{pf.nsrc(e)[:60]}`')
            op = e.ops[0]
            try:
                return {ast.Eq: lambda: l == r, ast.NotEq: lambda: l != r, ast.Lt: lambda: l < r, ast.LtE: lambda: l <= r, ast.Gt: lambda: l > r, ast.GtE: lambda: l >= r,
                        ast.Is: lambda: l is r, ast.IsNot: lambda: l is not r}[type(op)]()
            except (KeyError, TypeError):
                self.fail(e, 'unsupported comparison')
        if isinstance(e, ast.Dict) and not e.keys:
            return {}
        if isinstance(e, ast.Subscript) and not isinstance(e.slice, ast.Slice):
            base = self.ev(e.value)
            if isinstance(base, dict):
                idx = self.ev(e.slice)
                if idx in base:
                    return base[idx]
                raise ModelledError(f'`{pf.nsrc(e)}`: KeyError')
        return super().ev(e)

    def call(self, e: ast.Call) -> Any:
        f = e.func
        d = pf.dotted(f)
        if isinstance(f, ast.Attribute):
            recv = f.value
            if isinstance(recv, ast.Name) and recv.id == self.stream_name():
                args = [self.ev(a) for a in e.args]
                if f.attr == 'read_int32' and not args:
                    self.events.append(('i32', list(self.guards)))
                    self.size_sources.add('value')
                    return self.n
                if f.attr in ('read_bytes_view', 'read_bytes') and len(args) == 1:
                    k = args[0]
                    if isinstance(k, float) and k == int(k):
                        k = int(k)
                    if not isinstance(k, int) or isinstance(k, bool) or k < 0:
                        self.fail(e, f'byte count `{pf.nsrc(e.args[0])[:40]}` is not a concrete non-negative integer')
                    self.events.append(('bytes', k, list(self.guards), e.lineno))
                    return [SymInt({j: frozenset([8 * b + j]) for j in range(8) if 8 * b + j < self.n}) for b in range(k)]
                self.fail(e, f'stream operation `{f.attr}` in a container decoder')
            if f.attr == '_convert_from_encoding' and e.args and isinstance(e.args[0], ast.Name) and e.args[0].id == self.stream_name():
                tgt = self.ev_target(recv)
                self.events.append(('rec', tgt, list(self.guards), e.lineno))
                return _Decoded(sum(1 for ev_ in self.events if ev_[0] == 'rec') - 1)
            if f.attr == 'append' and len(e.args) == 1:
                base = self.ev(recv)
                if isinstance(base, list):
                    base.append(self.ev(e.args[0]))
                    return None
            if f.attr == 'tobytes' and not e.args:
                return self.ev(recv)
        # helpers that do not receive the stream (lookup_bit, a shared `_is_missing(missing_bytes, i)`, ...): evaluated in place
        fn = self.resolve_helper(f)
        if fn is not None:
            return self.call_user(fn[0], fn[1], e)
        if d in ('math.ceil',) and len(e.args) == 1:
            v = self.ev(e.args[0])
            if isinstance(v, (int, float)):
                import math
                return math.ceil(v)
        if d == 'bool' and len(e.args) == 1:
            return self.as_cond(self.ev(e.args[0]), e)
        return super().call(e)

    def stream_name(self) -> str:
        for k, v in self.env.items():
            if isinstance(v, _Obj) and v.kind == 'stream':
                return k
        return ''

    def ev_target(self, recv: ast.AST) -> str:
        try:
            v = self.ev(recv)
        except AnalysisError:
            return pf.nsrc(recv)
        if isinstance(v, _TypeC):
            return f'field {v.k}'
        return pf.nsrc(recv)

    def ev_attr_self(self, e: ast.Attribute) -> Any:
        return None

    def resolve_helper(self, f: ast.AST) -> Optional[Tuple[pf.FuncDef, int]]:
        if isinstance(f, ast.Name) and f.id in self.env:
            return None
        if isinstance(f, ast.Attribute) and not isinstance(f.value, ast.Name):
            return None
        key = (id(self.m), self.cls, pf.nsrc(f), isinstance(f, ast.Attribute) and isinstance(self.env.get(f.value.id), _Obj) and self.env[f.value.id].kind)
        if key not in _HELPER_CACHE:
            _HELPER_CACHE[key] = self._resolve_helper(f)
        return _HELPER_CACHE[key]

    def _resolve_helper(self, f: ast.AST) -> Optional[Tuple[pf.FuncDef, int]]:
        all_cls = {c.name: c for c in self.m.tree.body if isinstance(c, ast.ClassDef)}

        def mro(cn: str, meth: str, seen=()) -> Optional[pf.FuncDef]:
            c = all_cls.get(cn)
            if c is None or cn in seen:
                return None
            ms = methods(c)
            if meth in ms:
                return ms[meth]
            for b in c.bases:
                d_ = pf.dotted(b)
                if d_ in all_cls:
                    r = mro(d_, meth, seen + (cn,))
                    if r is not None:
                        return r
            return None

        if isinstance(f, ast.Name) and f.id not in self.env:
            for st in self.m.tree.body:
                if isinstance(st, ast.FunctionDef) and st.name == f.id:
                    return st, 0
            origin = self.m.imports().get(f.id)
            if origin:
                parts = origin.lstrip('.').split('.')
                level = len(origin) - len(origin.lstrip('.'))
                base_dir = self.m.rel.split('/')[:-1]
                if level:
                    base_dir = base_dir[:len(base_dir) - (level - 1)]
                    cand = '/'.join(base_dir + parts[:-1]) + '.py'
                else:
                    cand = 'hail/python/' + '/'.join(parts[:-1]) + '.py'
                try:
                    om = pf.load(cand)
                    if om.has_func(parts[-1]):
                        return om.func(parts[-1]), 0
                except AnalysisError:
                    return None
            return None
        if isinstance(f, ast.Attribute) and isinstance(f.value, ast.Name) and f.attr not in ('_convert_from_encoding', '_missing'):
            if isinstance(self.env.get(f.value.id), _Obj) and self.env[f.value.id].kind == 'self':
                fn = mro(self.cls, f.attr)
                if fn is not None and not any(d_ in ('property', 'classmethod') for d_ in pf.decorator_names(fn)):
                    return fn, (0 if 'staticmethod' in pf.decorator_names(fn) else 1)
            elif f.value.id in all_cls and f.value.id not in self.env:
                fn = mro(f.value.id, f.attr)
                if fn is not None and 'staticmethod' in pf.decorator_names(fn):
                    return fn, 0
        return None

    def call_user(self, fn: pf.FuncDef, skip: int, e: ast.Call) -> Any:
        if self.depth > 6:
            self.fail(e, 'helper calls nested too deep')
        a = fn.args
        if a.vararg or a.kwarg or a.posonlyargs:
            self.fail(e, f'helper {fn.name} with star parameters')
        params = [x.arg for x in a.args]
        vals: Dict[str, Any] = {}
        if skip:
            vals[params[0]] = _Obj('self')
        pos = [self.ev(x) for x in e.args]
        if len(pos) > len(params) - skip:
            self.fail(e, f'too many arguments for {fn.name}')
        for p, v in zip(params[skip:], pos):
            vals[p] = v
        for k in e.keywords:
            if k.arg is None or k.arg not in params or k.arg in vals:
                self.fail(e, f'bad keyword for {fn.name}')
            vals[k.arg] = self.ev(k.value)
        defaults = dict(zip(params[len(params) - len(a.defaults):], a.defaults))
        saved = self.env
        for p in params:
            if p not in vals:
                if p not in defaults:
                    self.fail(e, f'argument {p} of {fn.name} unbound')
                self.env = {}
                vals[p] = self.ev(defaults[p])
        self.env = dict(vals)
        if any(isinstance(v, _Obj) and v.kind == 'stream' for v in vals.values()):
            pass
        self.depth += 1
        try:
            self.run(body_wo_doc(fn))
            ret = None
        except _ReturnV as r:
            ret = r.value
        finally:
            self.depth -= 1
            self.env = saved
        return ret

    # ---- statements ------------------------------------------------------------------
    def stmt(self, st: ast.stmt) -> None:
        if isinstance(st, ast.Return):
            raise _ReturnV(self.ev(st.value) if (st.value is not None and self.depth > 0) else None)
        if isinstance(st, ast.If):
            c = self.as_cond(self.ev(st.test), st)
            if isinstance(c, _SymCond):
                self.fork(st, c)
                return
            self.run(st.body if c else st.orelse)
            return
        if isinstance(st, ast.Assign) and len(st.targets) == 1 and isinstance(st.targets[0], ast.Subscript):
            base = self.ev(st.targets[0].value)
            if isinstance(base, dict):
                base[self.ev(st.targets[0].slice)] = self.ev(st.value)
                return
        if isinstance(st, ast.Raise):
            raise ModelledError(f'raises `{pf.nsrc(st)[:60]}`')
        super().stmt(st)

    def fork(self, st: ast.If, c: _SymCond) -> None:
        if len(self.guards) >= 3:
            self.fail(st, 'symbolic branches nested too deep')
        snap = copy.deepcopy(self.env)
        self.guards.append((c.syms, not c.neg))
        try:
            self.run(st.body)
        finally:
            self.guards.pop()
        env_then = self.env
        self.env = snap
        self.guards.append((c.syms, c.neg))
        try:
            self.run(st.orelse)
        finally:
            self.guards.pop()
        env_else = self.env
        g = (c.syms, not c.neg)
        merged: Dict[str, Any] = {}
        for k in set(env_then) | set(env_else):
            if k in env_then and k in env_else:
                merged[k] = self.merge(g, env_then[k], env_else[k], st)
            # a name bound on one side only is a temporary of that branch
        self.env = merged

    def merge(self, g: tuple, a: Any, b: Any, st: ast.AST) -> Any:
        if _same(a, b):
            return a
        if isinstance(a, list) and isinstance(b, list):
            if len(a) != len(b):
                self.fail(st, 'the two outcomes of a missingness test leave sequences of different lengths')
            return [self.merge(g, x, y, st) for x, y in zip(a, b)]
        if isinstance(a, dict) and isinstance(b, dict):
            if set(a) != set(b):
                self.fail(st, 'the two outcomes of a missingness test fill different keys')
            return {k: self.merge(g, a[k], b[k], st) for k in a}
        return _CondVal(g, a, b)


def check_missing_reader(m: pf.Module, cls: str, fn: pf.FuncDef, max_n: int = MAX_N) -> Tuple[Optional[str], Set[str], int]:
    """Evaluate the decoder `fn` (helpers that receive the stream already inlined) for n = 0..max_n slots with symbolic missing bytes.
    Returns (None | counter-example message, sizes consulted, number of delegated decodes seen for the largest n)."""
    ps = param_names(fn)
    where = f'{m.rel}::{cls}.{fn.name}'
    if len(ps) < 2:
        raise AnalysisError(f'{where}: unrecognised parameter list')
    sources: Set[str] = set()
    n_rec = 0
    for n in range(0, max_n + 1):
        ev = MissingBitsReadEval(m, cls, where, ps[0], ps[1], n)
        # remaining parameters take their (constant) defaults
        pos = fn.args.posonlyargs + fn.args.args
        for a, d in zip(pos[len(pos) - len(fn.args.defaults):], fn.args.defaults):
            if a.arg not in ev.env and isinstance(d, ast.Constant):
                ev.env[a.arg] = d.value
        try:
            ev.run(body_wo_doc(fn))
        except _ReturnV:
            pass
        except (_Return, _Break, _Continue):
            raise AnalysisError(f'{where}: control flow escapes the function body')
        except ModelledError as ex:
            return f'for a container with n = {n} slots the decoder raises: {ex}', sources, n_rec
        sources |= ev.size_sources
        byt = [e for e in ev.events if e[0] == 'bytes']
        recs = [e for e in ev.events if e[0] == 'rec']
        n_rec = len(recs)
        want_bytes = (n + 7) // 8
        if len(byt) != 1 or byt[0][2]:
            if not (n == 0 and not byt):
                return f'for n = {n} slots the decoder reads the missing bytes {len(byt)} time(s)' + (' under a condition' if byt and byt[0][2] else '') + ' (expected once, unconditionally)', sources, n_rec
        if byt and byt[0][1] != want_bytes:
            return (f'for n = {n} slots the decoder reads {byt[0][1]} missing byte(s), the writer (and the engine) emit ceil(n/8) = {want_bytes}: every value after them is read from the wrong offset'), sources, n_rec
        if byt and ev.events.index(byt[0]) > min([ev.events.index(r) for r in recs] or [10**9]):
            return f'for n = {n} the missing bytes are read after the first value', sources, n_rec
        if len(recs) != n:
            return f'for n = {n} slots the decoder reaches {len(recs)} delegated decode call(s) (expected one per slot, each skipped when its slot is missing)', sources, n_rec
        for k, r in enumerate(recs):
            guards = r[2]
            if r[1].startswith('field ') and r[1] != f'field {k}':
                return f'n = {n}: the {k}-th value is decoded with the type of {r[1]}', sources, n_rec
            if guards == [(frozenset([k]), False)]:
                continue
            if not guards:
                return (f'n = {n}: slot {k} is decoded unconditionally (its missing bit is never consulted): when slot {k} is missing the decoder consumes the bytes of the next value'), sources, n_rec
            desc = ' and '.join((('any of ' if pol else 'all of ') if len(s) > 1 else '') + ('slots ' if len(s) > 1 else 'slot ') + '/'.join(str(x) for x in sorted(s)) + (' missing' if pol else ' present')
                                for s, pol in guards)
            g0 = guards[0]
            others = sorted(set(g0[0]) - {k})
            if len(guards) == 1 and g0[1] is False and k in g0[0] and others:
                cex = f'with only slot {others[0]} missing, slot {k} is treated as missing too (its value is skipped and every later value is read from the wrong offset)'
            elif len(guards) == 1 and g0[1] is False and k not in g0[0]:
                cex = f'slot {k} is decoded according to the missing bit of slot {sorted(g0[0])[0]}'
            elif len(guards) == 1 and g0[1] is True:
                cex = f'slot {k} is decoded exactly when its missing bit says it is absent'
            else:
                cex = 'the decision does not depend on the bit of this slot alone'
            return (f'n = {n}: the value of slot {k} is decoded when [{desc}], but the layout says: decoded iff bit {k % 8} of missing byte {k // 8} is 0 - {cex}'), sources, n_rec
    return None, sources, n_rec
