"""C01 Scheduler job/core counters always match job states  (structural clauses).

Decided from the parsed SQL program (effective routines after migration replay) and the SQL embedded in Python:
  R1  jobs_after_update: every counter column receives  spec(NEW view) - spec(OLD view)  (truth table over the full
      state x cancelled x always_run x group-cancelled domain); insert value == on-duplicate increment; keyed by the job's
      user / inst_coll; cancellable rows fan out over the job's group and all its ancestors
  R2  the service's own audit (check_incremental) recomputes exactly the same spec and compares like-named columns
  R3  INSERT..ON DUPLICATE KEY UPDATE into a counter table: same amount on the insert and the update side, no one-sided column
  R4  cancel_job_group / cancel_batch: what leaves n_*_jobs / *_cores_mcpu enters n_cancelled_*; only committed updates; guarded by
      NOT already-cancelled; group cancel removes the group's cancellable sums from itself and every ancestor
  R5  _create_jobs (engines/c05submit.py: helpers inlined, rows found through their INSERT statements, no local name compared): truth table of the job
      loop over (first update?, parent lists empty?, always_run?, opaque atoms) - the tallies agree with the inserted state / always_run / cores on
      every row; the counter inserts bind each column to the like-named tally of the iterated item; fan out over ancestors
  R6  closed world: only the listed routines / functions write the counter tables; cleanup deletes are keyed and filtered
  R7  commit_batch_update hands over exactly the root-group staging sums of that update, once
  R8  no UPDATE changes the job columns the trigger treats as immutable
  R9  counter maintenance is unconditional in what it carries: on every path through jobs_after_update (IF / ELSE / LEAVE / SIGNAL, guards evaluated
      three-valued over the exhaustively enumerated finite state x flag domain, everything else UNKNOWN with case splits) the upsert carrying a column
      runs exactly once wherever the recomputation changes that column; in cancel_job_group / cancel_batch the counter move, the clearing of the
      cancellable rows and the cancellation mark run under one and the same path condition; in commit_batch_update the staged roll-up runs whenever
      the commit flag is set (extra guards are decided by order reasoning over n_jobs >= 1 / update_id == 1); _create_jobs row filters only drop all-zero rows
  R10 no cancellation mark for a group of an uncommitted update: job_groups_cancelled is written only by the cancel procedures, for their own argument;
      every Python `CALL cancel_job_group` is for the root group or dominated by the row-found outcome of a query keyed by the same (batch, group) whose
      WHERE implies "creating update committed OR root" (otherwise commit_batch_update's unconditional roll-up counts cancelled jobs as ready)
  R11 every call path to commit_batch_update refuses a batch whose root group is cancelled
  R12 every reader of the token-sharded counter tables reads SUM over all shards
cores_mcpu is symbolic throughout: amount columns are compared through their linear normal form a + b * cores_mcpu (R1, R2).
Robustness: SQL is compared by structure (engines/c01facts.py: alias map of the FROM clause, equality closure over WHERE / inner-join ON conditions, path
conditions as literal sets with NOT / AND / OR / `= 0` / boolean locals / LEAVE guard clauses resolved, routine locals identified by what is read INTO them,
parameters by position); a FAIL needs a recognised shape that breaks the obligation, an unrecognised shape is declined (exit 2).
Not decided: InnoDB locking / token-shard concurrency (incl. the check-then-commit race of R11) and the inductive argument over whole histories.
"""
from __future__ import annotations

import ast
import itertools
import re
from typing import Any, Dict, List, Optional, Tuple

from engines import c01facts as cf
from engines import c0506facts as c56
from engines import c05submit as cs
from engines import pyfacts as pf
from engines import sqlfront as sf
from engines import sqlrules as sr
from engines.common import AnalysisError, AnchorRemoved, Ctx, norm
from engines.sqlast import N, text
from engines.sqleval import ev

META = dict(
    category='other',
    text='Per-statement obligations of the counter invariant, each decided on every writer of the counter tables: truth-table equality of the '
         'trigger deltas with the recomputation spec over the complete finite job-state domain, insert/update symmetry, cancel symmetry, '
         'ancestor fan-out, staging hand-over, a closed-world writer set, unconditional maintenance on every path of the trigger / procedures, the caller-side '
         'guards (committed-or-root before a group cancel, not-cancelled before a commit) that the unconditional roll-up relies on, and shard-summing readers. Static because the counters are maintained by SQL text whose '
         'shape determines the increments on every path; the inductive argument over histories and lock semantics are not decided.',
    note='Trusted: our SQL parser/evaluator (engines/sqlast.py, sqleval.py), migration replay order from build.yaml; assumes jobs.always_run, '
         'cores_mcpu, inst_coll, job_group_id are immutable (as the trigger comments state) and MySQL fires jobs_after_update for every UPDATE of jobs.',
    technique='static analysis: SQL AST rules + exhaustive truth tables over the finite job-state/flag domain (cores symbolic, linear normal form) + abstract path '
              'enumeration with three-valued guards + CFG dominance of guard queries in Python callers + closed-world writer/reader scans',
    design_ref='DESIGN.md §3 C01',
)

STATES = ['Pending', 'Ready', 'Creating', 'Running', 'Success', 'Failed', 'Error', 'Cancelled']
USER_TBL = 'user_inst_coll_resources'
CANC_TBL = 'job_group_inst_coll_cancellable_resources'
STAGE_TBL = 'job_groups_inst_coll_staging'
F_119 = 'effective SQL'


# the recomputation the statement speaks of: (state, marked_cancelled, always_run, cores) -> value
def _spec(col: str, state: str, marked: int, always_run: int, cores: int) -> int:
    cancelled = (not always_run) and marked
    cancellable = (not always_run) and not marked
    table = {
        'n_ready_jobs': state == 'Ready' and not cancelled,
        'n_running_jobs': state == 'Running' and not cancelled,
        'n_creating_jobs': state == 'Creating' and not cancelled,
        'ready_cores_mcpu': cores * (state == 'Ready' and not cancelled),
        'running_cores_mcpu': cores * (state == 'Running' and not cancelled),
        'n_cancelled_ready_jobs': state == 'Ready' and cancelled,
        'n_cancelled_running_jobs': state == 'Running' and cancelled,
        'n_cancelled_creating_jobs': state == 'Creating' and cancelled,
        'n_ready_cancellable_jobs': state == 'Ready' and cancellable,
        'n_running_cancellable_jobs': state == 'Running' and cancellable,
        'n_creating_cancellable_jobs': state == 'Creating' and cancellable,
        'ready_cancellable_cores_mcpu': cores * (state == 'Ready' and cancellable),
        'running_cancellable_cores_mcpu': cores * (state == 'Running' and cancellable),
    }
    return int(table[col])


USER_COUNTERS = ['n_ready_jobs', 'n_running_jobs', 'n_creating_jobs', 'ready_cores_mcpu', 'running_cores_mcpu',
                 'n_cancelled_ready_jobs', 'n_cancelled_running_jobs', 'n_cancelled_creating_jobs']
CANC_COUNTERS = ['n_ready_cancellable_jobs', 'ready_cancellable_cores_mcpu', 'n_creating_cancellable_jobs', 'n_running_cancellable_jobs',
                 'running_cancellable_cores_mcpu']
STAGE_COUNTERS = ['n_jobs', 'n_ready_jobs', 'ready_cores_mcpu']
# core totals are the like-named job counts weighted by the job's (symbolic) cores_mcpu
CORES_OF = {'ready_cores_mcpu': 'n_ready_jobs', 'running_cores_mcpu': 'n_running_jobs', 'ready_cancellable_cores_mcpu': 'n_ready_cancellable_jobs',
            'running_cancellable_cores_mcpu': 'n_running_cancellable_jobs'}


def _find_inserts(body, table: str) -> List[N]:
    return [st for st in sf.all_statements(body) if st.kind == 'insert' and st.table.lower() == table]


# ------------------------------------------------------------------------------------------------
def r1_trigger(ctx: Ctx, prog: sf.SqlProgram) -> None:
    r = prog.routine('jobs_after_update')
    a = r.ast
    ctx.need(a.rkind == 'trigger' and a.timing == 'AFTER' and a.event == 'UPDATE' and a.table.lower() == 'jobs', 'jobs_after_update is not AFTER UPDATE ON jobs')
    # the group-cancelled flag: SELECT is_job_group_cancelled(OLD.batch_id, OLD.job_group_id) INTO v   |   SET v = is_job_group_cancelled(..)
    soft: List[str] = []
    variables = sr.declared_vars(a)
    gc_var = None
    for v_, defs in cf.assigned_from(a.body).items():
        for e_, st_ in defs:
            if e_.kind == 'func' and e_.name == 'IS_JOB_GROUP_CANCELLED':
                args = [text(x).lower() for x in e_.args]
                ctx.check(args in (['old.batch_id', 'old.job_group_id'], ['new.batch_id', 'new.job_group_id']), 'R1',
                          f'{r.file}::jobs_after_update::group-cancelled lookup',
                          f'is_job_group_cancelled is evaluated on {args}, not on the job\'s own (batch_id, job_group_id)', r.file, r.line_of(st_) if st_ is not None else r.line)
                ctx.need(len(defs) == 1 and gc_var is None, 'jobs_after_update: the group-cancelled flag is assigned more than once')
                gc_var = v_
    ctx.need(gc_var is not None, 'jobs_after_update: group-cancelled lookup not recognised')
    env = sr.inline_sets(a.body, [v for v in sr.declared_vars(a) if v != gc_var])

    points = list(itertools.product(STATES, STATES, (0, 1), (0, 1), (0, 1), (0, 1)))
    cores_atoms = {'old.cores_mcpu', 'new.cores_mcpu'}

    def is_cores(n: N) -> bool:
        return n.kind == 'col' and text(n).lower() in cores_atoms

    def amounts_differ(a1: N, s1: int, a2: N, s2: int) -> Optional[bool]:
        """Two delta expressions compared as linear forms in cores_mcpu whose coefficients are truth-tabled over the complete domain."""
        l1, l2 = cf.linear_in(a1, is_cores), cf.linear_in(a2, is_cores)
        allowed = {'old.state', 'new.state', 'old.cancelled', 'new.cancelled', 'old.always_run', 'new.always_run', 'old.cores_mcpu', 'new.cores_mcpu', gc_var}
        if l1 is None or l2 is None or not ({text(c).lower() for x in (a1, a2) for c in sf.cols_in(x)} <= allowed):
            return None
        for (os_, ns, oc, nc, ar, gc) in points:
            vals = {'old.state': os_, 'new.state': ns, 'old.cancelled': oc, 'new.cancelled': nc, 'old.always_run': ar, 'new.always_run': ar, gc_var: gc}
            for e1, e2 in ((l1[0], l2[0]), (l1[1], l2[1])):
                v1 = s1 * ev(e1, lambda c: vals[text(c).lower()]) if e1 is not None else 0
                v2 = s2 * ev(e2, lambda c: vals[text(c).lower()]) if e2 is not None else 0
                if v1 != v2:
                    return True
        return False

    def check_table(table: str, counters: List[str]):
        inserts = _find_inserts(a.body, table)
        ctx.need(len(inserts) == 1, f'jobs_after_update: expected one INSERT into {table}, found {len(inserts)}')
        st = inserts[0]
        ins, dup, uvars = sr.insert_colmap(st)
        for col in counters:
            cons = f'{r.file}::jobs_after_update::{table}.{col}'
            if col not in ins:
                ctx.bad('R1', cons, f'counter column {col} is not maintained by the trigger insert into {table}', r.file, r.line_of(st))
                continue
            e = sr.inline_expr(ins[col], env)
            atoms = {text(c).lower() for c in sf.cols_in(e)}
            allowed = {'old.state', 'new.state', 'old.cancelled', 'new.cancelled', 'old.always_run', 'new.always_run', 'old.cores_mcpu', 'new.cores_mcpu', gc_var}
            ctx.need(atoms <= allowed, f'jobs_after_update: delta for {col} depends on unexpected inputs {sorted(atoms - allowed)}')
            # linear normal form  a + b * cores_mcpu  (cores stays symbolic): a and b are truth-tabled over the finite state / flag domain
            lin = cf.linear_in(e, is_cores)
            ctx.need(lin is not None, f'jobs_after_update: delta for {col} is not linear in cores_mcpu: {text(e)[:120]}')
            assert lin is not None
            want_a, want_b = (None, CORES_OF[col]) if col in CORES_OF else (col, None)
            wrong = None
            for part, got_e, want_col in (('', lin[0], want_a), (' per unit of cores_mcpu', lin[1], want_b)):
                for (os_, ns, oc, nc, ar, gc) in points:
                    vals = {'old.state': os_, 'new.state': ns, 'old.cancelled': oc, 'new.cancelled': nc, 'old.always_run': ar, 'new.always_run': ar, gc_var: gc}
                    got = ev(got_e, lambda c: vals[text(c).lower()]) if got_e is not None else 0
                    want = (_spec(want_col, ns, int(nc or gc), ar, 1) - _spec(want_col, os_, int(oc or gc), ar, 1)) if want_col is not None else 0
                    if got != want:
                        wrong = (os_, ns, oc, nc, ar, gc, got, want, part)
                        break
                if wrong:
                    break
            if wrong:
                os_, ns, oc, nc, ar, gc, got, want, part = wrong
                ctx.bad('R1', cons, f'transition {os_}->{ns} (cancelled {oc}->{nc}, always_run={ar}, group_cancelled={gc}) changes {col} by {got}{part}, '
                        f'recomputation from job state gives {want}{part}', r.file, r.line_of(st))
            else:
                ctx.ok('R1', cons, {'points': len(points)})
            # insert value == on-duplicate increment (both sides with the SET definitions inlined; `col + VALUES(col)` is the inserted value)
            _check_on_dup(ctx, cons, col, ins[col], dup, uvars, r.file, r.line_of(st), soft, resolve=lambda x: sr.inline_expr(x, env), differ=amounts_differ)
        extra = [c for c in dup if c not in counters]
        ctx.check(not extra, 'R3', f'{r.file}::jobs_after_update::{table}::one-sided', f'columns updated on duplicate key but not counters: {extra}', r.file, r.line_of(st))
        return st, ins

    ust, uins = check_table(USER_TBL, USER_COUNTERS)
    cst, cins = check_table(CANC_TBL, CANC_COUNTERS)
    ctx.unit('truth_table_points', len(points) * (len(USER_COUNTERS) + len(CANC_COUNTERS)))

    # keys: user of the job's batch, the job's inst_coll (aliases / operand order do not matter)
    ROW_B = [('row', 'new', 'batch_id'), ('row', 'old', 'batch_id')]
    c_user = f'{r.file}::jobs_after_update::{USER_TBL}.user'
    ue = uins.get('user')
    verdict = None
    if ue is not None and sr.is_var(ue):
        defs = cf.assigned_from(a.body).get(ue.parts[0].lower(), [])
        if len(defs) == 1 and defs[0][1] is not None and defs[0][1].frm is not None:
            e_, st_ = defs[0]
            al = cf.alias_map(st_)
            if sorted(al.values()) == ['batches'] and e_.kind == 'col' and e_.parts[-1].lower().strip('`') == 'user':
                ec = cf.eq_closure(st_, prog.tables, variables)
                if any(ec.related(('col', 'batches', 'id'), t) for t in ROW_B) and not ec.other:
                    verdict = True
                elif not ec.other:
                    verdict = False
    if verdict is True:
        ctx.ok('R1', c_user)
    elif verdict is False:
        ctx.bad('R1', c_user, 'user key is not the owner of the job\'s batch (SELECT user FROM batches WHERE id = NEW.batch_id)', r.file, r.line_of(ust))
    else:
        soft.append(f'jobs_after_update: where the user key `{text(ue) if ue is not None else None}` of the {USER_TBL} upsert comes from is not recognised')
    ic_e = sr.inline_expr(uins['inst_coll'], env) if 'inst_coll' in uins else None
    ic = text(ic_e).lower() if ic_e is not None else None
    c_ic = f'{r.file}::jobs_after_update::{USER_TBL}.inst_coll'
    if ic in ('new.inst_coll', 'old.inst_coll'):
        ctx.ok('R1', c_ic)
    elif ic_e is not None and ic_e.kind == 'col' and len(ic_e.parts) == 2 and ic_e.parts[0].lower() in ('new', 'old'):
        ctx.bad('R1', c_ic, f'inst_coll key is `{ic}`', r.file, r.line_of(ust))
    else:
        soft.append(f'jobs_after_update: the inst_coll key `{ic}` of the {USER_TBL} upsert is not recognised')
    # R5 fan-out of the cancellable row over self and ancestors
    _check_fanout(ctx, 'R5', f'{r.file}::jobs_after_update::{CANC_TBL}', cst, cins, r.file, r.line_of(cst),
                  batch=ROW_B, group=[('row', 'new', 'job_group_id'), ('row', 'old', 'job_group_id')], update=[('row', 'new', 'update_id'), ('row', 'old', 'update_id')],
                  variables=variables, schema=prog.tables, soft=soft)
    r9_trigger_paths(ctx, r, gc_var, points)
    if soft:
        raise AnalysisError(soft[0])


# ------------------------------------------------------------------------------------------------
def r9_trigger_paths(ctx: Ctx, r: sf.Routine, gc_var: str, points: List[tuple]) -> None:
    """R1 compares the delta EXPRESSIONS with the spec; this rule decides a control-flow fact: on every path through the trigger body the upsert
    that carries a counter column is executed (exactly once) whenever the recomputation changes that column.  Abstract execution: the finite
    domain (old/new state enum x cancelled x always_run x group-cancelled) is enumerated exhaustively, every guard is evaluated three-valued,
    anything outside the domain (cores, tokens, RAND, table contents) is UNKNOWN and an undecidable guard is a case split.  An upsert wrapped in a
    "something changed" guard that forgets one of the deltas it carries, an early exit or an ELSE arm without the upsert leave the expressions
    right and the counters wrong."""
    a = r.ast
    what = 'jobs_after_update'

    def into_hook_for(gc: int):
        def hook(st: N) -> Optional[List[Any]]:
            if len(st.cols) == 1 and st.cols[0][0].kind == 'func' and st.cols[0][0].name == 'IS_JOB_GROUP_CANCELLED':
                return [gc]
            return None
        return hook

    tables = {USER_TBL: USER_COUNTERS, CANC_TBL: CANC_COUNTERS}
    inserts = {t: _find_inserts(a.body, t) for t in tables}
    carried = {t: {c for st in inserts[t] for c in sr.insert_colmap(st)[0]} for t in tables}
    guards = {id(st): g for st, g in sf.guarded_statements(a.body)}
    sets: Dict[str, List[N]] = {}
    for st in sf.all_statements(a.body):
        if st.kind == 'set':
            for t, v in st.assigns:
                if sr.is_var(t):
                    sets.setdefault(t.parts[0].lower(), []).append(v)
    pe = cf.PathEnum(lambda name: cf.UNKNOWN, lambda st: None, set(tables), what)
    first_bad: Dict[Tuple[str, str], Tuple[tuple, int, int, cf.Run]] = {}
    undecided: Dict[Tuple[str, str], tuple] = {}
    n_paths = 0
    for pt in points:
        (os_, ns, oc, nc, ar, gc) = pt
        vals = {'old.state': os_, 'new.state': ns, 'old.cancelled': oc, 'new.cancelled': nc, 'old.always_run': ar, 'new.always_run': ar}
        pe.atoms = lambda name, vals=vals: vals.get(name, cf.UNKNOWN)
        pe.into_hook = into_hook_for(gc)
        runs = [x for x in pe.run(a.body) if not x.aborted]
        n_paths += len(runs)
        if not runs:
            continue  # SIGNAL on every path: the UPDATE is rejected as a whole and nothing changes
        for tbl, cols in tables.items():
            for col in cols:
                if (tbl, col) in first_bad or col not in carried[tbl]:
                    continue  # a column no upsert carries is R1's finding
                base = CORES_OF.get(col, col)
                want = _spec(base, ns, int(nc or gc), ar, 1) - _spec(base, os_, int(oc or gc), ar, 1)
                if want == 0:
                    continue  # nothing to apply: executing the upsert or not makes no difference
                times = [sum(x.times_executed(st) for st in inserts[tbl]) for x in runs]
                if all(t == 1 for t in times):
                    continue
                if all(t != 1 for t in times):
                    first_bad[(tbl, col)] = (pt, times[0], want, runs[0])
                else:
                    undecided.setdefault((tbl, col), pt)
    ctx.unit('trigger_paths_enumerated', n_paths)

    def explain(run: cf.Run, tbl: str) -> str:
        skipped = [st for st in inserts[tbl] if not run.times_executed(st)]
        if not skipped:
            return f'the upsert into {tbl} runs more than once'
        parts = []
        for st in skipped:
            g = guards.get(id(st), ())
            if not g:
                parts.append('an earlier LEAVE skips the upsert')
                continue
            dec = {id(c): o for c, o, _ in run.decisions}
            failing = [(c, pol) for c, pol in g if id(c) in dec and dec[id(c)] != pol]
            c, pol = failing[0] if failing else g[-1]
            t = ('' if pol else 'NOT ') + text(c)
            if sr.is_var(c) and len(sets.get(c.parts[0].lower(), [])) == 1:
                t += f' [= {text(sets[c.parts[0].lower()][0])}]'
            parts.append(f'the upsert into {tbl} is skipped because its enclosing condition `{t}` is false there')
        return '; '.join(parts)

    for tbl, cols in tables.items():
        for col in cols:
            cons = f'sql::jobs_after_update::{tbl}.{col}::applied on every path'
            if (tbl, col) in first_bad:
                (os_, ns, oc, nc, ar, gc), times, want, run = first_bad[(tbl, col)]
                st0 = inserts[tbl][0] if inserts[tbl] else None
                unit = ' x cores_mcpu' if col in CORES_OF else ''
                ctx.bad('R9', cons, f'UPDATE jobs {os_}->{ns} (cancelled {oc}->{nc}, always_run={ar}, group_cancelled={gc}): recomputation from the job\'s state changes '
                        f'{col} by {want}{unit}, but on that path {explain(run, tbl)}. The counter keeps the stale amount for ever '
                        '(a guard around counter maintenance must be true whenever ANY of the deltas the statement carries is non-zero)', r.file,
                        r.line_of(st0) if st0 is not None else r.line)
            elif (tbl, col) not in undecided and col in carried[tbl]:
                ctx.ok('R9', cons, {'points': len(points)})
    if undecided and not first_bad:
        (tbl, col), pt = sorted(undecided.items())[0]
        raise AnalysisError(f'jobs_after_update: whether the upsert carrying {tbl}.{col} runs at {pt} depends on a condition outside the analysed domain')


def _routine_vars(a: N) -> List[str]:
    return sr.declared_vars(a)


def _check_fanout(ctx: Ctx, rule: str, cons: str, st: N, ins: Dict[str, N], file: str, line: int, batch: List[Any], group: List[Any], update: Optional[List[Any]],
                  variables: List[str], schema: Optional[Dict[str, List[str]]], soft: List[str]) -> None:
    """Rows for the group and all its ancestors: INSERT .. SELECT over job_group_self_and_ancestors keyed by the job's / the argument's own
    (batch, group), job_group_id <- ancestor_id.  batch / group / update: the acceptable canonical terms (engines/c01facts.term_of).
    Aliases, operand order and conjunct order do not matter.  A shape that is not a walk at all is declined, not reported."""
    WALK = 'job_group_self_and_ancestors'
    sel = st.select
    c3 = cons + '::ancestor fan-out'
    if sel is None:
        ctx.bad(rule, c3, 'rows are not generated from job_group_self_and_ancestors: a single row is written for the group itself, the counts never reach its ancestors', file, line)
        return
    alias = cf.alias_map(sel)
    if WALK not in alias.values():
        soft.append(f'{cons}: the rows are not selected from {WALK}: fan-out over the ancestors not recognised')
        return
    ec = cf.eq_closure(sel, schema, variables)
    jg = ins.get('job_group_id')
    jgt = cf.term_of(jg, alias, schema, variables) if jg is not None else None
    kb = any(ec.related(('col', WALK, 'batch_id'), t) for t in batch)
    kg = any(ec.related(('col', WALK, 'job_group_id'), t) for t in group)
    if jgt is not None and jgt[0] == 'col' and jgt[2] == 'ancestor_id' and kb and kg:
        bt = cf.term_of(ins['batch_id'], alias, schema, variables) if 'batch_id' in ins else None
        ut = cf.term_of(ins['update_id'], alias, schema, variables) if 'update_id' in ins else None
        b_ok = bt is not None and (bt in batch or (bt[0] == 'col' and bt[2] == 'batch_id') or bt[0] == 'param')
        u_ok = update is None or (ut is not None and (ut in update or ut[0] == 'param' or (ut[0] == 'col' and ut[2] == 'update_id' and ('col', '?', 'update_id') in update)))
        if b_ok and u_ok:
            ctx.ok(rule, c3)
        elif bt is not None and ut is not None and (bt[0] in ('row', 'var', 'col')) and (update is None or ut[0] in ('row', 'var', 'col')):
            ctx.bad(rule, c3, f'batch_id column receives `{text(ins.get("batch_id"))}`, update_id column receives `{text(ins.get("update_id")) if "update_id" in ins else "-"}`: the ancestor rows are keyed by another batch / update than the job\'s', file, line)
        else:
            soft.append(f'{cons}: batch_id / update_id of the ancestor rows not recognised')
        return
    if jgt is not None and jgt[0] in ('col', 'row', 'var') and jgt[-1] == 'job_group_id' and kb and kg:
        ctx.bad(rule, c3, f'job_group_id column receives `{text(jg)}` instead of ancestor_id (counts would not reach the ancestors)', file, line)
        return
    part = ec.partners(('col', WALK, 'job_group_id'))
    if jgt is not None and jgt[0] == 'col' and jgt[2] == 'ancestor_id' and kb and not kg and part and not ec.other:
        ctx.bad(rule, c3, f'ancestor walk is not keyed by the job\'s / argument\'s own group: WHERE {text(sel.where)}', file, line)
        return
    soft.append(f'{cons}: the ancestor walk (WHERE {text(sel.where)[:100]}) is not recognised')


# ------------------------------------------------------------------------------------------------
def r2_audit(ctx: Ctx) -> None:
    m = pf.load('batch/batch/driver/main.py')
    embs = [e for e in cs.embedded(m) if e.qual.startswith('check_incremental')]
    ctx.need(len(embs) == 1, f'check_incremental: expected one embedded statement, found {len(embs)}')
    e = embs[0]
    sts = e.stmts()
    ctx.need(not e.parse_error and len(sts) == 1 and sts[0].kind == 'select', f'check_incremental query does not parse: {e.parse_error}')
    q = sts[0]
    refs = sf.from_tables(q.frm)
    ctx.need(len(refs) == 2 and all(r.kind == 'derived' for r in refs), 'check_incremental: expected two derived tables (actual, expected)')
    actual, expected = refs[0].select, refs[1].select
    if USER_TBL in sf.table_names(actual.frm):
        actual, expected = expected, actual
    ctx.need(sf.table_names(expected.frm) == [USER_TBL], 'check_incremental: expected-side is not read from user_inst_coll_resources')
    inner_refs = sf.from_tables(actual.frm)
    ctx.need(len(inner_refs) == 1 and inner_refs[0].kind == 'derived', 'check_incremental: actual-side shape not recognised')
    v = inner_refs[0].select
    vcols = {(alias or text(c).split('.')[-1]).lower(): c for c, alias in v.cols}
    # the lateral sub-select alias whose `cancelled IS NOT NULL` means "some self-or-ancestor group is cancelled"
    lat = [t for t in sf.from_tables(v.frm) if t.kind == 'derived']
    ctx.need(len(lat) == 1, 'check_incremental: lateral cancelled lookup not found')
    lat_alias = lat[0].alias.lower()
    file = m.rel
    cons0 = f'{file}::check_incremental'
    # evaluate each actual_* over the domain
    n = 0
    for c, alias in actual.cols:
        if not alias or not alias.lower().startswith('actual_'):
            continue
        col = alias.lower()[len('actual_'):]
        inner = sr.unwrap_sum(c)
        ctx.need(inner is not None, f'check_incremental: {alias} is not a SUM')
        if col not in USER_COUNTERS:
            raise AnalysisError(f'check_incremental: unknown audited column {col}')

        def is_cores(nd: N) -> bool:
            if nd.kind != 'col' or nd.parts[-1].lower() != 'cores_mcpu':
                return False
            d = vcols.get('cores_mcpu')
            return len(nd.parts) > 1 or d is None or (d.kind == 'col' and d.parts[-1].lower() == 'cores_mcpu')
        # linear normal form a + b * cores_mcpu with cores symbolic; a and b are truth-tabled over the finite state / flag domain
        lin = cf.linear_in(inner, is_cores)
        ctx.need(lin is not None, f'check_incremental: {alias} is not linear in cores_mcpu')
        assert lin is not None
        want_a, want_b = (None, CORES_OF[col]) if col in CORES_OF else (col, None)
        wrong = None
        for part, got_e, want_col in (('', lin[0], want_a), (' per unit of cores_mcpu', lin[1], want_b)):
            for state, marked_job, ar, gc in itertools.product(STATES, (0, 1), (0, 1), (0, 1)):
                def env(cn: N, depth=0):
                    name = text(cn).lower()
                    last = name.split('.')[-1]
                    if name == f'{lat_alias}.cancelled':
                        return 1 if gc else None
                    if last in vcols and len(cn.parts) == 1 and text(vcols[last]).lower() != name:
                        return ev(vcols[last], env)
                    return {'state': state, 'always_run': ar, 'cancelled': marked_job}[last]
                got = ev(got_e, env) if got_e is not None else 0
                want = _spec(want_col, state, int(marked_job or gc), ar, 1) if want_col is not None else 0
                if got != want:
                    wrong = (state, marked_job, ar, gc, got, want, part)
                    break
            if wrong:
                break
        if wrong:
            ctx.bad('R2', f'{cons0}::{alias}', f'audit recomputation of {col} for a {wrong[0]} job (cancelled={wrong[1]}, always_run={wrong[2]}, group_cancelled={wrong[3]}) '
                    f'counts {wrong[4]}{wrong[6]}, the specification counts {wrong[5]}{wrong[6]}', m.path, e.lineno)
        else:
            ctx.ok('R2', f'{cons0}::{alias}', {'points': 64})
        n += 1
    # expected side: expected_X = SUM(X)
    for c, alias in expected.cols:
        if alias and alias.lower().startswith('expected_'):
            col = alias.lower()[len('expected_'):]
            inner = sr.unwrap_sum(c)
            ctx.need(inner is not None and inner.kind == 'col', f'check_incremental: {alias} is `{text(c)[:80]}`, not recognisably SUM(<column>)')
            ctx.check(inner.parts[-1].lower().strip('`') == col, 'R2', f'{cons0}::{alias}',
                      f'{alias} sums `{text(inner)}` instead of column {col}', m.path, e.lineno)
    # the WHERE compares like-named pairs: `a != b`, `a <> b`, `NOT (a = b)`, `NOT (a <=> b)`, operands in either order, disjuncts in any order
    pairs = set()
    unrecognised = []
    for d in sf.disjuncts(q.where):
        x = d
        neq = False
        if x.kind == 'un' and x.op == 'NOT' and x.arg.kind == 'bin' and x.arg.op in ('=', '<=>'):
            x, neq = x.arg, True
        elif x.kind == 'bin' and x.op == '!=':
            neq = True
        if neq and x.left.kind == 'col' and x.right.kind == 'col':
            pairs.add(frozenset((x.left.parts[-1].lower().strip('`'), x.right.parts[-1].lower().strip('`'))))
        elif not (neq and (x.left.kind == 'lit' or x.right.kind == 'lit')):
            unrecognised.append(d)
    for col in USER_COUNTERS:
        c_ = f'{cons0}::compare {col}'
        if frozenset((f'actual_{col}', f'expected_{col}')) in pairs:
            ctx.ok('R2', c_)
        elif not unrecognised:
            ctx.bad('R2', c_, f'audit does not compare actual_{col} with expected_{col}', m.path, e.lineno)
        else:
            raise AnalysisError(f'check_incremental: no disjunct compares actual_{col} with expected_{col}, but `{text(unrecognised[0])[:80]}` is not a recognised comparison')
    # the lateral lookup is the canonical ancestor walk
    ctx.need(_is_canonical_walk(lat[0].select, 'job_groups'), f'check_incremental: the audit\'s group-cancelled lookup is not recognised as the self-and-ancestors walk: {text(lat[0].select)[:160]}')
    ctx.ok('R2', f'{cons0}::group-cancelled lookup')


def _is_canonical_walk(sel: N, subject_alias: str) -> bool:
    tabs = {(t.alias or t.name).lower(): t.name.lower() for t in sf.from_tables(sel.frm) if t.kind == 'table'}
    if sorted(tabs.values()) != ['job_group_self_and_ancestors', 'job_groups_cancelled']:
        return False
    sa = [a for a, t in tabs.items() if t == 'job_group_self_and_ancestors'][0]
    ca = [a for a, t in tabs.items() if t == 'job_groups_cancelled'][0]
    conj = sf.conjuncts(sel.where)
    for j in sel.frm.joins:
        conj += sf.conjuncts(j.on)
    eqs = set()
    for c in conj:
        if c.kind == 'bin' and c.op == '=':
            eqs.add(frozenset((text(c.left).lower(), text(c.right).lower())))
    need = [frozenset((f'{sa}.batch_id', f'{ca}.id')), frozenset((f'{sa}.ancestor_id', f'{ca}.job_group_id'))]
    if not all(x in eqs for x in need):
        return False
    # correlated on the subject's own (batch_id, job_group_id)
    corr_b = any(f'{sa}.batch_id' in x and any(y.endswith('batch_id') and not y.startswith(sa + '.') and not y.startswith(ca + '.') for y in x) for x in eqs)
    corr_g = any(f'{sa}.job_group_id' in x and any(y.endswith('job_group_id') and not y.startswith(sa + '.') and not y.startswith(ca + '.') for y in x) for x in eqs)
    return corr_b and corr_g


# ------------------------------------------------------------------------------------------------
def _flag_vars(a: N, fname: str, want_args: List[str]) -> Tuple[List[str], List[str]]:
    """(variables holding fname(<the procedure's own arguments>), variables holding fname(<something else>))."""
    ok, wrong = [], []
    for v, defs in cf.assigned_from(a.body).items():
        hits = [e for e, _ in defs if e.kind == 'func' and e.name == fname]
        if not hits:
            continue
        good = [e for e in hits if [text(x).lower() for x in e.args] == want_args]
        if len(good) == len(defs):
            ok.append(v)
        else:
            wrong.append(v)
    return ok, wrong


def _not_cancelled(guard: Any, flags: List[str], fname: str, want_args: List[str], locals_: Optional[Dict[str, N]] = None) -> bool:
    for x, pol in cf.guard_literals(guard, locals_):
        if pol:
            continue
        if sr.is_var(x) and x.parts[0].lower() in flags:
            return True
        if x.kind == 'func' and x.name == fname and [text(y).lower() for y in x.args] == want_args:
            return True
    return False


def _writes_via_call(prog: sf.SqlProgram, a: N, table: str) -> bool:
    for st in sf.all_statements(a.body):
        if st.kind == 'call':
            cal = prog.routines.get(st.name)
            if cal is None or any(t.lower() == table for s2 in sf.all_statements(cal.ast.body) for t, _ in sf.written_tables(s2)):
                return True
    return False


def r4_cancel(ctx: Ctx, prog: sf.SqlProgram) -> None:
    soft: List[str] = []
    for rname, group_level in (('cancel_job_group', True), ('cancel_batch', False)):
        r = prog.routine(rname)
        a = r.ast
        pnames = [p[1].lower() for p in getattr(a, 'params', [])]
        ctx.need(len(pnames) >= (2 if group_level else 1), f'{rname}: parameters {pnames}')
        fname = 'IS_JOB_GROUP_CANCELLED' if group_level else 'IS_BATCH_CANCELLED'
        want_args = pnames[:2] if group_level else pnames[:1]
        flags, wrong = _flag_vars(a, fname, want_args)
        # the same question asked without the function: the ancestor walk / the root lookup written out in a SELECT .. INTO
        weak: List[str] = []
        for v_, defs in cf.assigned_from(a.body).items():
            sels = [st_ for _, st_ in defs if st_ is not None and st_.frm is not None]
            if len(sels) != len(defs) or not sels:
                continue
            kinds = []
            for st_ in sels:
                w_ = sr.ancestor_walk(st_)
                rl = sr.root_lookup(st_)
                if w_ is not None and group_level and [text(w_['batch']).lower(), text(w_['group']).lower()] == want_args:
                    kinds.append('walk')
                elif rl is not None and rl['batch'] is not None and text(rl['batch']).lower() == pnames[0] and not group_level and rl['group'].kind == 'lit' and rl['group'].value == 0:
                    kinds.append('walk')
                elif rl is not None and rl['batch'] is not None and group_level and [text(rl['batch']).lower(), text(rl['group']).lower()] == want_args:
                    kinds.append('own row only')
                else:
                    kinds.append('?')
            if all(k == 'walk' for k in kinds):
                flags.append(v_)
            elif all(k == 'own row only' for k in kinds):
                weak.append(v_)
        # the cancellation predicate is evaluated on the procedure's own arguments
        calls = [x for st in sf.all_statements(a.body) for x in st.walk() if x.kind == 'func' and x.name == fname]
        c_flag = f'{r.file}::{rname}::cur_cancelled'
        weak_used = [v_ for v_ in weak if any(sr.is_var(x) and x.parts[0].lower() == v_ and not pol for st_, g_ in sf.guarded_statements(a.body) if sf.written_tables(st_)
                                              for x, pol in cf.guard_literals(g_, cf.boolean_locals(a.body)))]
        if wrong or any([text(y).lower() for y in x.args] != want_args for x in calls):
            ctx.bad('R4', c_flag, f'the already-cancelled test is not computed from the cancellation predicate of the procedure\'s own arguments ({fname}({", ".join(want_args)}))', r.file, r.line)
        elif weak_used and not flags:
            ctx.bad('R4', c_flag, f'the already-cancelled test (`{weak_used[0]}`) only looks at the group\'s OWN row in job_groups_cancelled, not at its ancestors ({fname}): a group that is already cancelled '
                    'through an ancestor passes the test, and cancelling it again moves its cancellable counts out of the live counters a second time', r.file, r.line)
        elif calls or flags:
            ctx.ok('R4', c_flag)
        else:
            soft.append(f'{rname}: how the procedure finds out that the {"group" if group_level else "batch"} is already cancelled is not recognised ({fname} is not called)')
        found_user = found_canc = found_mark = False
        for st, guard in sf.guarded_statements(a.body):
            wt = sf.written_tables(st)
            if not wt:
                continue
            tbls = [t.lower() for t, _ in wt]
            gtxt = [('' if pol else 'NOT ') + text(c) for c, pol in guard]
            cons = f'{r.file}::{rname}::{st.kind} {tbls[0]}'
            if tbls[0] in (USER_TBL, CANC_TBL, 'job_groups_cancelled') and (calls or flags) and not wrong:
                ctx.check(_not_cancelled(guard, flags, fname, want_args, cf.boolean_locals(a.body)), 'R4', cons + '::guard', f'write is not guarded by NOT already-cancelled (path condition: {gtxt}); repeating the cancellation would move the counters again',
                          r.file, r.line_of(st))
            if st.kind == 'insert' and tbls[0] == USER_TBL:
                found_user = True
                _check_cancel_user_insert(ctx, prog, r, rname, st, group_level, soft)
            elif st.kind == 'insert' and tbls[0] == CANC_TBL:
                found_canc = True
                _check_cancel_group_insert(ctx, prog, r, rname, st, soft)
            elif st.kind == 'delete' and tbls[0] == CANC_TBL:
                found_canc = True
                ec = cf.eq_closure(st, prog.tables, _routine_vars(a), conj=list(sf.conjuncts(st.where)), alias={CANC_TBL: CANC_TBL})
                whole_batch = ec.related(('col', CANC_TBL, 'batch_id'), ('var', pnames[0])) and not ec.other and len(ec.classes) == 1
                if whole_batch and not group_level:
                    ctx.ok('R4', cons + '::delete scope')
                elif group_level or st.where is None or not ec.related(('col', CANC_TBL, 'batch_id'), ('var', pnames[0])):
                    ctx.bad('R4', cons + '::delete scope', f'cancellable rows deleted with WHERE {text(st.where)}; only a whole-batch cancel may drop all rows of its own batch', r.file, r.line_of(st))
                else:
                    soft.append(f'{rname}: DELETE FROM {CANC_TBL} WHERE {text(st.where)[:100]}: scope not recognised')
            elif st.kind == 'insert' and tbls[0] == 'job_groups_cancelled':
                found_mark = True
        ctx.need(found_mark, f'{rname}: the INSERT INTO job_groups_cancelled that marks the cancellation was not found')
        # order: the move into the cancelled counters READS the cancellable rows that the other statement zeroes / deletes
        order = [(i_, st_) for i_, (st_, _g) in enumerate(sf.guarded_statements(a.body)) if sf.written_tables(st_)]
        movers = [i_ for i_, st_ in order if st_.kind == 'insert' and st_.table.lower() == USER_TBL and st_.select is not None and CANC_TBL in cf.alias_map(st_.select).values()]
        clearers = [i_ for i_, st_ in order if any(t.lower() == CANC_TBL for t, _ in sf.written_tables(st_))]
        if movers and clearers:
            ctx.check(max(movers) < min(clearers), 'R4', f'{r.file}::{rname}::moves before clearing',
                      f'{rname} clears the cancellable rows in {CANC_TBL} BEFORE the statement that sums them up to move the counts from n_*_jobs to n_cancelled_*_jobs in {USER_TBL}: '
                      'the sums are zero by then, nothing is moved and the cancelled jobs stay counted as ready / running', r.file, r.line_of(dict(order)[min(clearers)]))
        for found, table, key, msg in ((found_user, USER_TBL, 'moves live counts', f'{rname} marks the {"group" if group_level else "batch"} cancelled but never moves its cancellable '
                                        f'ready/running/creating counts out of {USER_TBL}: the scheduler keeps counting cancelled jobs as runnable'),
                                       (found_canc, CANC_TBL, 'clears cancellable', f'{rname} marks the {"group" if group_level else "batch"} cancelled but leaves its rows in {CANC_TBL} counted as cancellable')):
            if found:
                ctx.ok('R4', f'{r.file}::{rname}::{key}')
            elif _writes_via_call(prog, a, table):
                soft.append(f'{rname}: {table} is written by a called procedure: not followed by this rule')
            else:
                ctx.bad('R4', f'{r.file}::{rname}::{key}', msg, r.file, r.line)
    if soft:
        raise AnalysisError(soft[0])


def _amount_side(ins_e: N, uvars: Dict[str, N]) -> Tuple[int, N, Optional[str]]:
    """(sign, term, summed column | None) of an inserted amount  [-1 *] [(@v :=] [CAST(] [COALESCE(] SUM(col) .."""
    s1, x1 = sr.signed_term(ins_e, uvars)
    inner = sr.unwrap_sum(x1)
    return s1, x1, (inner.parts[-1].lower() if inner is not None and inner.kind == 'col' else None)


def _check_on_dup(ctx: Ctx, cons: str, col: str, ins_e: N, dup: Dict[str, N], uvars: Dict[str, N], file: str, line: int, soft: List[str], resolve: Any = None, differ: Any = None) -> None:
    """ON DUPLICATE KEY UPDATE col = col + <what the insert side inserts>.  `col + VALUES(col)`, operand order and user-variable spelling are
    seen through; a right-hand side that does not mention col overwrites the counter (violation); anything else is declined."""
    c = cons + '::on-duplicate'
    d = dup.get(col)
    if d is None:
        ctx.bad('R3', c, f'{col} is inserted but not updated ON DUPLICATE KEY: an existing token row keeps its old amount', file, line)
        return
    inc = sr.dup_increment(col, d, uvars)
    if inc is None:
        if not any(x.kind == 'col' and x.parts[-1].lower() == col for x in d.walk()):
            ctx.bad('R3', c, f'ON DUPLICATE KEY UPDATE `{col} = {text(d)}` overwrites the counter instead of adding to it: an existing token row and a fresh one would end up with different amounts', file, line)
        else:
            soft.append(f'{cons}: ON DUPLICATE KEY UPDATE `{text(d)[:80]}` is not of the form {col} + amount')
        return
    s2, x2 = inc
    if x2.kind == 'values_fn' and x2.col.lower() != col:
        ctx.bad('R3', c, f'ON DUPLICATE KEY UPDATE `{col} = {text(d)}` adds the value inserted into ANOTHER column ({x2.col}): an existing token row and a fresh one would receive different amounts', file, line)
        return
    if x2.kind == 'values_fn' and x2.col.lower() == col:
        if s2 == 1:
            ctx.ok('R3', c)
        else:
            ctx.bad('R3', c, f'ON DUPLICATE KEY UPDATE `{text(d)}` subtracts the inserted value instead of adding it', file, line)
        return
    s1, x1 = sr.signed_term(ins_e, uvars)
    a1, a2 = (resolve(x1), resolve(x2)) if resolve is not None else (x1, x2)
    if s1 == s2 and text(a1) == text(a2):
        ctx.ok('R3', c)
        return
    verdict = differ(a1, s1, a2, s2) if differ is not None else (_amounts_differ(a1, s1, a2, s2) or None)
    if verdict is False:
        ctx.ok('R3', c)
    elif verdict:
        ctx.bad('R3', c, f'ON DUPLICATE KEY UPDATE for {col} is `{text(d)}`, not `{col} = {col} + <the inserted amount {text(ins_e)[:60]}>`: an existing token row and a fresh one would receive different amounts', file, line)
    else:
        soft.append(f'{cons}: cannot compare the inserted amount `{text(ins_e)[:60]}` with the on-duplicate increment `{text(d)[:60]}`')


def _amounts_differ(a1: N, s1: int, a2: N, s2: int) -> bool:
    """Positive evidence that two amounts differ: both are plain [SUM of a] column / variable and the columns or signs differ."""
    def base(x: N) -> Optional[str]:
        inner = sr.unwrap_sum(x)
        y = inner if inner is not None else x
        if y.kind == 'cast':
            y = y.arg
        if y.kind == 'col':
            return ('sum:' if inner is not None else '') + y.parts[-1].lower()
        if y.kind == 'lit':
            return f'lit:{y.value!r}'
        return None
    b1, b2 = base(a1), base(a2)
    if b1 is None or b2 is None:
        return False
    return b1 != b2 or s1 != s2


def _check_cancel_user_insert(ctx: Ctx, prog: sf.SqlProgram, r: sf.Routine, rname: str, st: N, group_level: bool, soft: List[str]) -> None:
    ins, dup, uvars = sr.insert_colmap(st)
    sel = st.select
    ctx.need(sel is not None, f'{rname}: user counter insert is not INSERT..SELECT')
    a = r.ast
    pnames = [p[1].lower() for p in getattr(a, 'params', [])]
    variables = _routine_vars(a)
    cons = f'{r.file}::{rname}::insert {USER_TBL}'
    line = r.line_of(st)
    want = {
        'n_ready_jobs': (-1, 'n_ready_cancellable_jobs'), 'ready_cores_mcpu': (-1, 'ready_cancellable_cores_mcpu'),
        'n_running_jobs': (-1, 'n_running_cancellable_jobs'), 'running_cores_mcpu': (-1, 'running_cancellable_cores_mcpu'),
        'n_creating_jobs': (-1, 'n_creating_cancellable_jobs'),
        'n_cancelled_ready_jobs': (1, 'n_ready_cancellable_jobs'), 'n_cancelled_running_jobs': (1, 'n_running_cancellable_jobs'),
        'n_cancelled_creating_jobs': (1, 'n_creating_cancellable_jobs'),
    }
    for col, (sign, src) in want.items():
        c2 = f'{cons}.{col}'
        if col not in ins:
            ctx.bad('R4', c2, f'{col} is not adjusted when cancelling (cancellable {src} would stay counted)', r.file, line)
            continue
        s1, x1, got_src = _amount_side(ins[col], uvars)
        if got_src is None:
            soft.append(f'{rname}: the amount inserted into {USER_TBL}.{col}, `{text(ins[col])[:80]}`, is not recognisably +/- SUM(<cancellable column>)')
        else:
            ctx.check(s1 == sign and got_src == src, 'R4', c2,
                      f'inserted amount is {"+" if s1 > 0 else "-"}SUM({got_src}); cancelling must move {"+" if sign > 0 else "-"}SUM({src})', r.file, line)
        _check_on_dup(ctx, c2, col, ins[col], dup, uvars, r.file, line, soft)
    extra = [c for c in dup if c not in want]
    ctx.check(not extra, 'R3', cons + '::one-sided', f'columns updated on duplicate key only: {extra}', r.file, line)
    # source: committed updates of this batch (and group) - by structure: aliases, operand order, conjunct order and JOIN spelling do not matter
    alias = cf.alias_map(sel)
    ec = cf.eq_closure(sel, prog.tables, variables)
    conj = cf.all_conjuncts(sel)
    bu = 'batch_updates'
    committed = any((lambda x: x is not None and x.kind == 'col' and cf.term_of(x, alias, prog.tables, variables) in (('col', bu, 'committed'), ('col', '?', 'committed')))(cf.flag_set(c)) for c in conj)
    mentions = any(x.kind == 'col' and x.parts[-1].lower() == 'committed' for c in cf.all_conjuncts(sel, inner_only=False) for x in c.walk())
    joined = ec.related(('col', CANC_TBL, 'batch_id'), ('col', bu, 'batch_id')) and ec.related(('col', CANC_TBL, 'update_id'), ('col', bu, 'update_id'))
    c2 = cons + '::committed only'
    if CANC_TBL in alias.values() and bu in alias.values() and committed and joined:
        ctx.ok('R4', c2)
    elif CANC_TBL in alias.values() and (bu not in alias.values() or not mentions):
        ctx.bad('R4', c2, 'the amounts moved are not restricted to cancellable rows of committed updates (join batch_updates on batch_id, update_id and require committed)', r.file, line)
    else:
        soft.append(f'{rname}: how the rows summed into {USER_TBL} are restricted to committed updates is not recognised')
    c2 = cons + '::scope'
    tb, tg = ('col', CANC_TBL, 'batch_id'), ('col', CANC_TBL, 'job_group_id')
    in_b = ec.related(tb, ('var', pnames[0]))
    in_g = group_level and ec.related(tg, ('var', pnames[1]))
    g_part = ec.partners(tg)
    g_other = any(x.kind == 'col' and x.parts[-1].lower() == 'job_group_id' for c in ec.other for x in c.walk())
    if in_b and (in_g if group_level else (not g_part and not g_other)):
        ctx.ok('R4', c2)
    elif not any(('var', pnames[0]) in cl for cl in ec.classes) or (group_level and not any(('var', pnames[1]) in cl for cl in ec.classes) and not g_other):
        ctx.bad('R4', c2, f'source rows are not exactly those of the cancelled {"group" if group_level else "batch"}: WHERE {text(sel.where)}', r.file, line)
    else:
        soft.append(f'{rname}: the scope of the rows summed into {USER_TBL} (WHERE {text(sel.where)[:100]}) is not recognised')
    grp = sorted(text(g).lower().split('.')[-1].strip('`') for g in sel.group)
    ctx.check(grp == ['inst_coll', 'user'] and text(ins.get('user')).lower().split('.')[-1].strip('`') == 'user' and text(ins.get('inst_coll')).lower().split('.')[-1].strip('`') == 'inst_coll',
              'R4', cons + '::grouping', f'sums are not grouped and keyed by (user, inst_coll): GROUP BY {grp}', r.file, line)


def _check_cancel_group_insert(ctx: Ctx, prog: sf.SqlProgram, r: sf.Routine, rname: str, st: N, soft: List[str]) -> None:
    ins, dup, uvars = sr.insert_colmap(st)
    sel = st.select
    a = r.ast
    pnames = [p[1].lower() for p in getattr(a, 'params', [])]
    variables = _routine_vars(a)
    cons = f'{r.file}::{rname}::insert {CANC_TBL}'
    line = r.line_of(st)
    ctx.need(sel is not None, f'{rname}: cancellable insert is not INSERT..SELECT')
    lat = [t for t in sf.from_tables(sel.frm) if t.kind == 'derived']
    ctx.need(len(lat) == 1, f'{rname}: lateral per-(update, inst_coll) sum not found')
    lsel = lat[0].select
    lcols = {(al or text(c).split('.')[-1]).lower().strip('`'): c for c, al in lsel.cols}
    for col in CANC_COUNTERS:
        c2 = f'{cons}.{col}'
        if col not in ins:
            ctx.bad('R4', c2, f'{col} of the cancelled group is not removed from its ancestors', r.file, line)
            continue
        s1, x1 = sr.signed_term(ins[col], uvars)
        src = None
        if x1.kind == 'col' and x1.parts[-1].lower() in lcols:
            inner = sr.unwrap_sum(lcols[x1.parts[-1].lower()])
            src = inner.parts[-1].lower() if inner is not None and inner.kind == 'col' else None
        if src is None:
            soft.append(f'{rname}: the amount inserted into {CANC_TBL}.{col}, `{text(ins[col])[:80]}`, is not recognisably - SUM(<column of the lateral sum>)')
        else:
            ctx.check(s1 == -1 and src == col, 'R4', c2, f'inserted amount is sign {s1} of SUM({src}); must be -SUM({col}) of the cancelled group', r.file, line)
        _check_on_dup(ctx, c2, col, ins[col], dup, uvars, r.file, line, soft)
    # lateral: rows of the cancelled group itself, per (update_id, inst_coll)
    WALK = 'job_group_self_and_ancestors'
    both = dict(cf.alias_map(sel))
    both.update(cf.alias_map(lsel))
    lec = cf.eq_closure(lsel, prog.tables, variables, conj=list(sf.conjuncts(lsel.where)), alias=both)
    grp = sorted(text(g).lower().split('.')[-1].strip('`') for g in lsel.group)
    own = lec.related(('col', CANC_TBL, 'batch_id'), ('col', WALK, 'batch_id')) and lec.related(('col', CANC_TBL, 'job_group_id'), ('col', WALK, 'job_group_id'))
    c2 = cons + '::source'
    if [t.lower() for t in sf.table_names(lsel.frm)] == [CANC_TBL] and own and grp == ['inst_coll', 'update_id'] and not lec.other:
        ctx.ok('R4', c2)
    elif [t.lower() for t in sf.table_names(lsel.frm)] == [CANC_TBL] and not lec.other and (lec.related(('col', CANC_TBL, 'job_group_id'), ('col', WALK, 'ancestor_id')) or grp != ['inst_coll', 'update_id']
                                                                                          or not lec.partners(('col', CANC_TBL, 'job_group_id'))):
        ctx.bad('R4', c2, f'the per-(update, inst_coll) sums are not those of the cancelled group\'s own cancellable rows (WHERE {text(lsel.where)}, GROUP BY {grp})', r.file, line)
    else:
        soft.append(f'{rname}: the lateral sum over {CANC_TBL} (WHERE {text(lsel.where)[:100]}) is not recognised')
    _check_fanout(ctx, 'R4', cons, st, ins, r.file, line, batch=[('var', pnames[0])], group=[('var', pnames[1])] if len(pnames) > 1 else [],
                  update=[('col', '?', 'update_id')], variables=variables, schema=prog.tables, soft=soft)
    ctx.check(text(ins.get('inst_coll')).lower().split('.')[-1].strip('`') == 'inst_coll' and text(ins.get('update_id')).lower().split('.')[-1].strip('`') == 'update_id', 'R4', cons + '::keys',
              'ancestor rows are not keyed by the (update_id, inst_coll) the sums were taken over', r.file, line)


# ------------------------------------------------------------------------------------------------
def _into_sources(a: N, schema: Dict[str, List[str]], variables: List[str]) -> Dict[str, List[Tuple[str, str, Any]]]:
    """routine variable -> [(table, 'col:<column>' | 'sum:<column>', equality closure of the SELECT)] for `SELECT <col | SUM(col)> .. INTO v` over one table."""
    out: Dict[str, List[Tuple[str, str, Any]]] = {}
    for v, defs in cf.assigned_from(a.body).items():
        for e, st in defs:
            if st is None or st.frm is None:
                out.setdefault(v, []).append(('?', '?', None))
                continue
            tabs = [t.lower() for t in sf.table_names(st.frm)]
            inner = sr.unwrap_sum(e)
            y = inner if inner is not None else e
            if len(tabs) == 1 and y.kind == 'col':
                out.setdefault(v, []).append((tabs[0], ('sum:' if inner is not None else 'col:') + y.parts[-1].lower().strip('`'), cf.eq_closure(st, schema, variables)))
            else:
                out.setdefault(v, []).append(('?', '?', None))
    return out


def _commit_locals(a: N, prog: sf.SqlProgram) -> Tuple[List[str], List[str], List[str]]:
    """The locals of commit_batch_update, identified by what is read INTO them (never by name): (committed flag of this update, its declared
    number of jobs, the number of jobs staged for it in the root group)."""
    pnames = [p[1].lower() for p in getattr(a, 'params', [])]
    if len(pnames) < 2:
        return [], [], []
    B, U = pnames[0], pnames[1]
    srcs = _into_sources(a, prog.tables, _routine_vars(a))

    def is_src(v: str, table: str, what: str, keys: List[Tuple[str, Any]]) -> bool:
        ds = srcs.get(v, [])
        return bool(ds) and all(t == table and w == what and ec_ is not None and all(ec_.related(('col', table, k), tt) for k, tt in keys) for t, w, ec_ in ds)
    key_bu = [('batch_id', ('var', B)), ('update_id', ('var', U))]
    return ([v for v in srcs if is_src(v, 'batch_updates', 'col:committed', key_bu)], [v for v in srcs if is_src(v, 'batch_updates', 'col:n_jobs', key_bu)],
            [v for v in srcs if is_src(v, STAGE_TBL, 'sum:n_jobs', key_bu + [('job_group_id', ('lit', '0'))])])


def r7_commit(ctx: Ctx, prog: sf.SqlProgram) -> None:
    r = prog.routine('commit_batch_update')
    a = r.ast
    soft: List[str] = []
    pnames = [p[1].lower() for p in getattr(a, 'params', [])]
    ctx.need(len(pnames) >= 2, f'commit_batch_update: parameters {pnames}')
    B, U = pnames[0], pnames[1]
    variables = _routine_vars(a)
    hits = [(st, g) for st, g in sf.guarded_statements(a.body) if st.kind == 'insert' and st.table.lower() == USER_TBL]
    ctx.need(len(hits) == 1, f'commit_batch_update: expected one insert into {USER_TBL}, found {len(hits)}')
    st, guard = hits[0]
    cons = f'{r.file}::commit_batch_update::insert {USER_TBL}'
    line = r.line_of(st)
    ins, dup, uvars = sr.insert_colmap(st)
    sel = st.select
    ctx.need(sel is not None, 'commit_batch_update: hand-over is not INSERT..SELECT')
    for col in ('n_ready_jobs', 'ready_cores_mcpu'):
        c2 = f'{cons}.{col}'
        if col not in ins:
            ctx.bad('R7', c2, f'{col} staged by the update is never added to the user counters', r.file, line)
            continue
        s1, x1, src = _amount_side(ins[col], uvars)
        if src is None:
            soft.append(f'commit_batch_update: the amount inserted into {USER_TBL}.{col}, `{text(ins[col])[:80]}`, is not recognisably SUM(<staging column>)')
        else:
            ctx.check(s1 == 1 and src == col, 'R7', c2, f'hands over {"+" if s1 > 0 else "-"}SUM({src}) of staging, must be +SUM({col})', r.file, line)
        _check_on_dup(ctx, c2, col, ins[col], dup, uvars, r.file, line, soft)
    extra = [c for c in list(ins) + list(dup) if c not in ('user', 'inst_coll', 'token', 'n_ready_jobs', 'ready_cores_mcpu')]
    ctx.check(not extra, 'R7', cons + '::columns', f'commit touches counters that staging does not carry: {extra}', r.file, line)
    alias = cf.alias_map(sel)
    ec = cf.eq_closure(sel, prog.tables, variables)
    tS = lambda c: ('col', STAGE_TBL, c)  # noqa: E731
    ok = STAGE_TBL in alias.values() and ec.related(tS('batch_id'), ('var', B)) and ec.related(tS('update_id'), ('var', U)) and ec.related(tS('job_group_id'), ('lit', '0'))
    c2 = cons + '::source'
    if ok and not ec.other:
        ctx.ok('R7', c2)
    elif STAGE_TBL in alias.values() and not ec.other:
        ctx.bad('R7', c2, f'staging rows summed are not exactly the root group (job_group_id = 0) of ({B}, {U}): WHERE {text(sel.where)}; '
                'ancestors already include their descendants, so any other scope double counts or misses jobs', r.file, line)
    else:
        soft.append(f'commit_batch_update: the scope of the staging rows handed over (WHERE {text(sel.where)[:100]}) is not recognised')
    grp = sorted(text(g).lower().split('.')[-1].strip('`') for g in sel.group)
    ctx.check(grp == ['inst_coll', 'user'], 'R7', cons + '::grouping', f'GROUP BY {grp}, expected (user, inst_coll)', r.file, line)
    # once: in the branch where the update was not yet committed and the staged job count matches - the locals are identified by what is read INTO them
    committed_vars, expected_vars, staged_vars = _commit_locals(a, prog)
    blocals = cf.boolean_locals(a.body)
    lits = cf.guard_literals(guard, blocals)
    gtxt = [(text(c), pol) for c, pol in lits]

    def not_committed(ls: Any) -> bool:
        return any(not pol and sr.is_var(x) and x.parts[0].lower() in committed_vars for x, pol in ls)

    def count_matches(ls: Any) -> bool:
        for x, pol in ls:
            if pol and x.kind == 'bin' and x.op in ('=', '<=>') and sr.is_var(x.left) and sr.is_var(x.right):
                l, r_ = x.left.parts[0].lower(), x.right.parts[0].lower()
                if (l in staged_vars and r_ in expected_vars) or (l in expected_vars and r_ in staged_vars):
                    return True
        return False
    c2 = cons + '::once'
    if not committed_vars or not expected_vars or not staged_vars:
        soft.append('commit_batch_update: the locals holding batch_updates.committed / batch_updates.n_jobs / the staged job count of this update are not recognised '
                    f'(found {committed_vars}, {expected_vars}, {staged_vars})')
    elif not_committed(lits) and count_matches(lits):
        ctx.ok('R7', c2)
    else:
        ctx.bad('R7', c2, f'hand-over is not confined to the not-yet-committed, job-count-matches branch (path condition {gtxt})', r.file, line)
    # committed flag is set in the same branch
    c2 = f'{r.file}::commit_batch_update::set committed'
    sets_committed = []
    for s_, g in sf.guarded_statements(a.body):
        if s_.kind == 'update' and [t.lower() for t, _ in sf.written_tables(s_)] == ['batch_updates']:
            for c, v in s_.sets:
                if c.kind == 'col' and c.parts[-1].lower().strip('`') == 'committed':
                    sets_committed.append((s_, g, v))
    if committed_vars:
        good = [x for x in sets_committed if x[2].kind == 'lit' and (x[2].value is True or x[2].value == 1) and not isinstance(x[2].value, str)]
        if len(sets_committed) == 1 and len(good) == 1 and not_committed(cf.guard_literals(good[0][1], blocals)):
            ctx.ok('R7', c2)
        elif len(sets_committed) != 1 or len(good) == 1:
            ctx.bad('R7', c2, 'batch_updates.committed is not set exactly once in the not-yet-committed branch', r.file, r.line)
        else:
            soft.append(f'commit_batch_update: batch_updates.committed is set to `{text(sets_committed[0][2])}`: not recognised')
    if soft:
        raise AnalysisError(soft[0])


# ------------------------------------------------------------------------------------------------
_submission = None


def submission() -> cs.Submission:
    global _submission
    if _submission is None:
        _submission = cs.Submission()
    return _submission


_items_source = cs.items_source


def r5_create_jobs(ctx: Ctx) -> None:
    """_create_jobs, decided on the function with its module-level helpers inlined (engines/c05submit.py).  No local name is compared with a
    frozen string: the rows are found through the INSERT statements they are passed to, the tally mapping D is whatever the counter inserts
    iterate with `.items()`, the loop variables are taken from that loop's target.  (a) The per-job tallies are a truth table over the atoms
    the loop body tests (first update?, parent lists empty?, always_run?, opaque atoms for anything else); a FAIL needs a valuation of the known
    atoms under which the tallies disagree with the inserted row whatever the opaque atoms are, otherwise the rule declines."""
    S = submission()
    m = S.m
    file = S.m0.rel
    path = S.m0.path
    declines: List[str] = []
    srows, crows = S.rows(STAGE_TBL), S.rows(CANC_TBL)
    for t, r in ((STAGE_TBL, srows), (CANC_TBL, crows)):
        ctx.need(not r.problem, f'_create_jobs: rows of the {t} insert: {r.problem}')
    ssrc, csrc = _items_source(srows), _items_source(crows)
    ctx.need(ssrc is not None and csrc is not None and ssrc[0] == csrc[0], '_create_jobs: the rows of the staging / cancellable inserts are not produced by `for (job_group, inst_coll), tallies in <one mapping>.items()`')
    assert ssrc is not None
    D = ssrc[0]
    ctx.need(cs.binding_scope(m, srows.holder, D) is S.fn, f'_create_jobs: the tally mapping `{D}` is not a local of _create_jobs')
    jl = S.job_loop()
    ctx.need(jl.tally_dict == D, f'_create_jobs: the tally mapping `{D}` of the counter inserts is not the one the job loop was analysed for')
    row = jl.row
    ctx.need({'state', 'always_run', 'cores_mcpu', 'job_group_id', 'inst_coll', 'batch_id', 'update_id'} <= set(row), f'_create_jobs: the jobs insert does not bind state / always_run / cores_mcpu / job_group_id / inst_coll / batch_id / update_id (columns {sorted(row)})')
    cons = f'{file}::_create_jobs::tallies'
    line = getattr(jl.row_site, 'lineno', 0)

    def canon(e: ast.AST) -> str:
        return pf.nsrc(cs.strip_markers(jl._root(e) if isinstance(e, ast.Name) else e))

    def amounts(o: cs.Outcome, col: str) -> List[str]:
        return sorted(('' if t.op == '+' else t.op) + canon(t.amount) for t in o.tallies if t.col == col)

    def cores_of(o: cs.Outcome) -> str:
        return canon(o.exprs['cores_mcpu'])

    def fmt(o: cs.Outcome, cols: List[str]) -> str:
        return '{' + ', '.join(f'{c}: {"+".join(amounts(o, c)) or "nothing"}' for c in cols) + '}'
    unknown_cols = [t for o in jl.outcomes for t in o.tallies if t.col is None]
    ctx.need(not unknown_cols, f'_create_jobs: a tally is accumulated under a key that is not a string constant (`{pf.nsrc(unknown_cols[0].node)[:60]}`)' if unknown_cols else '')
    unknown_state = [o for o in jl.outcomes if not o.rejected and o.values.get('state') is cs.UNKNOWN]
    ctx.need(not unknown_state, f'_create_jobs: the state inserted for a job is `{pf.nsrc(cs.strip_markers(unknown_state[0].exprs["state"]))[:60]}`, not a constant the analysis can follow' if unknown_state else '')

    def v_ready(o, kv):
        if o.values['state'] == 'Ready' and (amounts(o, 'n_ready_jobs') != ['1'] or amounts(o, 'ready_cores_mcpu') != [cores_of(o)]):
            return f'a job inserted Ready adds {fmt(o, ["n_ready_jobs", "ready_cores_mcpu"])} to the staged counters [case: {cs.describe(kv)}], expected n_ready_jobs += 1 and ready_cores_mcpu += {cores_of(o)} (the cores_mcpu of the inserted row)'
        return None

    def v_canc(o, kv):
        if o.values['state'] != 'Ready':
            return None
        want = ([], []) if kv.get(cs.A_ALWAYS, False) else (['1'], [cores_of(o)])
        if (amounts(o, 'n_ready_cancellable_jobs'), amounts(o, 'ready_cancellable_cores_mcpu')) != want:
            return (f'a Ready job with always_run = {int(kv.get(cs.A_ALWAYS, False))} adds {fmt(o, ["n_ready_cancellable_jobs", "ready_cancellable_cores_mcpu"])} to the cancellable tallies [case: {cs.describe(kv)}]; '
                    'expected += 1 / += cores_mcpu exactly when not always_run')
        return None

    def v_pending(o, kv):
        extra_ = sorted({t.col for t in o.tallies if t.col != 'n_jobs'})
        if o.values['state'] != 'Ready' and extra_:
            return f'a job inserted {o.values["state"]} adds {fmt(o, extra_)} to the ready tallies [case: {cs.describe(kv)}]: only Ready jobs are staged as ready'
        return None

    def v_njobs(o, kv):
        if amounts(o, 'n_jobs') != ['1']:
            return f'a job adds {fmt(o, ["n_jobs"])} [case: {cs.describe(kv)}]: n_jobs must be incremented by exactly 1 per job'
        return None

    def v_key(o, kv):
        want = (canon(o.exprs['job_group_id']), canon(o.exprs['inst_coll']))
        for t in o.tallies:
            k = cs.strip_markers(t.key) if t.key is not None else None
            got = tuple(canon(x) for x in k.elts) if isinstance(k, ast.Tuple) and len(k.elts) == 2 else None
            if got is not None and got != want and set(got) <= set(canon(x) for x in o.exprs.values()):
                return f'tallies are accumulated under `{D}[{pf.nsrc(k)}]` but the job row is inserted with job_group_id={want[0]}, inst_coll={want[1]}'
        return None
    odd_keys = [t for o in jl.outcomes for t in o.tallies if not (isinstance(t.key, ast.Tuple) and len(t.key.elts) == 2)]
    for key, viol in (('::ready', v_ready), ('::cancellable', v_canc), ('::pending', v_pending), ('::n_jobs', v_njobs), ('::key', v_key)):
        definite, possible = jl.judge(viol, [cs.A_ALWAYS])
        if definite is not None:
            ctx.bad('R5', cons + key, definite[1], path, line)
        elif possible is not None:
            declines.append(f'_create_jobs: {possible[1]} - but only for a particular outcome of {sorted(jl.opaque.values())[:3]}, which the analysis cannot relate to the job row')
        elif key == '::key' and (odd_keys or any(v_key_undecided(o, canon) for o in jl.outcomes if not o.rejected)):
            declines.append(f'_create_jobs: the key under which the tallies are accumulated is not recognisably (job_group_id, inst_coll) of the inserted row')
        else:
            ctx.ok('R5', cons + key, {'cases': len(jl.outcomes)})
    ctx.ok('R5', cons + '::row', {'columns': sorted(row)})
    ctx.unit('create_jobs_truth_table_cases', len(jl.outcomes))
    K_JOB_GROUP, K_INST_COLL = 0, 1

    # (b) staging / cancellable inserts: parameter binding, on-duplicate symmetry, ancestor fan-out
    known_counters = set(STAGE_COUNTERS) | {'n_ready_cancellable_jobs', 'ready_cancellable_cores_mcpu'}
    for table, counters, rows, src in ((STAGE_TBL, STAGE_COUNTERS, srows, ssrc), (CANC_TBL, ['n_ready_cancellable_jobs', 'ready_cancellable_cores_mcpu'], crows, csrc)):
        e, st = S.need_insert(table)
        _, K1, K2, V = src
        cons2 = f'{file}::_create_jobs::insert {table}'
        ctx.need(st.select is not None, f'_create_jobs: the insert into {table} no longer fans out over job_group_self_and_ancestors in SQL (INSERT .. SELECT); '
                 'a roll-up done in Python is outside what this rule can decide')
        ins, dup, uvars = sr.insert_colmap(st)
        params = sr.params_in_order(st)
        elts = rows.elts
        ctx.need(len(elts) == len(params), f'_create_jobs: cannot bind arguments of the {table} insert ({len(params)} parameters, {len(elts)} row elements)')
        bind = {id(p): x for p, x in zip(params, elts)}

        def role(x: Optional[ast.AST]) -> str:
            """What a row element denotes: a key component / a tally of the iterated item, or one of the per-request values of the jobs rows."""
            if x is None:
                return '?'
            if isinstance(x, ast.Name) and x.id == K1:
                return 'key.job_group_id'
            if isinstance(x, ast.Name) and x.id == K2:
                return 'key.inst_coll'
            if isinstance(x, ast.Subscript) and isinstance(x.value, ast.Name) and x.value.id == V and pf.const_str(x.slice) is not None:
                return 'tally.' + pf.const_str(x.slice)
            for c in ('batch_id', 'update_id'):
                if canon(x) == canon(row[c]):
                    return 'request.' + c
            return '?'
        for col in counters:
            ex = ins.get(col)
            got = role(bind.get(id(ex))) if ex is not None and ex.kind == 'param' else '?'
            if got == 'tally.' + col:
                ctx.ok('R5', f'{cons2}.{col}')
            elif got.startswith('tally.') and got[len('tally.'):] in known_counters:
                ctx.bad('R5', f'{cons2}.{col}', f'column {col} is bound to the tally `{got[len("tally."):]}` (`{pf.nsrc(bind[id(ex)])}`), expected the tally {col!r} of the same item', path, e.lineno)
            else:
                declines.append(f'_create_jobs: column {col} of the {table} insert is bound to `{_src(bind.get(id(ex))) if ex is not None else None}`, not recognisably a tally of the iterated item')
            if ex is not None:
                _check_on_dup(ctx, f'{cons2}.{col}', col, ex, dup, uvars, path, e.lineno, declines)
        extra = [c for c in dup if c not in counters]
        ctx.check(not extra, 'R3', cons2 + '::one-sided', f'columns updated on duplicate key only: {extra}', path, e.lineno)
        # fan-out: ancestor walk keyed by (batch_id, the item's job group)
        sel = st.select
        walk = sf.table_names(sel.frm) == ['job_group_self_and_ancestors']
        jgcol = ins.get('job_group_id')
        wb = wg = '?'
        if walk:
            for c in sf.conjuncts(sel.where):
                if c.kind == 'bin' and c.op == '=':
                    for a, b in ((c.left, c.right), (c.right, c.left)):
                        if a.kind == 'col' and b.kind == 'param':
                            if a.parts[-1].lower() == 'batch_id':
                                wb = role(bind.get(id(b)))
                            if a.parts[-1].lower() == 'job_group_id':
                                wg = role(bind.get(id(b)))
        c3 = cons2 + '::ancestor fan-out'
        if walk and jgcol is not None and jgcol.kind == 'col' and jgcol.parts[-1].lower() == 'ancestor_id' and wb == 'request.batch_id' and wg == 'key.job_group_id':
            ctx.ok('R5', c3)
        elif walk and jgcol is not None and jgcol.kind == 'col' and jgcol.parts[-1].lower() == 'job_group_id':
            ctx.bad('R5', c3, 'the job_group_id column receives the walked group itself instead of ancestor_id: every ancestor row is written onto the job\'s own group, the ancestors\' staged counts stay behind', path, e.lineno)
        elif walk and jgcol is not None and jgcol.kind == 'param' and role(bind.get(id(jgcol))) == 'key.job_group_id':
            ctx.bad('R5', c3, 'staged counts are inserted for the job group only, not for its ancestors (job_group_id column bound to the item\'s own group)', path, e.lineno)
        elif walk and wg in ('key.inst_coll',) or (walk and wg.startswith(('tally.', 'request.'))):
            ctx.bad('R5', c3, f'the ancestor walk is keyed by job_group_id = {wg}, not by the job group the tallies were accumulated for', path, e.lineno)
        else:
            declines.append(f'_create_jobs: the fan-out of the {table} insert is not the recognised walk over job_group_self_and_ancestors (batch_id <- {wb}, job_group_id <- {wg})')
        c4 = cons2 + '::keys'
        got_keys = {c: (role(bind.get(id(ins[c]))) if c in ins and ins[c].kind == 'param' else '?') for c in ('update_id', 'inst_coll', 'batch_id')}
        want_keys = {'update_id': 'request.update_id', 'inst_coll': 'key.inst_coll', 'batch_id': 'request.batch_id'}
        if got_keys == want_keys:
            ctx.ok('R5', c4)
        elif all(v != '?' for v in got_keys.values()):
            wrong = [f'{c} <- {v}' for c, v in got_keys.items() if v != want_keys[c]]
            ctx.bad('R5', c4, f'batch_id / update_id / inst_coll columns are not bound to the like-named values ({", ".join(wrong)})', path, e.lineno)
        else:
            declines.append(f'_create_jobs: the key columns of the {table} insert are bound to {got_keys}: not recognised')
        ctx.ok('R5', cons2 + '::source', {'mapping': D})
        _check_row_filter(ctx, m, e, rows, V, counters, cons2, path)
    if declines:
        raise AnalysisError(declines[0])


def v_key_undecided(o: Any, canon: Any) -> bool:
    want = (canon(o.exprs['job_group_id']), canon(o.exprs['inst_coll']))
    for t in o.tallies:
        k = cs.strip_markers(t.key) if t.key is not None else None
        got = tuple(canon(x) for x in k.elts) if isinstance(k, ast.Tuple) and len(k.elts) == 2 else None
        if got != want:
            return True
    return False


def _ready_only_first_update() -> bool:
    """Premise: _create_jobs inserts a job Ready (and stages n_ready_jobs) only in the first update - decided on the truth table of the job loop."""
    try:
        jl = submission().job_loop()
        if any(not o.rejected and o.values.get('state') is cs.UNKNOWN for o in jl.outcomes):
            return False
        definite, possible = jl.judge(lambda o, kv: 'ready' if o.values.get('state') == 'Ready' and not kv.get(cs.A_FIRST, False) else None, [cs.A_FIRST])
        return definite is None and possible is None
    except AnalysisError:
        return False


# a non-zero value of the key implies a non-zero value of the mapped column (per (job group, inst_coll) tally of one bunch)
TALLY_DOMINATED_BY = {'ready_cores_mcpu': 'n_ready_jobs', 'n_ready_jobs': 'n_jobs', 'ready_cancellable_cores_mcpu': 'n_ready_cancellable_jobs',
                      'n_ready_cancellable_jobs': 'n_ready_jobs'}


def _check_row_filter(ctx: Ctx, m: pf.Module, e: Any, rows: cs.Rows, V: str, counters: List[str], cons2: str, path: str) -> None:
    """Rows may only be left out of the staged insert when every amount they carry is zero."""
    def tested(t: ast.expr, pol: bool) -> Optional[set]:
        """The tallies of which at least one is non-zero whenever the row is KEPT."""
        if isinstance(t, ast.UnaryOp) and isinstance(t.op, ast.Not):
            return tested(t.operand, not pol)
        if isinstance(t, ast.BoolOp) and ((isinstance(t.op, ast.Or) and pol) or (isinstance(t.op, ast.And) and not pol)):
            parts = [tested(v, pol) for v in t.values]
            return None if any(p is None for p in parts) else set().union(*parts)
        if isinstance(t, ast.Compare) and len(t.ops) == 1 and isinstance(t.comparators[0], ast.Constant) and t.comparators[0].value == 0 and not isinstance(t.comparators[0].value, bool):
            if (isinstance(t.ops[0], (ast.Gt, ast.NotEq)) and pol) or (isinstance(t.ops[0], (ast.Eq, ast.LtE)) and not pol):
                return tested(t.left, True)
            return None
        if pol and isinstance(t, ast.Subscript) and isinstance(t.value, ast.Name) and t.value.id == V and pf.const_str(t.slice) is not None:
            return {pf.const_str(t.slice)}
        return None

    arg = c56.args_node(e.call)
    for (node, in_body) in sr.enclosing_ifs(m, e.call, stop=e.fn):
        ok_outer = in_body and isinstance(arg, ast.Name) and ((isinstance(node.test, ast.Name) and node.test.id == arg.id) or pf.nsrc(node.test) in (f'len({arg.id}) > 0', f'len({arg.id}) != 0', f'len({arg.id})'))
        ctx.need(ok_outer, f'_create_jobs: the counter insert is conditional on `{pf.nsrc(node.test)}`: not a recognised "nothing to insert" test')
    for f, pol, kind in rows.conds:
        if kind == 'raise':
            continue
        T = tested(f, pol)
        ctx.need(T is not None, f'_create_jobs: row filter `{"" if pol else "not "}{pf.nsrc(f)}` on the counter insert is not a test of the item\'s tallies')
        assert T is not None
        for col in counters:
            chain = {col}
            cur = col
            while cur in TALLY_DOMINATED_BY:
                cur = TALLY_DOMINATED_BY[cur]
                chain.add(cur)
            ctx.check(bool(chain & T), 'R9', f'{cons2}.{col}::row filter', f'rows are only inserted when `{"" if pol else "not "}{pf.nsrc(f)}`, but they also carry {col}, which can be non-zero while everything the filter tests is zero '
                      f'(e.g. a bunch whose jobs in this group are all Pending has n_jobs > 0 and n_ready_jobs = 0): that amount never reaches the staged counters', path, e.lineno)


# ------------------------------------------------------------------------------------------------
ALLOWED_WRITERS = {
    USER_TBL: {'sql:jobs_after_update', 'sql:cancel_job_group', 'sql:cancel_batch', 'sql:commit_batch_update'},
    CANC_TBL: {'sql:jobs_after_update', 'sql:cancel_job_group', 'sql:cancel_batch', 'py:batch/batch/front_end/front_end.py::_create_jobs',
               'py:batch/batch/driver/main.py::delete_prev_cancelled_job_group_cancellable_resources_records'},
    STAGE_TBL: {'py:batch/batch/front_end/front_end.py::_create_jobs', 'py:batch/batch/driver/main.py::delete_committed_job_groups_inst_coll_staging_records'},
}
WRITE_RE = re.compile(r'\b(INSERT|UPDATE|DELETE|REPLACE|TRUNCATE)\b', re.I)


def _entry_points(m: pf.Module, fn: Optional[pf.FuncDef], depth: int = 0, seen: Optional[set] = None) -> List[str]:
    """Qualified names of the functions through which `fn` is entered: fn itself when nothing in the module calls it directly or when it is
    referenced other than by a direct call (registered as a callback / task), otherwise the entry points of its callers."""
    if fn is None:
        return ['<module>']
    seen = seen if seen is not None else set()
    if id(fn) in seen or depth > 4:
        return [m.qualname(cs.outermost_function(m, fn) or fn)]
    seen.add(id(fn))
    callers = []
    other_ref = False
    par = m.parents()
    for q, g in m.functions():
        for n in pf.walk_shallow(g):
            if isinstance(n, ast.Call) and g is not fn and c56.resolve_callable(m, g, n) is fn:
                callers.append(g)
    for n in ast.walk(m.tree):
        if isinstance(n, ast.Name) and n.id == fn.name and isinstance(n.ctx, ast.Load):
            p_ = par.get(n)
            if not (isinstance(p_, ast.Call) and p_.func is n):
                other_ref = True
        elif isinstance(n, ast.Attribute) and n.attr == fn.name and isinstance(n.ctx, ast.Load):
            p_ = par.get(n)
            if not (isinstance(p_, ast.Call) and p_.func is n):
                other_ref = True
    out: List[str] = []
    if other_ref or not callers:
        out.append(m.qualname(cs.outermost_function(m, fn) or fn))
    for g in callers:
        for q in _entry_points(m, g, depth + 1, seen):
            if q not in out:
                out.append(q)
    return out


def writers_scan(ctx: Ctx, prog: sf.SqlProgram, dirs: List[str], tables: Dict[str, set], rule: str, extra_sources: Optional[List[Tuple[str, str]]] = None) -> Dict[str, set]:
    """Closed-world scan: who writes `tables`.  Returns table -> set of writer ids; unknown writers are reported."""
    found: Dict[str, set] = {t: set() for t in tables}
    where: Dict[Tuple[str, str], Tuple[str, int]] = {}
    for name, r in prog.routines.items():
        for st in sf.all_statements(r.ast.body):
            for t, verb in sf.written_tables(st):
                if t.lower() in tables:
                    found[t.lower()].add('sql:' + name)
                    where[(t.lower(), 'sql:' + name)] = (r.file, r.line_of(st))
    n_mod = 0
    for rel in pf.walk_py(dirs):
        m = pf.load(rel)
        n_mod += 1
        if not any(t in m.src for t in tables):
            continue
        covered = cs.sql_constant_nodes(m)   # the SQL texts of execute-style calls, also when held in a module-level constant / an enclosing function's variable
        for e in cs.embedded(m):
            if e.sql_text is None:
                continue
            if not any(t in e.sql_text for t in tables):
                continue
            sts = e.stmts()
            if e.parse_error:
                raise AnalysisError(f'{rel}:{e.lineno}: SQL naming a counter table does not parse ({e.parse_error})')
            for st in sts:
                for t, verb in sf.written_tables(st):
                    if t.lower() in tables:
                        # a write inside a helper function is attributed to the functions that (transitively) call the helper: extracting the
                        # statement into a helper does not create a new writer, a NEW caller of such a helper does
                        # writers are named by their outermost (module-level / method) function: the name of a nested transaction body is private
                        top_q = m.qualname(cs.outermost_function(m, e.call) or e.fn) if e.fn is not None else '<module>'
                        for q in ([top_q] if f'py:{rel}::{top_q}' in tables[t.lower()] else _entry_points(m, e.fn)):
                            wid = f'py:{rel}::{q}'
                            found[t.lower()].add(wid)
                            where[(t.lower(), wid)] = (m.path, e.lineno)
        # any other string constant naming a counter table together with a write verb is an unrecognised writer
        for n in ast.walk(m.tree):
            if isinstance(n, ast.Constant) and isinstance(n.value, str) and id(n) not in covered:
                for t in tables:
                    if t in n.value and WRITE_RE.search(n.value):
                        raise AnalysisError(f'{rel}:{n.lineno}: string mentioning {t} with a write verb is not an analysed execute() argument (opaque SQL)')
    ctx.unit('python_modules_scanned', n_mod)
    for t, allowed in tables.items():
        for w in sorted(found[t]):
            file, line = where[(t, w)]
            ctx.check(w in allowed, rule, f'{t}::writer {w}', f'{w} writes {t} but is not in the closed set of counter maintainers {sorted(allowed)}', file, line)
        for w in allowed - found[t]:
            raise AnalysisError(f'expected writer {w} of {t} not found (anchor vanished)')
    return found


def r6_closed_world(ctx: Ctx, prog: sf.SqlProgram) -> None:
    dirs = ['batch/batch'] if ctx.tier == 'quick' else ['batch', 'gear', 'auth', 'ci', 'web_common', 'monitoring', 'hail/python/hailtop']
    writers_scan(ctx, prog, dirs, ALLOWED_WRITERS, 'R6')
    # positive control: a synthetic writer must be seen by the same machinery
    from engines.sqlast import parse_statements
    st = parse_statements(f'UPDATE {USER_TBL} SET n_ready_jobs = n_ready_jobs + 1 WHERE user = %s')[0]
    if [t for t, _ in sf.written_tables(st)] != [USER_TBL]:
        raise AnalysisError('positive control failed: synthetic writer not recognised')
    ctx.ok('R6', 'positive-control::synthetic UPDATE user_inst_coll_resources', nontrivial=False)
    # cleanup loops: delete keyed by exactly the selected triple; selectors filtered.  Decided on the function with its module-level helpers
    # inlined; the loop variable and the key tuple are resolved, not matched by name
    m0 = pf.load('batch/batch/driver/main.py')
    KEY = ['batch_id', 'job_group_id', 'update_id']
    for fname, table, filt in (('delete_committed_job_groups_inst_coll_staging_records', STAGE_TBL, 'committed'),
                               ('delete_prev_cancelled_job_group_cancellable_resources_records', CANC_TBL, 'cancelled')):
        m0.func(fname)
        m, fn, _il = cs.prepare(m0, fname)
        embs = [e for e in cs.embedded(m) if e.fn is fn]
        ctx.need(len(embs) == 2 and all(e.sql_text is not None and not (e.stmts() and False) and not e.parse_error for e in embs), f'{fname}: expected a selector and a delete with literal SQL')
        sel = [(e, st) for e in embs for st in e.stmts() if st.kind == 'select']
        dels = [(e, st) for e in embs for st in e.stmts() if st.kind == 'delete']
        ctx.need(len(sel) == 1 and len(dels) == 1, f'{fname}: selector/delete not recognised')
        (se, s), (de, d) = sel[0], dels[0]
        cons = f'{m.rel}::{fname}'
        ctx.need([t.lower() for t, _ in sf.written_tables(d)] == [table], f'{fname}: the delete does not target {table}')
        params = sr.params_in_order(d)
        elts = sr.args_tuple(fn, c56.args_node(de.call))
        ctx.need(elts is not None and len(elts) == len(params), f'{fname}: cannot bind the arguments of the delete')
        assert elts is not None
        # the loop the delete runs in iterates the rows of the selector
        loops = [l for l in sr.enclosing_loops(m, de.call) if any(l is x for x in pf.walk_shallow(fn))]
        ctx.need(len(loops) == 1 and isinstance(loops[0].target, ast.Name), f'{fname}: the delete does not run in one `for <row> in <selected rows>` loop')
        T = loops[0].target.id
        it = loops[0].iter
        if isinstance(it, ast.Name):
            it = pf.resolve_expr(fn, it)
        if isinstance(it, ast.Await):
            it = it.value
        ctx.need(it is se.call, f'{fname}: the loop around the delete does not iterate the result of the selector query')
        bind = {id(p): x for p, x in zip(params, elts)}
        got: Dict[str, Optional[str]] = {}
        other = []
        for c in sf.conjuncts(d.where):
            hit = False
            if c.kind == 'bin' and c.op == '=':
                for a, b in ((c.left, c.right), (c.right, c.left)):
                    if a.kind == 'col' and b.kind == 'param':
                        x = bind[id(b)]
                        for _ in range(3):  # `key = (row['batch_id'], ..)` ... `key[0]`, or a plain alias
                            if isinstance(x, ast.Subscript) and isinstance(x.value, ast.Name) and isinstance(x.slice, ast.Constant) and isinstance(x.slice.value, int):
                                d_ = pf.single_def(fn, x.value.id)
                                if isinstance(d_, ast.Tuple) and 0 <= x.slice.value < len(d_.elts):
                                    x = d_.elts[x.slice.value]
                                    continue
                            if isinstance(x, ast.Name) and isinstance(pf.single_def(fn, x.id), ast.expr) and not isinstance(pf.single_def(fn, x.id), ast.Await):
                                x = pf.single_def(fn, x.id)
                                continue
                            break
                        got[a.parts[-1].lower()] = pf.const_str(x.slice) if isinstance(x, ast.Subscript) and isinstance(x.value, ast.Name) and x.value.id == T else None
                        hit = True
                        break
            if not hit:
                other.append(c)
        if got == {k: k for k in KEY} and not other:
            ctx.ok('R6', cons + '::delete key')
        elif not other and set(got) < set(KEY) and all(got[k] == k for k in got):
            ctx.bad('R6', cons + '::delete key', f'rows are deleted by {sorted(got)} only, not by exactly the selected (batch_id, update_id, job_group_id): WHERE {text(d.where)} also removes rows of '
                    f'{sorted(set(KEY) - set(got))} values that were not selected (still needed counters disappear)', m.path, de.lineno)
        elif not other and set(got) == set(KEY) and all(v in KEY for v in got.values()):
            ctx.bad('R6', cons + '::delete key', f'the delete compares {", ".join(f"{k} with the selected {v}" for k, v in sorted(got.items()) if k != v)}: rows other than the selected ones are removed', m.path, de.lineno)
        else:
            raise AnalysisError(f'{fname}: the WHERE of the delete ({text(d.where)[:120]}) is not recognisably keyed by the columns of the selected row')
        selected = {(al or text(c).split('.')[-1]).lower().strip('`') for c, al in s.cols}
        ctx.need(set(KEY) <= selected and table in [t.lower() for t in sf.table_names(s.frm)], f'{fname}: the selector does not return (batch_id, update_id, job_group_id) of {table} (returns {sorted(selected)} from {sf.table_names(s.frm)})')
        sal = cf.alias_map(s)
        for c_, al_ in s.cols:
            nm = (al_ or text(c_).split('.')[-1]).lower().strip('`')
            if nm in KEY and c_.kind == 'col':
                tt = cf.term_of(c_, sal, prog.tables)
                ctx.need(tt is not None and tt[0] == 'col' and tt[1] in (table, '?') and tt[2] == nm, f'{fname}: the selected {nm} is `{text(c_)}`, not the {nm} of the {table} row')
        ctx.ok('R6', cons + '::selector columns', {'selected': sorted(selected)})
        if filt == 'committed':
            alias = _alias_map(s)
            conj = _all_conjuncts(s)
            eqs = set()
            for c in conj:
                if c.kind == 'bin' and c.op == '=' and c.left.kind == 'col' and c.right.kind == 'col':
                    def tc(x: N) -> Tuple[str, str]:
                        return (alias.get(x.parts[-2].lower(), '?') if len(x.parts) > 1 else '?', x.parts[-1].lower())
                    eqs.add(frozenset((tc(c.left), tc(c.right))))
            joined = frozenset(((table, 'batch_id'), ('batch_updates', 'batch_id'))) in eqs and frozenset(((table, 'update_id'), ('batch_updates', 'update_id'))) in eqs
            inner = all(j.jtype == 'INNER' for j in s.frm.joins)
            has_commit = any(_truthy_col(c, alias, 'batch_updates', 'committed') for c in conj)
            mentions = any(x.kind == 'col' and x.parts[-1].lower() == 'committed' for c in conj for x in c.walk())
            if has_commit and joined and inner:
                ctx.ok('R6', cons + '::only committed')
            elif not mentions:
                ctx.bad('R6', cons + '::only committed', 'staging rows of an update that is not committed could be deleted (they are still needed by commit_batch_update): the selector never tests batch_updates.committed',
                        m.path, se.lineno)
            else:
                raise AnalysisError(f'{fname}: the selector mentions `committed` but not as a conjunct on batch_updates joined on (batch_id, update_id) with inner joins: not decided')
        else:
            lat = [t for t in sf.from_tables(s.frm) if t.kind == 'derived']
            walks = [t for t in lat if _is_canonical_walk(t.select, None)]
            names = [t.lower() for t in sf.table_names(s.frm)]
            WALK, MARK = 'job_group_self_and_ancestors', 'job_groups_cancelled'
            c_ = cons + '::only cancelled'
            if len(walks) == 1 and any(j.ref is walks[0] and j.jtype == 'INNER' for j in s.frm.joins):
                ctx.ok('R6', c_)
            elif len(walks) == 1 and any(j.ref is walks[0] and j.jtype == 'LEFT' for j in s.frm.joins) and not any(
                    x.kind == 'isnull' and x.negated and x.arg.kind == 'col' and len(x.arg.parts) == 2 and x.arg.parts[0].lower() == walks[0].alias.lower() for x in (s.where.walk() if s.where is not None else [])):
                ctx.bad('R6', c_, 'cancellable rows of a group with no cancelled self-or-ancestor could be deleted: the ancestor walk is LEFT JOINed and its result is not required (INNER JOIN LATERAL, or IS NOT NULL on it)',
                        m.path, se.lineno)
            elif not lat and sorted(names) == sorted([table, WALK, MARK]) and all(j.jtype == 'INNER' for j in s.frm.joins):
                # the walk written as plain inner joins: the selected row's group must be the DESCENDANT end, the mark the ANCESTOR end
                ec = cf.eq_closure(s, prog.tables)
                g, w, k = (lambda c: ('col', table, c)), (lambda c: ('col', WALK, c)), (lambda c: ('col', MARK, c))
                same_batch = ec.related(g('batch_id'), w('batch_id')) and ec.related(w('batch_id'), k('id'))
                if same_batch and ec.related(g('job_group_id'), w('job_group_id')) and ec.related(w('ancestor_id'), k('job_group_id')):
                    ctx.ok('R6', c_)
                elif same_batch and ec.related(g('job_group_id'), w('ancestor_id')) and ec.related(w('job_group_id'), k('job_group_id')):
                    ctx.bad('R6', c_, 'the ancestor walk is followed in the wrong direction: the rows selected for deletion are those of the ANCESTORS of a cancelled group (the cancelled mark is joined to the descendant end '
                            'of job_group_self_and_ancestors, the cancellable row to ancestor_id), so cancellable counts of groups that are not cancelled disappear', m.path, se.lineno)
                else:
                    raise AnalysisError(f'{fname}: the joins of the selector between {table}, {WALK} and {MARK} are not recognised')
            elif not lat and MARK not in [t.lower() for x in s.walk() if x.kind == 'select' for t in sf.table_names(x.frm)]:
                ctx.bad('R6', c_, 'cancellable rows are selected for deletion without looking at job_groups_cancelled at all', m.path, se.lineno)
            else:
                raise AnalysisError(f'{fname}: how the selector restricts the rows to cancelled groups is not recognised')


def _truthy_col(c: N, alias: Dict[str, str], table: str, col: str) -> bool:
    """`t.col` | `t.col = 1` | `1 = t.col` | `t.col = TRUE` | `t.col IS TRUE` | `t.col <> 0`: a conjunct requiring the flag column to be set."""
    if c.kind == 'bin' and c.op in ('=', '<=>') and c.right.kind == 'lit' and c.right.value in (1, True) and not isinstance(c.right.value, str):
        c = c.left
    elif c.kind == 'bin' and c.op in ('=', '<=>') and c.left.kind == 'lit' and c.left.value in (1, True) and not isinstance(c.left.value, str):
        c = c.right
    elif c.kind == 'bin' and c.op in ('!=', '<>') and c.right.kind == 'lit' and c.right.value in (0, False) and c.right.value is not None and not isinstance(c.right.value, str):
        c = c.left
    elif c.kind == 'is' and getattr(c, 'value', None) in (True, 1) and not getattr(c, 'negated', False):
        c = c.arg
    sole = list(alias.values()).count(table) == 1
    return _col_of(c, alias, table, col, sole=sole)


# ------------------------------------------------------------------------------------------------
IMMUTABLE = ['always_run', 'cores_mcpu', 'inst_coll', 'job_group_id', 'update_id', 'batch_id', 'job_id']


def r8_immutable(ctx: Ctx, prog: sf.SqlProgram) -> None:
    """The trigger computes OLD and NEW views with the OLD always_run / cores_mcpu and keys rows by NEW.inst_coll / job_group_id:
    that is only right if no UPDATE ever changes those columns of a job."""
    def cols_set(st: N) -> List[str]:
        if st.kind != 'update':
            return []
        tabs = [t for t in sf.from_tables(st.frm) if t.kind == 'table']
        alias = {(t.alias or t.name).lower(): t.name.lower() for t in tabs}
        out = []
        for c, _ in st.sets:
            if c.kind != 'col':
                continue
            col = c.parts[-1].lower()
            if len(c.parts) > 1:
                if alias.get(c.parts[-2].lower()) == 'jobs':
                    out.append(col)
            elif tabs and tabs[0].name.lower() == 'jobs':
                out.append(col)
        return out
    n = 0
    for name, r in sorted(prog.routines.items()):
        for st in sf.all_statements(r.ast.body):
            cs_ = cols_set(st)
            if cs_:
                n += 1
                bad = sorted(set(cs_) & set(IMMUTABLE))
                ctx.check(not bad, 'R8', f'{r.file}::{name}::UPDATE jobs SET {", ".join(sorted(cs_))}', f'{name} changes jobs.{bad}: jobs_after_update derives both the removed and the added '
                          'amount from one value of these columns, so the counters of the old value are never decremented', r.file, r.line_of(st))
    for rel in pf.walk_py(['batch/batch']):
        m = pf.load(rel)
        if 'jobs' not in m.src:
            continue
        for e in cs.embedded(m):
            if e.sql_text is None or 'jobs' not in e.sql_text or e.parse_error:
                continue
            for st in e.stmts():
                cs_ = cols_set(st)
                if cs_:
                    n += 1
                    bad = sorted(set(cs_) & set(IMMUTABLE))
                    ctx.check(not bad, 'R8', f'{rel}::{e.qual}::UPDATE jobs SET {", ".join(sorted(cs_))}', f'changes jobs.{bad} which the counter trigger treats as immutable', m.path, e.lineno)
    ctx.need(n >= 8, f'only {n} UPDATE statements on jobs found')


# ------------------------------------------------------------------------------------------------
# R10 / R11: the staged roll-up of commit_batch_update is only right if no staged Ready job sits under a cancelled group at commit
# ------------------------------------------------------------------------------------------------
MARK_TBL = 'job_groups_cancelled'
MARK_WRITERS = {'cancel_job_group', 'cancel_batch'}
A2_HISTORY = ('history: create update 1 with a nested job group G and parentless (Ready) jobs in G; cancel G before the commit: cancel_job_group inserts the mark but moves only '
              'committed updates\' counts; commit update 1: commit_batch_update adds the staged n_ready_jobs / ready_cores_mcpu unconditionally -> the jobs of G are counted in '
              'n_ready_jobs although the recomputation puts them in n_cancelled_ready_jobs')


def _is_root_expr(m: pf.Module, x: Optional[ast.AST]) -> bool:
    if isinstance(x, ast.Constant) and x.value == 0 and not isinstance(x.value, bool):
        return True
    return isinstance(x, ast.Name) and m.imports().get(x.id, '').endswith('.ROOT_JOB_GROUP_ID')


def _bind(e: sf.Embedded, st: N) -> Optional[Dict[int, ast.AST]]:
    params = sr.params_in_order(st)
    if not params:
        return {}
    elts = sr.args_tuple(e.fn, c56.args_node(e.call)) if c56.args_node(e.call) is not None else None
    if elts is None or len(elts) != len(params):
        return None
    return {id(p): x for p, x in zip(params, elts)}


def _src(x: Optional[ast.AST]) -> Optional[str]:
    return pf.nsrc(x) if x is not None else None


def _assigned_name(m: pf.Module, call: ast.Call) -> Optional[str]:
    """`rec = [await] <call>`  ->  'rec'."""
    par = m.parents()
    p = par.get(call)
    if isinstance(p, ast.Await):
        p = par.get(p)
    if isinstance(p, ast.Assign) and len(p.targets) == 1 and isinstance(p.targets[0], ast.Name):
        return p.targets[0].id
    if isinstance(p, ast.AnnAssign) and isinstance(p.target, ast.Name):
        return p.target.id
    return None


def _alias_map(sel: N) -> Dict[str, str]:
    return {(t.alias or t.name).lower(): t.name.lower() for t in sf.from_tables(sel.frm) if t.kind == 'table'}


def _all_conjuncts(sel: N) -> List[N]:
    out = list(sf.conjuncts(sel.where))

    def rec(ref: N) -> None:
        if ref.kind == 'from':
            rec(ref.first)
            for j in ref.joins:
                out.extend(sf.conjuncts(j.on))
                rec(j.ref)
    if sel.frm is not None:
        rec(sel.frm)
    return out


def _col_of(e: N, alias: Dict[str, str], table: str, col: str, sole: bool) -> bool:
    """Is e the column `col` of `table` (qualified by an alias of it, or unqualified when only that table has it)?"""
    if e.kind != 'col' or e.parts[-1].lower() != col:
        return False
    if len(e.parts) > 1:
        return alias.get(e.parts[-2].lower()) == table
    return sole


def _committed_or_root(m: pf.Module, sel: N, bind: Dict[int, ast.AST]) -> bool:
    """Does the WHERE of a row-existence query over job_groups imply  "the group's creating update is committed OR the group is the root"?"""
    alias = _alias_map(sel)
    conj = _all_conjuncts(sel)
    eqs = set()
    for c in conj:
        if c.kind == 'bin' and c.op == '=' and c.left.kind == 'col' and c.right.kind == 'col':
            def tc(x: N) -> Tuple[str, str]:
                return (alias.get(x.parts[-2].lower(), '?') if len(x.parts) > 1 else '?', x.parts[-1].lower())
            eqs.add(frozenset((tc(c.left), tc(c.right))))
    joined = frozenset((('job_groups', 'batch_id'), ('batch_updates', 'batch_id'))) in eqs and frozenset((('job_groups', 'update_id'), ('batch_updates', 'update_id'))) in eqs

    def committed_lit(d: N) -> bool:
        if d.kind == 'bin' and d.op == '=' and d.right.kind == 'lit' and d.right.value in (1, True):
            d = d.left
        return _col_of(d, alias, 'batch_updates', 'committed', sole=True) and 'batch_updates' in alias.values() and joined

    def root_lit(d: N) -> bool:
        if not (d.kind == 'bin' and d.op == '='):
            return False
        for a, b in ((d.left, d.right), (d.right, d.left)):
            if _col_of(a, alias, 'job_groups', 'job_group_id', sole=list(alias.values()).count('job_groups') == 1 and 'job_group_self_and_ancestors' not in alias.values()):
                if b.kind == 'lit' and b.value == 0:
                    return True
                if b.kind == 'param' and _is_root_expr(m, bind.get(id(b))):
                    return True
        return False

    for c in sf.conjuncts(sel.where):
        ds = sf.disjuncts(c)
        if ds and all(committed_lit(d) or root_lit(d) for d in ds):
            return True
    return False


def _keyed_on(sel: N, bind: Dict[int, ast.AST], table: str, want: Dict[str, Optional[str]]) -> bool:
    """WHERE has `table.col = %s` with %s bound to the python expression `want[col]` for every col."""
    alias = _alias_map(sel)
    got: Dict[str, Optional[str]] = {}
    for c in sf.conjuncts(sel.where):
        if c.kind == 'bin' and c.op == '=':
            for a, b in ((c.left, c.right), (c.right, c.left)):
                if a.kind == 'col' and b.kind == 'param' and (alias.get(a.parts[-2].lower()) == table if len(a.parts) > 1 else True):
                    got.setdefault(a.parts[-1].lower(), _src(bind.get(id(b))))
    return all(got.get(k) == v and v is not None for k, v in want.items())


def r10_cancel_sites(ctx: Ctx, prog: sf.SqlProgram, dirs: List[str]) -> None:
    """No group of an update that is not committed may carry a cancellation mark (the root group excepted: R11 refuses the commit then)."""
    # (a) SQL: who inserts the mark, and for which group
    sql_callers = []
    for name, r in sorted(prog.routines.items()):
        for st in sf.all_statements(r.ast.body):
            if any(t.lower() == MARK_TBL for t, _ in sf.written_tables(st)):
                cons = f'sql::{name}::{st.kind} {MARK_TBL}'
                if name not in MARK_WRITERS:
                    ctx.bad('R10', cons, f'{name} writes {MARK_TBL} but is not one of the cancel procedures {sorted(MARK_WRITERS)}: a cancellation mark appears without the counters being moved '
                            'from n_*_jobs to n_cancelled_*_jobs', r.file, r.line_of(st))
                    continue
                ok = st.kind == 'insert' and st.select is None and st.cols is not None and len(st.rows) == 1
                ctx.need(ok, f'{name}: the statement writing {MARK_TBL} is not a single-row INSERT .. VALUES: which group is marked is not recognised')
                pn = [p[1].lower() for p in getattr(r.ast, 'params', [])]
                ctx.need(len(pn) >= (2 if name == 'cancel_job_group' else 1), f'{name}: parameters {pn}')
                vals = {c.lower().strip('`'): text(v).lower() for c, v in zip(st.cols, st.rows[0])}
                want = {'id': pn[0], 'job_group_id': pn[1] if name == 'cancel_job_group' else '0'}
                ctx.check(vals == want, 'R10', cons, f'the mark is written for {vals}, not for the group whose counters the procedure moved ({want})', r.file, r.line_of(st))
            if st.kind == 'call' and st.name.lower() in MARK_WRITERS:
                sql_callers.append((name, r, st))
    for name, r, st in sql_callers:
        g = text(st.args[1]).lower() if len(st.args) > 1 else '0'
        ctx.need(g == '0' or st.name.lower() == 'cancel_batch', f'{name} calls {st.name} for a non-root group from SQL: who guarantees that its update is committed is not analysed')
    # (b) Python call sites
    n_sites = 0
    for rel in pf.walk_py(dirs):
        m = pf.load(rel)
        if 'cancel_job_group' not in m.src and 'cancel_batch' not in m.src and MARK_TBL not in m.src:
            continue
        for e in cs.embedded(m):
            if e.sql_text is None or not any(k in e.sql_text for k in ('cancel_job_group', 'cancel_batch', MARK_TBL)):
                continue
            sts = e.stmts()
            ctx.need(not e.parse_error, f'{rel}:{e.lineno}: SQL naming the cancel procedures does not parse ({e.parse_error})')
            for i_st, st in enumerate(sts):
                if any(t.lower() == MARK_TBL for t, _ in sf.written_tables(st)):
                    ctx.bad('R10', f'{rel}::{e.qual}::{st.kind} {MARK_TBL}', f'{e.qual} writes {MARK_TBL} directly: the mark appears without the cancel procedure moving the counters', m.path, e.lineno)
                if st.kind != 'call' or st.name.lower() != 'cancel_job_group':
                    continue
                n_sites += 1
                m2, e2 = _inlined_site(m, e)
                _cancel_site(ctx, m2, e2, e2.stmts()[i_st])
    ctx.need(n_sites >= 2, f'only {n_sites} Python call sites of cancel_job_group found')


def _inlined_site(m: pf.Module, e: sf.Embedded) -> Tuple[pf.Module, sf.Embedded]:
    """The execute-style call e in the copy of its module whose outermost enclosing (module-level) function has its module-level helpers
    inlined (also inside nested functions): a guard moved into a helper is analysed as if it had stayed in place."""
    top = cs.outermost_function(m, e.call)
    if top is None or not any(top is x for x in m.tree.body):
        return m, e
    try:
        m2, top2, _ = cs.prepared(m, top.name)
    except AnalysisError:
        return m, e
    c2 = cs.counterpart(m2, top2, e.call)
    for e2 in cs.embedded(m2):
        if e2.call is c2:
            return m2, e2
    return m, e


def _cancel_site(ctx: Ctx, m: pf.Module, e: sf.Embedded, st: N) -> None:
    cons = f'{m.rel}::{e.qual}::CALL cancel_job_group::group committed or root'
    ctx.need(len(st.args) == 2, f'{m.rel}:{e.lineno}: CALL cancel_job_group with {len(st.args)} arguments')
    bind = _bind(e, st)
    ctx.need(bind is not None, f'{m.rel}:{e.lineno}: cannot bind the arguments of CALL cancel_job_group')
    assert bind is not None
    b_arg, g_arg = st.args
    if (g_arg.kind == 'lit' and g_arg.value == 0) or (g_arg.kind == 'param' and _is_root_expr(m, bind.get(id(g_arg)))):
        ctx.ok('R10', cons, {'group': 'root'})
        return
    ctx.need(b_arg.kind == 'param' and g_arg.kind == 'param' and e.fn is not None, f'{m.rel}:{e.lineno}: CALL cancel_job_group argument shape not recognised')
    b_src, g_src = _src(bind.get(id(b_arg))), _src(bind.get(id(g_arg)))
    g = pf.cfg(e.fn)
    target = g.node_of(e.call)
    ctx.need(len(target) == 1, f'{m.rel}:{e.lineno}: CALL cancel_job_group not found in the control-flow graph')
    keyed = []
    for e2 in cs.embedded(m):
        if e2.fn is not e.fn or e2 is e or e2.sql_text is None or 'job_groups' not in e2.sql_text:
            continue
        sts2 = e2.stmts()
        if e2.parse_error or len(sts2) != 1 or sts2[0].kind != 'select' or sts2[0].frm is None or 'job_groups' not in [t.lower() for t in sf.table_names(sts2[0].frm)]:
            continue
        sel = sts2[0]
        bind2 = _bind(e2, sel)
        if bind2 is None or not _keyed_on(sel, bind2, 'job_groups', {'batch_id': b_src, 'job_group_id': g_src}):
            continue
        keyed.append((e2, sel, bind2))
    ctx.need(keyed, f'{m.rel}::{e.qual}: no row-existence query over job_groups keyed by the CALL\'s own ({b_src}, {g_src}) in this function: who establishes "committed or root" is not analysed')
    ok = False
    unclear = ''
    why = 'its WHERE does not require `batch_updates.committed` (joined on the group\'s own batch_id, update_id) or the root group'
    for e2, sel, bind2 in keyed:
        if not _committed_or_root(m, sel, bind2):
            continue
        rec = _assigned_name(m, e2.call)
        assign = g.node_of(e2.call)
        if rec is None or len(assign) != 1 or not e2.method.endswith('fetchone'):
            p_ = m.parents().get(e2.call)
            p_ = m.parents().get(p_) if isinstance(p_, ast.Await) else p_
            if isinstance(p_, ast.Expr):
                why = 'its result is discarded'
            else:
                unclear = unclear or 'the result of the guard query is not bound to a plain variable'
            continue
        tests, _, mentioned = cf.outcome_tests(g, e.fn, rec)
        if cf.guard_dominates(g, tests, assign[0], target[0]):
            ok = True
        elif tests or not mentioned:
            why = f'the CALL is reachable without the "row found" outcome of `{rec}`'
        else:
            unclear = unclear or f'`{rec}` is used in a way the analysis does not recognise as a row-found test'
    ctx.need(ok or not unclear, f'{m.rel}::{e.qual}: {unclear}')
    ctx.check(ok, 'R10', cons, f'cancel_job_group({b_src}, {g_src}) can be called for a non-root job group whose creating update is not committed: the guard query before it exists but {why}. '
              + A2_HISTORY, m.path, e.lineno)


def r11_commit_sites(ctx: Ctx, dirs: List[str]) -> None:
    """commit_batch_update is only called after refusing a batch whose root group is cancelled (then every staged Ready job is cancelled and the roll-up would count it as ready)."""
    n = 0
    for rel in pf.walk_py(dirs):
        m = pf.load(rel)
        if 'commit_batch_update' not in m.src:
            continue
        for e in cs.embedded(m):
            if e.sql_text is None or 'commit_batch_update' not in e.sql_text:
                continue
            sts = e.stmts()
            ctx.need(not e.parse_error and len(sts) == 1 and sts[0].kind == 'call' and sts[0].name.lower() == 'commit_batch_update' and e.fn is not None,
                     f'{rel}:{e.lineno}: statement naming commit_batch_update not recognised')
            bind = _bind(e, sts[0])
            ctx.need(bind is not None and sts[0].args and sts[0].args[0].kind == 'param', f'{rel}:{e.lineno}: cannot bind the arguments of CALL commit_batch_update')
            assert bind is not None
            b = bind[id(sts[0].args[0])]
            fn = e.fn
            params = [a.arg for a in fn.args.args]
            ctx.need(isinstance(b, ast.Name) and b.id in params and m.qualname(fn) == fn.name, f'{rel}::{e.qual}: batch argument of commit_batch_update is not a parameter of a module-level function')
            idx = params.index(b.id)
            # callers of fn in this module; any other reference to fn is not analysable
            sites = []
            for node in ast.walk(m.tree):
                if isinstance(node, ast.Name) and node.id == fn.name and isinstance(node.ctx, ast.Load):
                    p = m.parents().get(node)
                    ctx.need(isinstance(p, ast.Call) and p.func is node, f'{rel}: {fn.name} is referenced other than by a direct call (line {node.lineno})')
                    sites.append(p)
            ctx.need(sites, f'{rel}: no caller of {fn.name} found')
            if ctx.tier != 'quick':
                for rel2 in pf.walk_py(dirs):
                    if rel2 != rel:
                        m2 = pf.load(rel2)
                        ctx.need(not any(v.endswith('.' + fn.name) for v in m2.imports().values()), f'{rel2} imports {fn.name}: callers outside {rel} are not analysed')
            for call in sites:
                n += 1
                top = cs.outermost_function(m, call)
                m2, call2 = m, call
                if top is not None and any(top is x for x in m.tree.body):
                    try:
                        mm, top2, _ = cs.prepared(m, top.name, exclude=(fn.name,))
                        c2 = cs.counterpart(mm, top2, call)
                        if c2 is not None:
                            m2, call2 = mm, c2
                    except AnalysisError:
                        pass
                _commit_site(ctx, m2, call2, idx, fn.name)
    ctx.need(n >= 4, f'only {n} call sites of the commit wrapper found')


def _refusal_in_creator(ctx: Ctx, m: pf.Module, creator: str) -> Optional[bool]:
    """Does `creator` refuse (raise) for a cancelled root group before it inserts a new batch_updates row?"""
    ctx.need(m.has_func(creator), f'{creator} not found')
    if any(isinstance(x, (ast.FunctionDef, ast.AsyncFunctionDef)) and x.name == creator for x in m.tree.body):
        try:
            m = cs.prepared(m, creator)[0]
        except AnalysisError:
            pass
    outer = m.func(creator)
    for e in cs.embedded(m):
        if e.fn is None or not (e.fn is outer or m.qualname(e.fn).startswith(creator + '.')) or e.sql_text is None or 'batch_updates' not in e.sql_text:
            continue
        for st in e.stmts():
            if st.kind == 'insert' and st.table.lower() == 'batch_updates':
                g = pf.cfg(e.fn)
                tgt = g.node_of(e.call)
                if len(tgt) != 1:
                    return None
                vs = [_root_cancel_refusal(m, e.fn, e2, tgt[0], None) for e2 in cs.embedded(m) if e2.fn is e.fn and e2 is not e]
                return True if 'ok' in vs else (None if 'unclear' in vs else False)
    return None


def _root_cancel_refusal(m: pf.Module, fn: pf.FuncDef, e2: sf.Embedded, target: pf.Node, batch_src: Optional[str]) -> str:
    """Classify a query of `fn` w.r.t. `target`:  'ok' = it reads the root group's cancellation mark into a column `cancelled` and `target` is only
    reachable through the not-cancelled outcome; 'untested' = reads it but the outcome does not guard target; 'blind' = a batch/job-group
    existence query that does not look at the mark; '' = unrelated."""
    if e2.sql_text is None or e2.parse_error:
        return ''
    sts = e2.stmts()
    if len(sts) != 1 or sts[0].kind != 'select' or sts[0].frm is None:
        return ''
    sel = sts[0]
    tabs = [t.lower() for t in sf.table_names(sel.frm)]
    if not tabs:
        return ''
    bind = _bind(e2, sel)
    if bind is None:
        return ''
    if batch_src is not None:
        srcs = {_src(x) for x in bind.values()}
        if batch_src not in srcs:
            return ''
    # the mark lookup: a derived table that is the root lookup / the ancestor walk, surfaced as `<alias>.cancelled IS NOT NULL AS cancelled`
    lookups = {}
    for t in sf.from_tables(sel.frm):
        if t.kind != 'derived':
            continue
        rl = sr.root_lookup(t.select)
        if rl is not None:
            gnode = rl['group']
            if (gnode.kind == 'lit' and gnode.value == 0) or (gnode.kind == 'param' and _is_root_expr(m, bind.get(id(gnode)))):
                lookups[t.alias.lower()] = t
        elif sr.ancestor_walk(t.select) is not None and 'job_groups' in tabs:
            # walk from the job_groups row the outer query selects: must be the root row
            if any(c.kind == 'bin' and c.op == '=' and c.left.kind == 'col' and c.left.parts[-1].lower() == 'job_group_id' and c.right.kind == 'param'
                   and _is_root_expr(m, bind.get(id(c.right))) for c in sf.conjuncts(sel.where)):
                lookups[t.alias.lower()] = t
    flag = None
    for c, al in sel.cols:
        if al and c.kind == 'isnull' and c.negated and c.arg.kind == 'col' and len(c.arg.parts) == 2 and c.arg.parts[0].lower() in lookups:
            flag = al
    if flag is None:
        return 'blind' if tabs[0] in ('batches', 'job_groups', 'batch_updates') else ''
    rec = _assigned_name(m, e2.call)
    g = pf.cfg(fn)
    assign = g.node_of(e2.call)
    if rec is None or len(assign) != 1:
        return 'untested'
    _, tests, mentioned = cf.outcome_tests(g, fn, rec, flag)
    if cf.guard_dominates(g, tests, assign[0], target):
        return 'ok'
    # the flag is fetched and never looked at, or looked at in recognised tests that do not stand between the query and the commit: positive
    # evidence; looked at in some other way (handed to a helper the inliner could not follow, stored, ..): not decided
    return 'untested' if (tests or not mentioned) else 'unclear'


_creator_ok: Dict[str, Optional[bool]] = {}


def _commit_site(ctx: Ctx, m: pf.Module, call: ast.Call, idx: int, wrapper: str) -> None:
    fn = m.enclosing_func(call)
    ctx.need(fn is not None and len(call.args) > idx, f'{m.rel}:{call.lineno}: call of {wrapper} not recognised')
    assert fn is not None
    b_src = pf.nsrc(call.args[idx])
    cons = f'{m.rel}::{m.qualname(fn)}::{wrapper}({b_src}, ..)::cancelled batch refused'
    g = pf.cfg(fn)
    target = g.node_of(call)
    ctx.need(len(target) == 1, f'{m.rel}:{call.lineno}: call of {wrapper} not found in the control-flow graph')
    # (i) the update was created in this very request by a creator that refuses cancelled batches
    for c in pf.calls_in(fn):
        name = pf.call_name(c)
        if name and name == '_create_batch_update' and c.args and pf.nsrc(c.args[0]) == b_src:
            cn = g.node_of(c)
            if len(cn) == 1 and g.path_avoiding(g.entry, lambda n: n is target[0], lambda n: n is cn[0]) is None:
                if name not in _creator_ok:
                    _creator_ok[name] = _refusal_in_creator(ctx, m, name)
                ctx.need(_creator_ok[name] is not None, f'{m.rel}::{name}: whether it refuses a batch whose root group is cancelled before it opens an update is not recognised')
                ctx.check(_creator_ok[name], 'R11', cons, f'{name} no longer refuses to open an update on a batch whose root group is cancelled; the update it opens is committed right here: '
                          'the staged Ready jobs of a cancelled batch are added to n_ready_jobs', m.path, call.lineno)
                return
    # (ii) an explicit look at the root group's mark in the caller
    verdicts = [(e2, _root_cancel_refusal(m, fn, e2, target[0], b_src)) for e2 in cs.embedded(m) if e2.fn is fn]
    kinds = [v for _, v in verdicts if v]
    ctx.need(kinds, f'{m.rel}::{m.qualname(fn)}: no batch / job-group query keyed by {b_src} before {wrapper}: who refuses a cancelled batch is not analysed')
    ok = 'ok' in kinds
    ctx.need(ok or 'unclear' not in kinds, f'{m.rel}::{m.qualname(fn)}: the root group\'s cancellation mark is fetched before {wrapper} but used in a way the analysis does not recognise as a refusal')
    if 'untested' in kinds:
        why = 'the query reads the root group\'s cancellation mark but the commit is reachable whatever it returned'
    else:
        why = 'the existence query before the commit does not look at job_groups_cancelled for the root group'
    ctx.check(ok, 'R11', cons, f'an update of a batch whose root group is already cancelled can be committed: {why}. history: open update 1 with parentless (Ready) jobs, cancel the batch '
              '(cancel_job_group moves nothing, the update is not committed), commit: commit_batch_update adds the staged n_ready_jobs / ready_cores_mcpu to user_inst_coll_resources '
              'although every one of those jobs is cancelled (recomputation: n_cancelled_ready_jobs)', m.path, call.lineno)


# ------------------------------------------------------------------------------------------------
# R12: what the scheduler / autoscaler / canceller READ is the sum over all token shards
# ------------------------------------------------------------------------------------------------
SHARDED = {USER_TBL: set(USER_COUNTERS), CANC_TBL: set(CANC_COUNTERS)}


def _reader_problems(sel: N) -> Tuple[List[str], int]:
    """Problems of one SELECT that reads counter columns of a sharded table directly, and the number of counter reads seen."""
    tabs = [t for t in sf.from_tables(sel.frm) if t.kind == 'table']
    mine = {(t.alias or t.name).lower(): t.name.lower() for t in tabs if t.name.lower() in SHARDED}
    if not mine:
        return [], 0
    only = len(tabs) == 1
    counters = set().union(*(SHARDED[t] for t in mine.values()))
    aliases = {al.lower() for _, al in sel.cols if al}
    probs: List[str] = []
    reads = [0]

    def is_counter(n: N) -> bool:
        if n.kind != 'col' or n.parts[-1].lower() not in counters:
            return False
        if len(n.parts) > 1:
            return n.parts[-2].lower() in mine
        return only or n.parts[-1].lower() not in STAGE_COUNTERS  # unqualified and ambiguous with the staging table: not ours to judge

    def is_token(n: N) -> bool:
        return n.kind == 'col' and n.parts[-1].lower() == 'token' and (n.parts[-2].lower() in mine if len(n.parts) > 1 else True)

    def visit(x: Any, in_sum: bool, where: str) -> None:
        if isinstance(x, (list, tuple)):
            for y in x:
                visit(y, in_sum, where)
            return
        if not isinstance(x, N):
            return
        if x.kind in ('select', 'subq', 'exists', 'derived'):
            return  # nested query blocks are judged on their own
        if x.kind == 'func' and x.name in ('SUM',):
            for y in x.args:
                visit(y, True, where)
            return
        if is_counter(x):
            reads[0] += 1
            if not in_sum:
                probs.append(f'{text(x)} is read per shard row in the {where} (not inside SUM)')
        if is_token(x) and where != 'select list':
            probs.append(f'the {where} restricts / splits by the shard column `{text(x)}`')
        for v in x.fields().values():
            visit(v, in_sum, where)

    for c, _al in sel.cols:
        visit(c, False, 'select list')
        if is_token(c):
            probs.append('the shard column `token` is selected')
    visit(sel.where, False, 'WHERE clause')
    for j in (sel.frm.joins if sel.frm is not None and sel.frm.kind == 'from' else []):
        visit(j.on, False, 'join condition')
    for gexpr in (sel.group or []):
        if is_token(gexpr):
            probs.append('GROUP BY includes the shard column `token`')
    hv = getattr(sel, 'having', None)
    if hv is not None:
        for n in hv.walk():
            if n.kind == 'col' and len(n.parts) == 1 and n.parts[0].lower() in aliases:
                continue  # HAVING resolves select aliases first
            if is_counter(n) and not _inside_sum(hv, n):
                probs.append(f'HAVING tests {text(n)} of a single shard row')
    return probs, reads[0]


def _inside_sum(root: N, target: N) -> bool:
    def rec(x: Any, in_sum: bool) -> Optional[bool]:
        if x is target:
            return in_sum
        if isinstance(x, (list, tuple)):
            for y in x:
                r = rec(y, in_sum)
                if r is not None:
                    return r
            return None
        if not isinstance(x, N):
            return None
        inner = in_sum or (x.kind == 'func' and x.name == 'SUM')
        for v in x.fields().values():
            r = rec(v, inner)
            if r is not None:
                return r
        return None
    return bool(rec(root, False))


def r12_readers(ctx: Ctx, prog: sf.SqlProgram, dirs: List[str]) -> None:
    msg = ('the counters are sharded over `token` rows (the trigger adds to a random shard, the cancel procedures subtract from shard 0, so single shards are arbitrary, even negative): '
           'only SUM over all shards equals the recomputation from job states')
    n = 0
    seen: Dict[str, int] = {}

    def judge(cons: str, st: N, file: str, line: int) -> None:
        nonlocal n
        for sel in [x for x in st.walk() if x.kind == 'select' and x.frm is not None]:
            probs, reads = _reader_problems(sel)
            if reads or probs:
                n += 1
                names = [t.lower() for t in sf.table_names(sel.frm) if t.lower() in SHARDED]
                seen[cons] = seen.get(cons, 0) + 1
                ctx.check(not probs, 'R12', f'{cons}::reads {names[0]}' + (f' #{seen[cons]}' if seen[cons] > 1 else ''), f'{"; ".join(probs[:3])}: {msg}', file, line)

    for name, r in sorted(prog.routines.items()):
        for st in sf.all_statements(r.ast.body):
            if st.kind in ('select', 'insert', 'update', 'delete'):
                judge(f'sql::{name}::{st.kind}', st, r.file, r.line_of(st))
    for rel in pf.walk_py(dirs):
        m = pf.load(rel)
        if not any(t in m.src for t in SHARDED):
            continue
        for e in cs.embedded(m):
            if e.sql_text is None or not any(t in e.sql_text for t in SHARDED):
                continue
            sts = e.stmts()
            if e.parse_error:
                raise AnalysisError(f'{rel}:{e.lineno}: SQL naming a counter table does not parse ({e.parse_error})')
            for i, st in enumerate(sts):
                judge(f'{rel}::{e.qual}::{st.kind}#{i}' if len(sts) > 1 else f'{rel}::{e.qual}::{st.kind}', st, m.path, e.lineno)
    # positive control: a per-shard reader must be seen by the same machinery
    from engines.sqlast import parse_statements
    pc = parse_statements(f'SELECT user, n_ready_jobs FROM {USER_TBL} WHERE inst_coll = %s AND token = 0')[0]
    if not _reader_problems(pc)[0]:
        raise AnalysisError('positive control failed: per-shard reader not recognised')
    ctx.ok('R12', 'positive-control::SELECT n_ready_jobs .. WHERE token = 0', nontrivial=False)


# ------------------------------------------------------------------------------------------------
# R9 (procedures): the statements that together move a cancellation / a commit run under one and the same condition
# ------------------------------------------------------------------------------------------------
def _free_literal(c: N, params: set) -> Optional[bool]:
    """True: the literal only speaks about procedure parameters / constants (a caller can make it false); None: cannot tell."""
    if cf.has_subquery(c):
        return None
    atoms = cf.literal_atoms(c)
    if atoms and all(a.kind == 'col' and len(a.parts) == 1 and a.parts[0].lower() in params for a in atoms):
        return True
    return None


def _holds_on_ranges(c: N, pol: bool, ranges: Dict[str, Tuple[int, Optional[int]]]) -> Any:
    """Order reasoning for a guard literal `V op k` (V a variable with a known integer range [lo, hi], hi None = unbounded):
    True = holds (with the given polarity) for every value in the range; (False, witness) = fails for some value; None = not of that shape."""
    if not (c.kind == 'bin' and c.op in ('=', '!=', '<>', '<', '<=', '>', '>=')):
        return None
    flip = {'<': '>', '<=': '>=', '>': '<', '>=': '<=', '=': '=', '!=': '!=', '<>': '!='}
    if sr.is_var(c.left) and c.right.kind == 'lit' and isinstance(c.right.value, int) and not isinstance(c.right.value, bool):
        v, op, k = c.left.parts[0].lower(), c.op, c.right.value
    elif sr.is_var(c.right) and c.left.kind == 'lit' and isinstance(c.left.value, int) and not isinstance(c.left.value, bool):
        v, op, k = c.right.parts[0].lower(), flip[c.op], c.left.value
    else:
        return None
    if v not in ranges:
        return None
    op = '!=' if op == '<>' else op
    if not pol:
        op = {'=': '!=', '!=': '=', '<': '>=', '<=': '>', '>': '<=', '>=': '<'}[op]
    lo, hi = ranges[v]
    always = {'>': lo > k, '>=': lo >= k, '<': hi is not None and hi < k, '<=': hi is not None and hi <= k,
              '=': hi is not None and lo == hi == k, '!=': k < lo or (hi is not None and k > hi)}[op]
    if always:
        return True
    # a falsifying member of the range (printed as the witness only)
    w = {'>': lo, '>=': lo, '<': max(lo, k), '<=': max(lo, k + 1), '=': lo if lo != k else lo + 1, '!=': k}[op]
    return (False, f' (false for {v} = {w})')


def r9_procedures(ctx: Ctx, prog: sf.SqlProgram) -> None:
    def cond_of(pl, st):
        _, guard, exits = pl[id(st)]
        return cf.condition_key(guard, exits), guard, exits

    def lits(key) -> set:
        d = dict(key)
        return set(d['guard']) | {('exit', e) for e in d['exits']}

    for rname in ('cancel_job_group', 'cancel_batch'):
        r = prog.routine(rname)
        a = r.ast
        params = {p[1].lower() for p in getattr(a, 'params', [])}
        pl = cf.path_literals(a.body)
        role: Dict[str, List[N]] = {'mark': [], 'move': [], 'clear': []}
        for st in sf.all_statements(a.body):
            for t, verb in sf.written_tables(st):
                t = t.lower()
                if t == MARK_TBL:
                    role['mark'].append(st)
                elif t == USER_TBL:
                    role['move'].append(st)
                elif t == CANC_TBL:
                    role['clear'].append(st)
        if not (len(role['mark']) == 1 and role['move'] and role['clear']):
            continue  # R4 reports the missing statement
        ctx.need(all(id(st) in pl for v in role.values() for st in v), f'{rname}: a counter statement sits inside a loop')
        mk, _, _ = cond_of(pl, role['mark'][0])
        for what, label in (('move', f'moves the cancellable counts into n_cancelled_* of {USER_TBL}'), ('clear', f'removes them from {CANC_TBL}')):
            for st in role[what]:
                k, guard, _ = cond_of(pl, st)
                cons = f'sql::{rname}::{st.kind} {sf.written_tables(st)[0][0].lower()}::same condition as the mark'
                if k == mk:
                    ctx.ok('R9', cons)
                    continue
                only_here = lits(k) - lits(mk)
                only_mark = lits(mk) - lits(k)
                extra_nodes = [c for c, pol in guard if (text(c), pol) in only_here]
                decidable = all(_free_literal(c, params) for c in extra_nodes) and not any(x[0] == 'exit' for x in only_here | only_mark) and \
                    all(_free_literal(c, params) for c, pol in pl[id(role['mark'][0])][1] if (text(c), pol) in only_mark)
                ctx.need(decidable, f'{rname}: the statement that {label} and the INSERT of the cancellation mark run under different conditions '
                         f'({sorted(map(str, only_here))} vs {sorted(map(str, only_mark))}) that depend on more than the procedure\'s parameters')
                ctx.bad('R9', cons, f'{rname} inserts the cancellation mark under {sorted(map(str, only_mark)) or "the common condition"} but the statement that {label} additionally requires '
                        f'{sorted(map(str, only_here)) or "nothing"}: for inputs where the two differ the group is marked cancelled while its jobs stay counted as before (or the reverse)',
                        r.file, r.line_of(st))

    # commit_batch_update: the roll-up of staged ready counts happens exactly when the update becomes committed
    r = prog.routine('commit_batch_update')
    a = r.ast
    params = {p[1].lower() for p in getattr(a, 'params', [])}
    pl = cf.path_literals(a.body)
    roll = [st for st in sf.all_statements(a.body) if st.kind == 'insert' and st.table.lower() == USER_TBL]
    setc = [st for st in sf.all_statements(a.body) if st.kind == 'update' and sf.table_names(st.frm)[:1] == ['batch_updates']
            and any(text(c).lower().split('.')[-1] == 'committed' for c, v in st.sets)]
    if len(roll) == 1 and len(setc) == 1:
        ctx.need(id(roll[0]) in pl and id(setc[0]) in pl, 'commit_batch_update: roll-up inside a loop')
        kr, gr, _ = cond_of(pl, roll[0])
        kc, gc_, _ = cond_of(pl, setc[0])
        cons = 'sql::commit_batch_update::roll-up runs whenever the update becomes committed'
        extra = [(c, pol) for c, pol in gr if (text(c), pol) in (lits(kr) - lits(kc))]
        missing = lits(kc) - lits(kr)
        ctx.need(not any(x[0] == 'exit' for x in (lits(kr) ^ lits(kc))), 'commit_batch_update: early exits between the commit flag and the roll-up are not analysed')
        bad_lit = None
        # integer ranges of the quantities an extra guard may legitimately test: at least one job in the update (with zero jobs nothing is staged);
        # and, when the front end stages Ready jobs only for update_id == 1, the only update whose roll-up is non-zero
        _cv, expected_vars, staged_vars = _commit_locals(a, prog)
        ranges: Dict[str, Tuple[int, Optional[int]]] = {v: (1, None) for v in expected_vars + staged_vars}
        pn = [p[1].lower() for p in getattr(a, 'params', [])]
        if _ready_only_first_update() and len(pn) >= 2:
            ranges[pn[1]] = (1, 1)
        witness = ''
        for c, pol in extra:
            verdict = _holds_on_ranges(c, pol, ranges)
            if verdict is not True:
                bad_lit = (c, pol)
                witness = verdict[1] if isinstance(verdict, tuple) else ''
                undecidable = verdict is None
                break
        if bad_lit is None and not missing:
            ctx.ok('R9', cons)
        else:
            if bad_lit is not None:
                ctx.need(not undecidable or _free_literal(bad_lit[0], params), f'commit_batch_update: the roll-up is additionally guarded by `{text(bad_lit[0])}` which depends on more than '
                         'the procedure\'s parameters and the job counts')
                ctx.bad('R9', cons, f'the update is marked committed but the staged n_ready_jobs / ready_cores_mcpu are only added to {USER_TBL} when additionally '
                        f'`{"" if bad_lit[1] else "NOT "}{text(bad_lit[0])}`{witness}: for the other inputs the Ready jobs of the update are never counted (they are inserted Ready, so no trigger will ever add them)',
                        r.file, r.line_of(roll[0]))
            else:
                ctx.bad('R9', cons, f'the staged counts are added under a weaker condition than the commit flag is set (missing {sorted(map(str, missing))}): a repeated or failed commit adds them again',
                        r.file, r.line_of(roll[0]))


def run(ctx: Ctx) -> None:
    ctx.explanation = ('Per-statement obligations of the scheduler-counter invariant decided on the effective SQL routines (after replaying the migration list) '
                       'and on the SQL embedded in the front end / driver; truth tables over the complete job-state domain are exhaustive.')
    ctx.rule('R1', 'jobs_after_update delta of every counter column == spec(NEW) - spec(OLD) on all (old state, new state, cancelled, always_run, group-cancelled) points; keyed by owner / inst_coll', 16)
    ctx.rule('R2', 'check_incremental recomputes the same spec per column and compares like-named actual/expected pairs', 25)
    ctx.rule('R3', 'INSERT .. ON DUPLICATE KEY UPDATE applies the same amount on both sides, no one-sided column', 47)
    ctx.rule('R4', 'cancel procedures: -SUM(cancellable) from live counters == +SUM into cancelled counters (summed before the cancellable rows are cleared); committed updates only; guarded by NOT cancelled; ancestors adjusted', 45)
    ctx.rule('R5', 'per-group counter rows fan out over the job group and all ancestors; _create_jobs tallies match the inserted job row and are bound to like-named columns', 18)
    ctx.rule('R6', 'closed world of writers of the counter tables; cleanup deletes keyed by the selected triple and filtered (committed / cancelled)', 18)
    ctx.rule('R7', 'commit_batch_update adds exactly the root-group staging sums of (batch, update), once, in the not-yet-committed branch', 7)
    ctx.rule('R8', 'no UPDATE changes the job columns the trigger treats as immutable (always_run, cores_mcpu, inst_coll, job_group_id, update_id, keys)', 8)
    ctx.rule('R9', 'counter maintenance is unconditional in what it carries: on every path of jobs_after_update (three-valued guards over the exhaustive state x flag domain, '
             'case splits on anything else) the upsert carrying a column runs exactly once wherever the recomputation changes it; in the cancel / commit procedures the statements '
             'that belong together run under one path condition', 18)
    ctx.rule('R10', 'no cancellation mark for a group of an uncommitted update: job_groups_cancelled is written only by the cancel procedures for their own argument, and every '
             'Python CALL cancel_job_group is for the root group or dominated by a "creating update committed OR root" row check keyed by the same (batch, group)', 4)
    ctx.rule('R11', 'every call path to commit_batch_update refuses a batch whose root group is cancelled (or commits an update opened in the same request by a creator that refuses it)', 4)
    ctx.rule('R12', 'every reader of the sharded counter tables reads SUM over all token shards (no per-shard column, filter, HAVING or GROUP BY token)', 13)
    ctx.assume('the Python CALL sites of cancel_job_group / commit_batch_update are the literal execute-style calls under the scanned directories (no dynamically built SQL)')
    ctx.assume('MySQL: AFTER UPDATE trigger fires once per updated row; ON DUPLICATE KEY UPDATE runs instead of the insert for an existing key')
    prog = sf.load_program()
    ctx.unit('migration_scripts_replayed', len(prog.scripts))
    ctx.unit('effective_routines', len(prog.routines))
    dirs = ['batch/batch'] if ctx.tier == 'quick' else ['batch', 'gear', 'auth', 'ci', 'web_common', 'monitoring', 'hail/python/hailtop']
    steps = [
        lambda: r1_trigger(ctx, prog),
        lambda: r2_audit(ctx),
        lambda: r4_cancel(ctx, prog),
        lambda: r7_commit(ctx, prog),
        lambda: r9_procedures(ctx, prog),
        lambda: r5_create_jobs(ctx),
        lambda: r6_closed_world(ctx, prog),
        lambda: r8_immutable(ctx, prog),
        lambda: r10_cancel_sites(ctx, prog, dirs),
        lambda: r11_commit_sites(ctx, dirs),
        lambda: r12_readers(ctx, prog, dirs),
    ]
    # a shape one rule cannot analyse must not hide a violation another rule can establish: run them all, then decline
    deferred: List[AnalysisError] = []
    for step in steps:
        try:
            step()
        except AnchorRemoved:
            raise
        except AnalysisError as e:
            deferred.append(e)
    if deferred:
        raise deferred[0]
